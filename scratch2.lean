import Lemmas.IOLatexText
namespace Cnfgen.IO
def pageBreakText : Str := "\n\\end{align}\\pagebreak\n\\begin{align}".toList
example (A B C D : Str) (h : A = "\n\\end{align}\\pagebreak\n\\begin{align}".toList ++ B) : A = pageBreakText ++ B := by
  rw [h]
  unfold pageBreakText
  rfl
example (A B C D : Str) (h : A = "\n\\end{align}\\pagebreak\n\\begin{align}".toList ++ B) : A = pageBreakText ++ B := by
  rw [h]
  rw [pageBreakText]
example (A B C D : Str) (h : A = "\n\\end{align}\\pagebreak\n\\begin{align}".toList ++ B) : A = pageBreakText ++ B := by
  rw [h]
  rfl
end Cnfgen.IO
