#!/venv/bin/python -SE
"""Fake SAT solver used by harness/props/C20.py (there is no real solver in the sandbox).

The harness copies this file under every "installed" solver name into a private PATH
directory (tempfile.mkdtemp(), removed at exit).  It speaks all three conventions cnfgen
knows, chosen by HOW IT IS CALLED (number of positional file arguments):

    <name> [--opts]                 DIMACS on stdin,  answer on stdout      (stdin/stdout)
    <name> [--opts] <cnf>           DIMACS in <cnf>,  answer on stdout      (file-in/stdout)
    <name> [--opts] <cnf> <out>     DIMACS in <cnf>,  answer in <out>       (minisat file-in/file-out)
    <name> --help                   exit status 0, no output

Behaviour switches are read from `config.json` next to the executable (written by the
harness before each call); every real invocation is appended to `log.jsonl` there.

The function `answer(dimacs_text, cfg, nfiles)` is pure: the harness imports this module
and calls it to know which raw output the real code has been shown.
"""
import json
import os
import sys


# ---------------------------------------------------------------- tiny DPLL
def parse_dimacs(text):
    n, clauses, cur = 0, [], []
    for line in text.split("\n"):
        line = line.strip()
        if not line or line[0] == "c":
            continue
        if line[0] == "p":
            n = int(line.split()[2])
            continue
        for tok in line.split():
            v = int(tok)
            if v == 0:
                clauses.append(cur)
                cur = []
            else:
                cur.append(v)
    return n, clauses


def dpll(clauses, assign):
    """assign: dict var -> bool; returns a satisfying extension or None"""
    while True:
        unit = None
        rest = []
        for c in clauses:
            sat = False
            free = []
            for l in c:
                v = abs(l)
                if v in assign:
                    if assign[v] == (l > 0):
                        sat = True
                        break
                else:
                    free.append(l)
            if sat:
                continue
            if not free:
                return None
            if len(free) == 1 and unit is None:
                unit = free[0]
            rest.append(free)
        clauses = rest
        if unit is None:
            break
        assign = dict(assign)
        assign[abs(unit)] = unit > 0
    if not clauses:
        return assign
    l = clauses[0][0]
    for val in (l > 0, not (l > 0)):
        a = dict(assign)
        a[abs(l)] = val
        r = dpll(clauses, a)
        if r is not None:
            return r
    return None


def solve(text, free_polarity=False):
    """(True, [±1, …, ±n]) or (False, None); variables the search never touched get `free_polarity`"""
    n, clauses = parse_dimacs(text)
    a = dpll(clauses, {})
    if a is None:
        return False, None
    return True, [v if a.get(v, free_polarity) else -v for v in range(1, n + 1)]


# ---------------------------------------------------------------- output shapes
def lcg(seed):
    state = [(seed * 2654435761 + 12345) % (1 << 32)]

    def nxt(k):
        state[0] = (state[0] * 1103515245 + 12345) % (1 << 31)
        return (state[0] >> 8) % k
    return nxt


def shaped_stdout(sat, model, cfg):
    """DIMACS-convention answer as a list of lines"""
    nxt = lcg(cfg.get("shape_seed", 0))
    ans = cfg.get("answer", "normal")
    lines = []
    if ans == "none":
        body = []
    elif ans == "unknown":
        body = ["s UNKNOWN"]
    elif ans == "bare_s":
        body = ["s"]
    elif ans == "garbage":
        body = ["s SATISFIABLE" if sat else "s UNSATISFIABLE", "v 1 x2 0"]
    elif not sat:
        body = ["s UNSATISFIABLE"]
    else:
        lits = list(model)
        if cfg.get("order") == "reversed":
            lits.reverse()
        elif cfg.get("order") == "shuffled":
            for i in range(len(lits) - 1, 0, -1):
                j = nxt(i + 1)
                lits[i], lits[j] = lits[j], lits[i]
        per = cfg.get("per_line", 0)
        vlines = []
        if per <= 0:
            chunks = [lits]
        else:
            chunks = [lits[i:i + per] for i in range(0, len(lits), per)] or [[]]
        sep = cfg.get("sep", " ")
        for ch in chunks:
            vlines.append(sep.join(["v"] + [str(l) for l in ch]))
        zero = cfg.get("zero", "inline")
        if zero == "inline":
            vlines[-1] += sep + "0"
        elif zero == "own":
            vlines.append("v 0")
        s_at = cfg.get("s_at", "first")
        sline = "s SATISFIABLE"
        if s_at == "first":
            body = [sline] + vlines
        elif s_at == "last":
            body = vlines + [sline]
        else:
            k = len(vlines) // 2
            body = vlines[:k] + [sline] + vlines[k:]
    if cfg.get("comments"):
        out = ["c fake solver", "c"]
        for b in body:
            out.append(b)
            k = nxt(3)
            out += [["c progress 1 2 3"], ["c", ""], []][k]
        out.append("c done")
        body = out
    if cfg.get("double_s") and body:
        # an earlier, different status line: only the last one may count
        body = ["s UNKNOWN"] + body
    lines = body
    nl = cfg.get("newline", "\n")
    return "".join(l + nl for l in lines)


def shaped_file(sat, model, cfg):
    ans = cfg.get("answer", "normal")
    if ans == "none":
        return ""
    if ans == "unknown":
        return "INDET\n"
    if ans == "bare_s":
        return "\n"
    if ans == "garbage":
        return "SAT\n1 x2 0\n"
    if not sat:
        return "UNSAT\n"
    lits = list(model)
    if cfg.get("order") == "reversed":
        lits.reverse()
    elif cfg.get("order") == "shuffled":
        nxt = lcg(cfg.get("shape_seed", 0))
        for i in range(len(lits) - 1, 0, -1):
            j = nxt(i + 1)
            lits[i], lits[j] = lits[j], lits[i]
    per = cfg.get("per_line", 0)
    toks = [str(l) for l in lits]
    if cfg.get("zero", "inline") != "none":
        toks.append("0")
    if per > 0:
        rows = [" ".join(toks[i:i + per]) for i in range(0, len(toks), per)]
    else:
        rows = [" ".join(toks)]
    return "SAT\n" + "\n".join(rows) + "\n"


def answer(dimacs_text, cfg, nfiles):
    """(stdout_text, file_text or None): what this solver emits for that input"""
    if cfg.get("mode") == "raw":
        return cfg.get("stdout", ""), (cfg.get("file") if nfiles == 2 else None)
    sat, model = solve(dimacs_text, cfg.get("free_polarity", False))
    if nfiles == 2:
        return "c this is the chatter of a minisat-like solver\n", shaped_file(sat, model, cfg)
    return shaped_stdout(sat, model, cfg), None


# ---------------------------------------------------------------- process side
def main():
    here = os.path.dirname(os.path.abspath(sys.argv[0]))
    args = sys.argv[1:]
    if "--help" in args:
        return 0
    files = [a for a in args if not a.startswith("-")]
    try:
        with open(os.path.join(here, "config.json")) as fh:
            cfg = json.load(fh)
    except OSError:
        cfg = {}
    if len(files) == 0:
        text = sys.stdin.buffer.read().decode("ascii", "replace")
    else:
        try:
            with open(files[0], "rb") as fh:
                text = fh.read().decode("ascii", "replace")
        except OSError:
            text = None
    rec = {"name": os.path.basename(sys.argv[0]), "argv": sys.argv[1:], "nfiles": len(files),
           "input": text, "files": files}
    with open(os.path.join(here, "log.jsonl"), "a") as fh:
        fh.write(json.dumps(rec) + "\n")
    if text is None:
        return 3
    out, ftext = answer(text, cfg, len(files))
    sys.stdout.buffer.write(out.encode("latin-1"))
    sys.stdout.buffer.flush()
    if len(files) >= 2 and ftext is not None:
        if cfg.get("file_action") == "delete":
            os.unlink(files[1])
        else:
            with open(files[1], "wb") as fh:
                fh.write(ftext.encode("latin-1"))
    # rude solvers (C20_run): delete the input file / the result file before exiting
    if cfg.get("rm_in") and len(files) >= 1:
        try:
            os.unlink(files[0])
        except OSError:
            pass
    if cfg.get("rm_out") and len(files) >= 2:
        try:
            os.unlink(files[1])
        except OSError:
            pass
    return cfg.get("exit", 0)


if __name__ == "__main__":
    sys.exit(main())
