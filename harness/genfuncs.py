"""Differential test of the TRANSLATED functions (lean/CnfgenModel/Generated/Funcs.lean, regenerated from the cnfgen
source by tools/py2lean.py on every run) — shared by harness/props/Cxx_gen.py.

For these functions the tie model ↔ code is a theorem (Props/Cxx/Generated*.lean: `gen_*_eq_model`), re-checked by
the kernel against what the source says now.  What this suite tests is the trusted part of that tie: the
translator's expression semantics (CnfgenModel/Core/Py.lean) — the generated definitions, evaluated by the driver
(`gen <index> args…`), against the real functions on random arguments.
"""
import os
import sys

from harness import common

sys.path.insert(0, os.path.join(common.VERIF, "tools"))
import py2lean_selftest as st  # noqa: E402

SUITE = "gen"

RULE = ("gen: every translated function of the property x random arguments aimed at its boundaries (tools/py2lean_selftest.py: "
        "HINTS); distinct by request line")
TRUSTED_EXTRA = [
    "for the functions listed in notes/translator.md the hand-written model is tied to the source by THEOREMS over definitions "
    "regenerated from the source (tools/py2lean.py); trusted for them: the translator's syntax-directed rules and the meaning of the "
    "subset in CnfgenModel/Core/Py.lean (int + - * // % ** with floor semantics, comparisons, bool ops, if/elif/else, for over "
    "lists / ranges / zip, list literals / append / pop / comprehension / slicing, tuple unpacking, early return, raise → Except Err, "
    "None → Option, itertools → Core/Iter, abstract observers for formula / graph / label objects), validated against CPython by "
    "the suite `gen` (tools/py2lean_selftest.py) — no longer the differential test of a hand-written body",
]
NOTES = []


def per_function(ctx):
    return 40 if ctx["tier"] == "quick" else 600


def _cases(prop, seed, n):
    manifest = st.load_manifest()
    fns = [f for f in manifest["functions"] if f.get("property") == prop]
    out = []
    for fn in fns:
        if not fn["driver"]:
            continue
        import random
        rng = random.Random("{}/{}".format(seed, fn["lean"]))
        for k in range(n):
            made = st.make_call(rng, fn, manifest)
            if made is None:
                break
            run, request, info = made
            first = st.run_case(run)         # the probes now hold the observer outcomes the request needs
            req = request()
            info = dict(info, seed=seed, k=k, n=n)
            c = common.Case(SUITE, req, (lambda run=run: st.run_case(run)), getattr(run, "oracle", None), cls=fn["lean"],
                            nontrivial=first.startswith("OK"), info=info)
            out.append(c)
    return out


def search_global(prop, ctx):
    """a proof obligation no longer checks: the property oracles of the quick cases on the real code"""
    for c in _cases(prop, ctx["seed"], 40):
        r = common.run_oracle(c)
        if r is not None:
            return {"suite": c.suite, "info": c.info, "failure": r}
    return None


def cases(prop, ctx):
    return _cases(prop, ctx["seed"], per_function(ctx))


def build(prop, suite, info):
    if suite != SUITE:
        raise ValueError("unknown suite " + suite)
    for c in _cases(prop, info["seed"], info["n"]):
        if c.info["fn"] == info["fn"] and c.info["k"] == info["k"]:
            return c
    raise ValueError("case not found")
