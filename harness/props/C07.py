"""C07 — output is a function of the command line and the seed only.

Correspondence (model vs code): the event order of a real `cli()` run (seed calls and draws of the global
generator, recorded by instrumenting `random._inst` in this process) against the Lean phase model
(`CnfgenModel/Cli/Phases.lean`): with `--seed s` the first generator event is `seed(s)`, before any draw.
Oracle (the property itself, independent of the model):
  * in process: no draw of the global generator happens before the first `random.seed` when --seed is given,
    and two runs from different initial generator states give identical formulas (variables, names, clauses, header);
  * fresh processes: byte-identical stdout for the same command line and seed under different PYTHONHASHSEED
    values and working directories (this is the part no model can exhibit);
  * library generators with a `seed=` argument return the same object twice.
"""
import contextlib
import io
import os
import random
import shutil
import subprocess
import sys
import tempfile
from concurrent.futures import ThreadPoolExecutor

from harness import common
from harness.common import Case, req, ok

from cnfgen.clitools.cnfgen import cli as cli_cnfgen
from cnfgen.clitools.pbgen import cli as cli_pbgen
from cnfgen.clitools.cnfshuffle import cli as cli_shuffle
import cnfgen

RULE = ("every sub-command / graph construction / transformation with a random ingredient x seeds {0, 1, 2^31, -5, random}; "
        "in-process event traces + two initial generator states; fresh-process pairs with different PYTHONHASHSEED and cwd; "
        "distinct = distinct command line and seed")
ASSUMPTIONS = ["networkx and the in-house samplers draw only from Python's global generator (observed: instrumented "
               "random._inst sees their draws)", "byte identity across processes is observed, not proven"]

RANDOM_CMDS = [
    ["randkcnf", "3", "8", "10"], ["randkcnf", "3", "8", "10", "--plant"], ["randkxor", "3", "8", "6"],
    ["tseitin", "6"], ["tseitin", "6", "3"], ["tseitin", "random", "complete", "5"], ["tseitin", "randomodd", "gnd", "6", "3"],
    ["tseitin", "first", "gnp", "7", ".5"], ["kcolor", "3", "gnm", "6", "7"], ["kcolor", "3", "gnd", "6", "3"],
    ["kcolor", "2", "gnp", "6", ".4", "plantclique", "3"], ["matching", "gnm", "6", "8", "addedges", "2"],
    ["php", "6", "4", "2"], ["php", "glrd", "5", "6", "2"], ["php", "glrm", "4", "4", "9"], ["php", "glrp", "4", "4", ".5"],
    ["php", "regular", "4", "4", "2"], ["php", "glrd", "4", "5", "2", "plantbiclique", "2", "2"],
    ["subsetcard", "5"], ["subsetcard", "6", "4"], ["op", "6", "3"], ["pitfall", "4", "3", "2", "2", "2"],
    ["stone", "2", "pyramid", "2", "--sparse", "1"], ["domset", "2", "gnp", "6", ".5", "splitedges", "2"],
    ["php", "4", "3", "-T", "shuffle"], ["op", "4", "-T", "xorcomp", "3"], ["php", "4", "3", "-T", "majcomp", "3", "2"],
    ["php", "3", "2", "-T", "xorcomp", "glrd", "6", "4", "2"], ["kclique", "3", "gnp", "6", ".5"],
    ["kcolor", "3", "complete", "4"], ["ramlb", "3", "3", "gnp", "6", ".5"], ["iso", "gnp", "5", ".5", "-e", "gnm", "5", "4"],
]
# graph arguments with several random modifiers: the order in which they draw must not depend on the process
MULTI_MOD = [
    ["kcolor", "3", "gnp", "9", ".3", "plantclique", "4", "addedges", "5"],
    ["domset", "2", "gnd", "8", "4", "addedges", "2", "splitedges", "3"],
    ["php", "glrp", "5", "4", ".4", "plantbiclique", "2", "2", "addedges", "3"],
    ["kclique", "3", "gnm", "8", "9", "splitedges", "2", "plantclique", "3", "addedges", "2"],
]
RANDOM_CMDS += MULTI_MOD


class Recorder:
    """instrument the global generator object: every draw goes through random()/getrandbits(), every reseed
    through seed(); module-level aliases are bound methods of this very object"""

    def __init__(self):
        self.events = []
        self.inst = random._inst
        self.orig_cls = self.inst.__class__
        rec = self

        class Rec(self.orig_cls):
            def seed(self, a=None, version=2):
                rec.events.append(("seed", a))
                return super().seed(a, version)

            def random(self):
                rec.events.append(("draw",))
                return super().random()

            def getrandbits(self, k):
                rec.events.append(("draw",))
                return super().getrandbits(k)
        self.cls = Rec

    def __enter__(self):
        self.inst.__class__ = self.cls
        self.saved = (random.seed, random.random, random.getrandbits)
        random.seed = self.inst.seed
        random.random = self.inst.random
        random.getrandbits = self.inst.getrandbits
        return self

    def __exit__(self, *a):
        random.seed, random.random, random.getrandbits = self.saved
        self.inst.__class__ = self.orig_cls


def fsig(F):
    hdr = [(k, v) for k, v in F.header.items()]
    return (type(F).__name__, F.number_of_variables(), list(F.all_variable_labels()), [list(c) for c in F], hdr)


def quiet(f):
    with contextlib.redirect_stderr(io.StringIO()), contextlib.redirect_stdout(io.StringIO()):
        return f()


def trace_case(tool, cli, cmd, s):
    argv = [tool, "--seed", str(s)] + cmd
    state = {}

    def impl():
        random.seed(987654321)
        with Recorder() as r:
            F = quiet(lambda: cli(argv, mode="formula"))
        state["F1"] = fsig(F)
        ev = r.events
        state["events"] = ev
        first = ev[0] if ev else None
        # canonical answer: what the phase model predicts is observable: (first event is seed(s), draws before it)
        before = 0
        for e in ev:
            if e[0] == "seed":
                break
            before += 1
        return ok("{} {}".format(1 if (first == ("seed", s)) else 0, before))

    def oracle():
        if "events" not in state:
            return {"cli_failed": argv}
        ev = state["events"]
        before = 0
        for e in ev:
            if e[0] == "seed":
                break
            before += 1
        # The property: the formula (header included) is the same from every hidden initial state of the generator.
        # A draw before the first random.seed(s) is only SUSPICIOUS (its value may be unused): it widens the comparison
        # to more initial states, it is not reported by itself.
        suspicious = bool(before) or not ev or ev[0] != ("seed", s)
        for k in range(6 if suspicious else 1):
            random.seed(123 + 1000 * k)   # a different hidden initial state
            for _ in range(7 + k):
                random.random()
            F2 = quiet(lambda: cli(argv, mode="formula"))
            if fsig(F2) != state["F1"]:
                a, b = state["F1"], fsig(F2)
                which = [n for n, x, y in zip(("class", "nvars", "names", "clauses", "header"), a, b) if x != y]
                out = {"argv": argv, "differs_in": which}
                if before:
                    out["draws_before_first_seed"] = before
                return out
        return None
    r = req("phase", s, 1)
    return Case("trace", r, impl, oracle, cls=tool + ":" + cmd[0], info={"tool": tool, "cmd": cmd, "seed": s})


def shuffle_case(s):
    """cnfshuffle --seed s: same output from two different hidden generator states"""
    text = "p cnf 6 5\n1 -2 3 0\n-1 4 0\n2 5 -6 0\n-3 -4 0\n6 0\n"

    def run_once():
        old = sys.stdin
        sys.stdin = io.StringIO(text)
        try:
            return fsig(quiet(lambda: cli_shuffle(["cnfshuffle", "--seed", str(s)], mode="formula")))
        finally:
            sys.stdin = old

    def oracle():
        random.seed(1)
        a = run_once()
        random.seed(2)
        random.random()
        b = run_once()
        if a != b:
            return {"tool": "cnfshuffle", "seed": s, "differs": [n for n, x, y in zip(("class", "nvars", "names", "clauses", "header"), a, b) if x != y]}
        return None
    return Case("shuffle_seed", req("phase", s if isinstance(s, int) else 1, 1), lambda: ok("1 0"), oracle, cls="cnfshuffle",
                info={"seed": s})


def lib_case(rng):
    from cnfgen import graphs as g
    fns = [("RandomKCNF", lambda s: fsig(cnfgen.RandomKCNF(3, 7, 9, seed=s))),
           ("RandomKXOR", lambda s: fsig(cnfgen.RandomKXOR(3, 7, 5, seed=s))),
           ("bipartite_random_left_regular", lambda s: sorted(g.bipartite_random_left_regular(4, 5, 2, seed=s).edges())),
           ("bipartite_random_m_edges", lambda s: sorted(g.bipartite_random_m_edges(4, 4, 9, seed=s).edges())),
           ("bipartite_random", lambda s: sorted(g.bipartite_random(4, 4, .5, seed=s).edges())),
           ("bipartite_random_regular", lambda s: sorted(g.bipartite_random_regular(4, 4, 2, seed=s).edges()))]

    def oracle():
        for name, f in fns:
            for s in (0, 1, 5, -3, 2 ** 31):
                random.seed(11)
                a = f(s)
                random.seed(22)
                random.random()
                b = f(s)
                if a != b:
                    return {"library_generator": name, "seed": s}
        return None
    return Case("libseed", req("phase", 0, 1), lambda: ok("1 0"), oracle, cls="libseed", info={})


def process_case(rng, tier):
    cmds = RANDOM_CMDS if tier == "thorough" else rng.sample(RANDOM_CMDS[:-len(MULTI_MOD)], 7) + MULTI_MOD
    seeds = [0, 1, 2 ** 31, -5] if tier == "thorough" else [0, rng.randint(1, 10 ** 6)]
    jobs = []
    for c in cmds:
        for s in seeds:
            jobs.append((["cnfgen", "--seed", str(s)] + c, s))
    jobs.append((["pbgen", "--seed", "0", "php", "5", "4", "2"], 0))
    jobs.append((["cnfgen", "kcolor", "3", "complete", "4"], None))   # no randomness at all: still process independent
    # the reviewed static hazards that lie on an output path (Cli/HazardReview.lean): the LaTeX description of the
    # command line iterates over vars(namespace).items(); the version string comes from a sub-process; plus the other
    # output formats and pbgen's own sub-commands
    sd = str(seeds[-1])
    for c in (["cnfgen", "--seed", sd, "-of", "latex", "kcolor", "3", "gnp", "5", ".5", "addedges", "1"],
              ["cnfgen", "--seed", sd, "--latex", "randkcnf", "3", "6", "5", "-T", "shuffle"],
              ["cnfgen", "--seed", sd, "-of", "opb", "--varnames", "tseitin", "random", "gnp", "5", ".6"],
              ["cnfgen", "--seed", sd, "--varnames", "kclique", "3", "gnm", "6", "8", "plantclique", "3"],
              ["cnfgen", "--seed", sd, "-q", "randkxor", "3", "7", "5", "-p"],
              ["pbgen", "--seed", sd, "-of", "latex", "php", "glrd", "4", "5", "2"],
              ["pbgen", "--seed", sd, "randkcnf", "3", "7", "9"], ["pbgen", "--seed", sd, "--varnames", "subsetcard", "5"],
              ["pbgen", "--seed", sd, "tseitin", "randomodd", "gnd", "6", "3"], ["pbgen", "--seed", sd, "op", "6", "3"]):
        # quick tier: the two LaTeX descriptions, one OPB/varnames run and a rotating half of the others
        if tier == "thorough" or "latex" in c or "-of" in c or rng.random() < 0.4:
            jobs.append((c, seeds[-1]))
    # error reports name the valid choices, computed from dictionary views (reviewed hazards 6, 7): the whole report
    # (stderr) must not depend on the process either
    for c in (["cnfgen", "--seed", sd, "kcolor", "3", "glrd", "5", "4", "2"], ["cnfgen", "--seed", sd, "kcolor", "3", "nosuchfile.xyz", "addedges"],
              ["cnfgen", "--seed", sd, "php", "gnp", "5", ".5"]):
        if tier == "thorough" or rng.random() < 0.67:
            jobs.append((c, "err"))
    for sd in ("0", "7"):
        jobs.append((["cnfshuffle", "--seed", sd], sd))
    # input files named relative to the working directory (plain and through symbolic links; the two working
    # directories hold identical content) — seeded change C07-6
    for c in (["kclique", "3", "g.kthlist"], ["op", "gl.kthlist"], ["tseitin", "random", "gl.kthlist"], ["subsetcard", "bl.matrix"],
              ["dimacs", "fl.cnf"], ["kclique", "2", "gl.kthlist", "plantclique", "3"], ["subsetcard", "b.matrix", "addedges", "1"],
              ["peb", "dl.kthlist", "-T", "shuffle"], ["kcolor", "3", "sub/deep.kthlist"]):
        jobs.append((["cnfgen", "--seed", str(seeds[-1])] + c, seeds[-1]))

    def oracle():
        tmp = tempfile.mkdtemp(prefix="verif-c07-")
        try:
            d1, d2 = os.path.join(tmp, "a"), os.path.join(tmp, "b")
            os.makedirs(d1)
            os.makedirs(d2)
            for d in (d1, d2):
                os.makedirs(os.path.join(d, "data"))
                os.makedirs(os.path.join(d, "sub"))
                files = {"g.kthlist": "c g\n4\n1 : 2 3 0\n2 : 1 3 4 0\n3 : 1 2 0\n4 : 2 0\n",
                         "b.matrix": "3 4\n1 1 0 0\n0 1 1 0\n1 0 1 1\n", "f.cnf": "p cnf 3 2\n1 -2 0\n2 3 0\n",
                         "d.kthlist": "4\n1 : 0\n2 : 1 0\n3 : 1 2 0\n4 : 3 0\n"}
                for name, text in files.items():
                    with open(os.path.join(d, "data", name), "w") as fh:
                        fh.write(text)
                    with open(os.path.join(d, name), "w") as fh:
                        fh.write(text)
                    base, ext = name.split(".")
                    os.symlink(os.path.join("data", name), os.path.join(d, base + "l." + ext))
                os.symlink(os.path.join("..", "data", "g.kthlist"), os.path.join(d, "sub", "deep.kthlist"))

            def run(job):
                argv, s = job
                mod = {"cnfgen": "cnfgen.clitools.cnfgen", "pbgen": "cnfgen.clitools.pbgen",
                       "cnfshuffle": "cnfgen.clitools.cnfshuffle"}[argv[0]]
                outs = []
                stdin_text = b"p cnf 6 5\n1 -2 3 0\n-1 4 0\n2 5 -6 0\n-3 -4 0\n6 0\n" if argv[0] == "cnfshuffle" else b""
                for cwd, hs in ((d1, "0"), (d2, "4242"), (d1, "random"), (d2, "1")):
                    env = dict(os.environ, PYTHONPATH=common.REPO, PYTHONWARNINGS="ignore", PYTHONHASHSEED=hs)
                    p = subprocess.run([sys.executable, "-m", mod] + argv[1:], cwd=cwd, input=stdin_text,
                                       stdout=subprocess.PIPE, stderr=subprocess.PIPE, env=env, timeout=300)
                    if s == "err":
                        # an error report: status and both streams (the status must be a failure in every process)
                        outs.append((1 if p.returncode != 0 else 0, p.stdout + b"\n--stderr--\n" + p.stderr))
                    else:
                        outs.append((p.returncode, p.stdout))
                return argv, s, outs
            with ThreadPoolExecutor(12) as ex:
                for argv, s_, outs in ex.map(run, jobs):
                    if s_ == "err" and outs[0][0] == 1 and all(o == outs[0] for o in outs[1:]):
                        continue
                    if any(o != outs[0] for o in outs[1:]):
                        a, b = outs[0][1].decode(errors="replace").split("\n"), [o for o in outs if o != outs[0]][0][1].decode(errors="replace").split("\n")
                        diff = [(x, y) for x, y in zip(a, b) if x != y][:3]
                        return {"argv": argv, "outputs_differ_between_processes": diff}
                    if outs[0][0] != 0:
                        return {"argv": argv, "exit_status": outs[0][0]}
            return None
        finally:
            shutil.rmtree(tmp, ignore_errors=True)
    return Case("process", req("phase", 0, 1), lambda: ok("1 0"), oracle, cls="process", info={"jobs": len(jobs)})


LIB_SCRIPT = r"""
import sys, json
sys.path.insert(0, sys.argv[1])
import warnings; warnings.simplefilter('ignore')
import cnfgen
from cnfgen import graphs as g
seeds = [0, 7, -3, 2**40, 1.5, 'abc', '', b'bytes', bytearray(b'ba'), None]
out = []
for s in seeds:
    if s is None:
        continue
    row = [repr(s)]
    row.append([list(c) for c in cnfgen.RandomKCNF(3, 7, 6, seed=s)])
    row.append([list(c) for c in cnfgen.RandomKXOR(3, 7, 4, seed=s)])
    row.append(sorted(g.bipartite_random_left_regular(4, 5, 2, seed=s).edges()))
    row.append(sorted(g.bipartite_random_m_edges(4, 4, 9, seed=s).edges()))
    row.append(sorted(g.bipartite_random(4, 4, .5, seed=s).edges()))
    row.append(sorted(g.bipartite_random_regular(4, 4, 2, seed=s).edges()))
    G = g.Graph(6)
    for e in ((1, 2), (2, 3), (3, 4), (4, 5), (5, 6), (1, 6)):
        G.add_edge(*e)
    row.append(sorted(g.add_random_missing_edges(G, 3, seed=s).edges()) if False else None)
    out.append(row)
print(json.dumps(out))
"""


def libproc_case():
    """library generators called with the same `seed=` (ints, floats, strings, bytes, tuples) in fresh processes with
    different PYTHONHASHSEED values must return the same object"""
    def oracle():
        tmp = tempfile.mkdtemp(prefix="verif-c07l-")
        try:
            path = os.path.join(tmp, "lib.py")
            with open(path, "w") as fh:
                fh.write(LIB_SCRIPT)
            outs = []
            for hs in ("0", "1", "4242", "random"):
                env = dict(os.environ, PYTHONHASHSEED=hs, PYTHONWARNINGS="ignore")
                p = subprocess.run([sys.executable, path, common.REPO], stdout=subprocess.PIPE, stderr=subprocess.PIPE,
                                   env=env, timeout=300, cwd=tmp)
                if p.returncode != 0:
                    return {"library_script_failed": p.stderr.decode(errors="replace")[-400:]}
                outs.append(p.stdout.decode())
            import json as _j
            rows = [_j.loads(o) for o in outs]
            for other in rows[1:]:
                for a, b in zip(rows[0], other):
                    if a != b:
                        which = [i for i, (x, y) in enumerate(zip(a, b)) if x != y]
                        names = ["seed", "RandomKCNF", "RandomKXOR", "bipartite_random_left_regular",
                                 "bipartite_random_m_edges", "bipartite_random", "bipartite_random_regular", "-"]
                        return {"seed": a[0], "differs_between_processes": [names[i] for i in which]}
            return None
        finally:
            shutil.rmtree(tmp, ignore_errors=True)
    return Case("libproc", req("phase", 0, 1), lambda: ok("1 0"), oracle, cls="libproc", info={})


def search_global(ctx):
    """a proof obligation of C07 no longer checks (phase order, call sites of `random`, static hazards, the run model):
    look for a concrete command line whose output depends on the process — every random sub-command, four seeds, fresh
    processes with different PYTHONHASHSEED values and working directories, then the in-process event traces"""
    rng = common.sub_rng(ctx["seed"], "C07", "global")
    r = process_case(rng, "thorough").oracle()
    if r is not None:
        return r
    for cmd in RANDOM_CMDS:
        for s in (0, 1, rng.randint(2, 10 ** 9)):
            c = trace_case("cnfgen", cli_cnfgen, cmd, s)
            try:
                c.impl()
            except Exception:
                continue
            r = c.oracle()
            if r is not None:
                return r
    for s in (0, 5, "0", "abc"):
        r = shuffle_case(s).oracle()
        if r is not None:
            return r
    r = lib_case(rng).oracle()
    if r is not None:
        return r
    return libproc_case().oracle()


def build(suite, info):
    if suite == "trace":
        cli = cli_cnfgen if info["tool"] == "cnfgen" else cli_pbgen
        return trace_case(info["tool"], cli, info["cmd"], info["seed"])
    raise ValueError("unknown suite " + suite)


def cases(ctx):
    tier, seed = ctx["tier"], ctx["seed"]
    rng = common.sub_rng(seed, "C07")
    out = []
    seeds = [0, 1, 2 ** 31, -5]
    for cmd in RANDOM_CMDS:
        ss = seeds + [rng.randint(2, 10 ** 9)] if tier == "thorough" else [0, rng.choice(seeds[1:]), rng.randint(2, 10 ** 9)]
        for s in ss:
            out.append(trace_case("cnfgen", cli_cnfgen, cmd, s))
            if "-T" not in cmd and tier == "thorough":
                out.append(trace_case("pbgen", cli_pbgen, cmd, s))
    for cmd in (["php", "6", "4", "2"], ["randkcnf", "3", "8", "10"], ["tseitin", "6"], ["subsetcard", "5"]):
        out.append(trace_case("pbgen", cli_pbgen, cmd, 0))
    for s in (0, 1, -5, 2 ** 31, "0", "abc", rng.randint(2, 10 ** 6)):
        out.append(shuffle_case(s))
    out.append(lib_case(rng))
    out.append(libproc_case())
    out.append(process_case(rng, tier))
    return out
