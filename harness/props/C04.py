"""C04 — linear, parity, majority builders (CNF and OPB), normalize_opb.

Correspondence: the clause / constraint list appended by the real builder equals
the Lean model's list, exactly (order included).
Oracle (independent of the model): truth table of what the real builder appended
against the arithmetic meaning of the constraint.
"""
from harness import common
from harness.common import Case, req, enc_list, enc_pairs, ok, fmt_clauses, fmt_pbcs, fmt_pbc, OPCODE

from cnfgen.formula.linear import CNFLinear
from cnfgen.formula.baseopb import BaseOPB, normalize_opb

OPS = ["<=", ">=", "<", ">", "==", "!="]
MAJ = ["add_loose_majority", "add_loose_minority", "add_strict_majority", "add_strict_minority"]
KINDS = ["list", "tuple", "range", "generator"]

RULE = ("per builder: literal lists of length 0..9 with repeats/opposite literals/all polarities, "
        "constants in [-2, n+2], every operator, container kinds list/tuple/range/generator, CNF and OPB class; "
        "the SAME argument object handed to 1..3 consecutive calls (`uses`: every use must mean what was written); "
        "normalize_opb reached directly, through add_constraint and through OPB(constraints), coefficients also beyond 2^64; "
        "distinct = distinct request line; non-trivial = at least one literal")
ASSUMPTIONS = ["literals are non-zero (enforced by check=True in the real code; hypothesis NonZero in the theorems)"]


def container(lits, kind):
    if kind == "list":
        return list(lits)
    if kind == "tuple":
        return tuple(lits)
    if kind == "generator":
        return (l for l in list(lits))
    if kind == "range":
        return lits  # already a range
    raise ValueError(kind)


def count_true(alpha, lits):
    return sum(1 for l in lits if common.lit_holds(alpha, l))


def denote(op, a, b):
    return {"<=": a <= b, ">=": a >= b, "<": a < b, ">": a > b, "==": a == b, "!=": a != b}[op]


def vars_of(lits):
    return max([abs(l) for l in lits] + [0])


def wide_oracle(cs, is_opb, lits, pred, n):
    """13..17 variables: all assignments at once, truth tables as Python integers (harness.props.C05.Tables);
    beyond that a sample of 4096 assignments.  OPB constraints must have unit coefficients."""
    from harness.props.C05 import Tables
    T = Tables(n, common.sub_rng(0, "C04-wide", n, len(cs)))
    lt = [T.lit(T.var, l) for l in lits]
    want = T.count_pred(lt, pred)
    got = T.mask
    for c in cs:
        if is_opb:
            terms, op, k = list(c)[:-2], c[-2], c[-1]
            if any(coef != 1 for coef, _ in terms):
                return None
            tt = [T.lit(T.var, l) for _, l in terms]
            if op == ">=" and k == 1:
                t = 0
                for x in tt:
                    t |= x
            else:
                t = T.count_pred(tt, lambda cnt: denote(op, cnt, k))
        else:
            t = 0
            for l in c:
                t |= T.lit(T.var, l)
        got &= t
    if got != want:
        diff = got ^ want
        a = (diff & -diff).bit_length() - 1
        return {"assignment": T.assignment(a), "formula_accepts": bool((got >> a) & 1), "arithmetic_says": bool((want >> a) & 1),
                "number_of_constraints": len(cs), "exhaustive": T.exhaustive}
    return None


def truth_oracle(get_constraints, is_opb, lits, pred):
    """the formula appended by the real builder must accept exactly the assignments with pred(count)"""
    def oracle():
        cs = get_constraints()
        if cs is None:
            # the builder raised on a legal request (non-zero integer literals, documented operator)
            return {"builder_raised_on_legal_input": True}
        n = vars_of(lits)
        if n > 12:
            return wide_oracle(cs, is_opb, lits, pred, n)
        for alpha in common.assignments(n):
            got = common.opb_holds(cs, alpha) if is_opb else common.cnf_holds(cs, alpha)
            want = pred(count_true(alpha, lits))
            if got != want:
                return {"assignment": [i for i in range(1, n + 1) if alpha[i]], "formula_accepts": got,
                        "arithmetic_says": want, "constraints": [list(c) for c in cs][:20]}
        return None
    return oracle


def build(suite, info):
    lits = list(info.get("lits", []))
    kind = info.get("kind", "list")
    if kind == "range":
        lits = list(range(info["range"][0], info["range"][1]))
    cls_opb = info.get("opb", False)
    mk = BaseOPB if cls_opb else CNFLinear
    fmt = fmt_pbcs if cls_opb else fmt_clauses
    pre = "o" if cls_opb else ""
    state = {}

    uses = info.get("uses", 1) if kind != "generator" else 1     # a generator can be consumed only once
    shared = {}

    def arg():
        """the argument as the caller holds it: with `uses` > 1 the very same object goes into every call"""
        if uses > 1 and "a" in shared:
            return shared["a"]
        if kind == "range":
            a = range(info["range"][0], info["range"][1])
        else:
            a = container(lits, kind)
        shared["a"] = a
        return a

    def repeated(once):
        """`once()` builds a fresh formula from arg(); the answer is the LAST of `uses` formulas built from the same
        argument object (what a caller who keeps its literal list around gets); every earlier one is kept for the oracle"""
        def impl():
            shared.clear()
            state["all"] = []
            for _ in range(uses):
                F = once()
                state["cs"] = list(F)
                state["all"].append(list(F))
            return ok(fmt(F))
        return impl

    def get():
        return state.get("cs")

    def every_use(oracle):
        """the truth-table oracle on the last use, and every earlier use must have stored the same constraints"""
        def run():
            r = oracle()
            if r is not None:
                return r
            al = state.get("all") or []
            for i, cs in enumerate(al[:-1]):
                if [list(c) for c in cs] != [list(c) for c in al[-1]]:
                    return {"same_argument_object_used": len(al), "use": i + 1, "stored": [list(c) for c in cs][:10],
                            "last_use_stored": [list(c) for c in al[-1]][:10]}
            return None
        return run

    if suite == "lin":
        op, k = info["op"], info["k"]

        def once():
            F = mk()
            F.add_linear(arg(), op, k) if not cls_opb else getattr(F, {
                "<=": "cardinality_leq", ">=": "cardinality_geq", "==": "cardinality_eq", "!=": "cardinality_neq",
                "<": "lt", ">": "gt"}[op])(arg(), k)
            return F
        if cls_opb and op in ("<", ">"):
            def once():  # noqa: BaseOPB has no cardinality_lt/gt: go through add_constraint
                F = mk()
                F.add_constraint([(1, l) for l in arg()] + [op, k])
                return F
        impl = repeated(once)
        r = req(pre + "lin", OPCODE[op], k, enc_list(lits))
        return Case(suite, r, impl, every_use(truth_oracle(get, cls_opb, lits, lambda c: denote(op, c, k))),
                    cls="{}:{}:{}".format("opb" if cls_opb else "cnf", op, kind), nontrivial=len(lits) > 0, info=info)
    if suite == "parity":
        b = info["b"]

        def once():
            F = mk()
            F.add_parity(arg(), b)
            return F
        impl = repeated(once)
        r = req(pre + "parity", b, enc_list(lits))
        return Case(suite, r, impl, every_use(truth_oracle(get, cls_opb, lits, lambda c: c % 2 == b)),
                    cls="{}:{}:{}".format("opb" if cls_opb else "cnf", b, kind), nontrivial=len(lits) > 0, info=info)
    if suite == "maj":
        which = info["which"]
        n = len(lits)
        pred = [lambda c: 2 * c >= n, lambda c: 2 * c <= n, lambda c: 2 * c > n, lambda c: 2 * c < n][which]

        def once():
            F = mk()
            getattr(F, MAJ[which])(arg())
            return F
        impl = repeated(once)
        r = req(pre + "maj", which, enc_list(lits))
        return Case(suite, r, impl, every_use(truth_oracle(get, cls_opb, lits, pred)),
                    cls="{}:{}:{}".format("opb" if cls_opb else "cnf", MAJ[which], kind), nontrivial=n > 0, info=info)
    if suite == "normopb":
        terms = [tuple(t) for t in info["terms"]]
        op, k = info["op"], info["k"]
        tl = [l for _, l in terms]
        route, nuses = info.get("route", "normalize"), info.get("uses", 1)
        written = list(terms) + [op, k]

        def impl():
            # the caller writes the constraint ONCE and uses that list object `nuses` times; the answer is the last result
            c = list(terms) + [op, k]
            results = []
            if route == "ctor":
                from cnfgen.formula.opb import OPB
                batch = [c, [(1, 1), (1, 2), ">=", 1]]
                for _ in range(nuses):
                    results.append(list(OPB(batch)[0]))
            elif route == "add2":                # twice (or more) into the same formula
                F = BaseOPB()
                for _ in range(nuses):
                    F.add_constraint(c)
                results = [list(x) for x in F]
            else:
                for i in range(nuses):
                    if route == "normalize" or (route == "show_then_add" and i < nuses - 1):
                        results.append(list(normalize_opb(c)))
                    else:
                        F = BaseOPB()
                        F.add_constraint(c, check=(route != "add_unchecked"))
                        results.append(list(F[0]))
            state["all"] = results
            state["cs"] = results[-1]
            return ok(fmt_pbc(results[-1]))

        def oracle():
            n = vars_of(tl)
            for i, res in enumerate(state.get("all") or []):
                where = {"route": route, "use": i + 1, "of": nuses, "written": [list(t) for t in terms] + [op, k]}
                if res[-2] not in (">=", "=="):
                    return dict(where, operator_after_normalisation=res[-2])
                if any(c < 0 for c, _ in res[:-2]):
                    return dict(where, negative_coefficient_after_normalisation=[list(t) for t in res[:-2]])
                if any(c == 0 for c, _ in res[:-2]):
                    return dict(where, zero_coefficient_after_normalisation=[list(t) for t in res[:-2]])
                for alpha in common.assignments(n):
                    if common.pbc_holds(res, alpha) != common.pbc_holds(written, alpha):
                        return dict(where, assignment=[v for v in range(1, n + 1) if alpha[v]],
                                    stored=[list(t) for t in res[:-2]] + list(res[-2:]),
                                    written_holds=common.pbc_holds(written, alpha))
            return None
        r = req("normopb", OPCODE[op], k, enc_pairs(terms))
        cls = "zerocoef" if any(c == 0 for c, _ in terms) else op
        if nuses > 1 or route != "normalize":
            cls += ":" + route + ("x{}".format(nuses) if nuses > 1 else "")
        return Case(suite, r, impl, oracle, cls=cls, nontrivial=len(terms) > 0, info=info)
    raise ValueError("unknown suite " + suite)


NORM_ROUTES = ["normalize", "add", "add_unchecked", "add2", "show_then_add", "ctor"]
NORM_CORPUS = [([(1, 3), (-2, 2), (1, 4)], ">", 3), ([(1, 3), (2, 1), (-3, -2)], "==", 3), ([(2, -3)], "<", 1),
               ([(-1, 1), (-1, 2), (-1, 3)], ">=", -1), ([(-1, 1), (-1, 2)], "<=", -1), ([(0, 1), (-3, 2), (2, 3)], ">=", 0),
               ([], "<", 0), ([(-2, 1), (3, -2), (-1, 4)], ">", -2)]


def gen_lits(rng, n):
    style = rng.randrange(5)
    if style == 0:      # distinct variables, random polarity
        vs = rng.sample(range(1, n + 3), n)
        return [v if rng.random() < .5 else -v for v in vs]
    if style == 1:      # all positive consecutive
        return list(range(1, n + 1))
    if style == 2:      # all negative
        return [-v for v in range(1, n + 1)]
    if style == 3:      # few variables: repeats and opposite literals
        return [rng.choice([1, -1]) * rng.randint(1, max(1, n // 2)) for _ in range(n)]
    return rng.lits(n, maxvar=n + 2)


def cases(ctx):
    tier, seed = ctx["tier"], ctx["seed"]
    rng = common.sub_rng(seed, "C04")
    infos = []
    # --- corpus: boundary cases, always first
    for opb in (False, True):
        for op in OPS:
            for lits in ([], [1], [-1], [1, 2, 3], [-1, 2, -3], [1, 1], [1, -1], [2, -2, 2]):
                for k in range(-2, len(lits) + 3):
                    infos.append(("lin", dict(lits=lits, op=op, k=k, opb=opb)))
    # --- wide constraints: thousands of clauses from one call (block sizes 4096 / 65536; seeded changes C04-6, C05-6)
    for opb in (False, True):
        for n in ([13, 14, 15] if tier == "quick" else [13, 14, 15, 16, 17]):
            lits = [v if rng.random() < .6 else -v for v in range(1, n + 1)]
            rng.shuffle(lits)
            infos.append(("parity", dict(lits=lits, b=n % 2, opb=opb, kind=rng.choice(["list", "tuple", "generator"]))))
        lits = [v if rng.random() < .6 else -v for v in range(1, 17)]
        infos.append(("lin", dict(lits=lits, op="==", k=8, opb=opb)))
        infos.append(("lin", dict(lits=lits[:15], op=">=", k=7, opb=opb)))
        infos.append(("lin", dict(lits=lits[:14], op="!=", k=7, opb=opb)))
        infos.append(("maj", dict(lits=lits[:15], which=rng.randrange(4), opb=opb)))
    reps = 700 if tier == "quick" else 9000
    for _ in range(reps):
        n = rng.choice([0, 1, 2, 3, 3, 4, 4, 5, 5, 6, 7, 8, 9])
        lits = gen_lits(rng, n)
        opb = rng.random() < .4
        kind = rng.choice(KINDS)
        extra = {}
        if kind != "generator" and rng.random() < .35:
            extra["uses"] = rng.choice([2, 2, 3])      # the caller keeps the literal container and uses it again
        if kind == "range":
            a = rng.randint(1, 4)
            extra["range"] = [a, a + n]
            lits = list(range(a, a + n))
        which = rng.random()
        if which < .55:
            infos.append(("lin", dict(lits=lits, op=rng.choice(OPS), k=rng.randint(-2, n + 2), opb=opb, kind=kind, **extra)))
        elif which < .75:
            if n > 8:
                lits = lits[:8]
                if kind == "range":
                    extra["range"][1] = extra["range"][0] + 8
            infos.append(("parity", dict(lits=lits, b=rng.choice([0, 1]), opb=opb, kind=kind, **extra)))
        else:
            infos.append(("maj", dict(lits=lits, which=rng.randrange(4), opb=opb, kind=kind, **extra)))
    # one written constraint, every way of using it, once and several times (seeded change C04-r6a: the first use was right)
    for route in NORM_ROUTES:
        for nuses in (1, 2, 3):
            for terms, op, k in NORM_CORPUS:
                infos.append(("normopb", dict(terms=terms, op=op, k=k, route=route, uses=nuses)))
    for _ in range(reps // 3):
        n = rng.randint(0, 6)
        big = rng.random() < .06
        terms = [(rng.randint(-4, 4) * (rng.choice([2 ** 31, 2 ** 64 + 1]) if big else 1),
                  rng.choice([1, -1]) * rng.randint(1, 5)) for _ in range(n)]
        if rng.random() < .7:
            terms = [(c if c != 0 else 1, l) for c, l in terms]
        extra = {}
        if rng.random() < .5:
            extra = dict(route=rng.choice(NORM_ROUTES), uses=rng.choice([1, 2, 2, 3]))
        infos.append(("normopb", dict(terms=terms, op=rng.choice(OPS[:5]), k=rng.randint(-6, 8) * (2 ** 64 if big else 1), **extra)))
    infos.append(("normopb", dict(terms=[(0, 1), (2, -3)], op=">=", k=1)))   # D27 replay
    for suite, info in infos:
        yield build(suite, info)
