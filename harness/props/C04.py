"""C04 — linear, parity, majority builders (CNF and OPB), normalize_opb.

Correspondence: the clause / constraint list appended by the real builder equals
the Lean model's list, exactly (order included).
Oracle (independent of the model): truth table of what the real builder appended
against the arithmetic meaning of the constraint.
"""
from harness import common
from harness.common import Case, req, enc_list, enc_pairs, ok, fmt_clauses, fmt_pbcs, fmt_pbc, OPCODE

from cnfgen.formula.linear import CNFLinear
from cnfgen.formula.baseopb import BaseOPB, normalize_opb

OPS = ["<=", ">=", "<", ">", "==", "!="]
MAJ = ["add_loose_majority", "add_loose_minority", "add_strict_majority", "add_strict_minority"]
KINDS = ["list", "tuple", "range", "generator"]

RULE = ("per builder: literal lists of length 0..9 with repeats/opposite literals/all polarities, "
        "constants in [-2, n+2], every operator, container kinds list/tuple/range/generator, CNF and OPB class; "
        "distinct = distinct request line; non-trivial = at least one literal")
ASSUMPTIONS = ["literals are non-zero (enforced by check=True in the real code; hypothesis NonZero in the theorems)"]


def container(lits, kind):
    if kind == "list":
        return list(lits)
    if kind == "tuple":
        return tuple(lits)
    if kind == "generator":
        return (l for l in list(lits))
    if kind == "range":
        return lits  # already a range
    raise ValueError(kind)


def count_true(alpha, lits):
    return sum(1 for l in lits if common.lit_holds(alpha, l))


def denote(op, a, b):
    return {"<=": a <= b, ">=": a >= b, "<": a < b, ">": a > b, "==": a == b, "!=": a != b}[op]


def vars_of(lits):
    return max([abs(l) for l in lits] + [0])


def wide_oracle(cs, is_opb, lits, pred, n):
    """13..17 variables: all assignments at once, truth tables as Python integers (harness.props.C05.Tables);
    beyond that a sample of 4096 assignments.  OPB constraints must have unit coefficients."""
    from harness.props.C05 import Tables
    T = Tables(n, common.sub_rng(0, "C04-wide", n, len(cs)))
    lt = [T.lit(T.var, l) for l in lits]
    want = T.count_pred(lt, pred)
    got = T.mask
    for c in cs:
        if is_opb:
            terms, op, k = list(c)[:-2], c[-2], c[-1]
            if any(coef != 1 for coef, _ in terms):
                return None
            tt = [T.lit(T.var, l) for _, l in terms]
            if op == ">=" and k == 1:
                t = 0
                for x in tt:
                    t |= x
            else:
                t = T.count_pred(tt, lambda cnt: denote(op, cnt, k))
        else:
            t = 0
            for l in c:
                t |= T.lit(T.var, l)
        got &= t
    if got != want:
        diff = got ^ want
        a = (diff & -diff).bit_length() - 1
        return {"assignment": T.assignment(a), "formula_accepts": bool((got >> a) & 1), "arithmetic_says": bool((want >> a) & 1),
                "number_of_constraints": len(cs), "exhaustive": T.exhaustive}
    return None


def truth_oracle(get_constraints, is_opb, lits, pred):
    """the formula appended by the real builder must accept exactly the assignments with pred(count)"""
    def oracle():
        cs = get_constraints()
        if cs is None:
            # the builder raised on a legal request (non-zero integer literals, documented operator)
            return {"builder_raised_on_legal_input": True}
        n = vars_of(lits)
        if n > 12:
            return wide_oracle(cs, is_opb, lits, pred, n)
        for alpha in common.assignments(n):
            got = common.opb_holds(cs, alpha) if is_opb else common.cnf_holds(cs, alpha)
            want = pred(count_true(alpha, lits))
            if got != want:
                return {"assignment": [i for i in range(1, n + 1) if alpha[i]], "formula_accepts": got,
                        "arithmetic_says": want, "constraints": [list(c) for c in cs][:20]}
        return None
    return oracle


def build(suite, info):
    lits = list(info.get("lits", []))
    kind = info.get("kind", "list")
    if kind == "range":
        lits = list(range(info["range"][0], info["range"][1]))
    cls_opb = info.get("opb", False)
    mk = BaseOPB if cls_opb else CNFLinear
    fmt = fmt_pbcs if cls_opb else fmt_clauses
    pre = "o" if cls_opb else ""
    state = {}

    def arg():
        if kind == "range":
            return range(info["range"][0], info["range"][1])
        return container(lits, kind)

    def get():
        return state.get("cs")

    if suite == "lin":
        op, k = info["op"], info["k"]

        def impl():
            F = mk()
            F.add_linear(arg(), op, k) if not cls_opb else getattr(F, {
                "<=": "cardinality_leq", ">=": "cardinality_geq", "==": "cardinality_eq", "!=": "cardinality_neq",
                "<": "lt", ">": "gt"}[op])(arg(), k)
            state["cs"] = list(F)
            return ok(fmt(F))
        if cls_opb and op in ("<", ">"):
            def impl():  # noqa: BaseOPB has no cardinality_lt/gt: go through add_constraint
                F = mk()
                F.add_constraint([(1, l) for l in arg()] + [op, k])
                state["cs"] = list(F)
                return ok(fmt(F))
        r = req(pre + "lin", OPCODE[op], k, enc_list(lits))
        return Case(suite, r, impl, truth_oracle(get, cls_opb, lits, lambda c: denote(op, c, k)),
                    cls="{}:{}:{}".format("opb" if cls_opb else "cnf", op, kind), nontrivial=len(lits) > 0, info=info)
    if suite == "parity":
        b = info["b"]

        def impl():
            F = mk()
            F.add_parity(arg(), b)
            state["cs"] = list(F)
            return ok(fmt(F))
        r = req(pre + "parity", b, enc_list(lits))
        return Case(suite, r, impl, truth_oracle(get, cls_opb, lits, lambda c: c % 2 == b),
                    cls="{}:{}:{}".format("opb" if cls_opb else "cnf", b, kind), nontrivial=len(lits) > 0, info=info)
    if suite == "maj":
        which = info["which"]
        n = len(lits)
        pred = [lambda c: 2 * c >= n, lambda c: 2 * c <= n, lambda c: 2 * c > n, lambda c: 2 * c < n][which]

        def impl():
            F = mk()
            getattr(F, MAJ[which])(arg())
            state["cs"] = list(F)
            return ok(fmt(F))
        r = req(pre + "maj", which, enc_list(lits))
        return Case(suite, r, impl, truth_oracle(get, cls_opb, lits, pred),
                    cls="{}:{}:{}".format("opb" if cls_opb else "cnf", MAJ[which], kind), nontrivial=n > 0, info=info)
    if suite == "normopb":
        terms = [tuple(t) for t in info["terms"]]
        op, k = info["op"], info["k"]
        tl = [l for _, l in terms]

        def impl():
            res = normalize_opb(list(terms) + [op, k])
            state["cs"] = res
            return ok(fmt_pbc(res))

        def oracle():
            res = state.get("cs")
            if res is None:
                return None
            n = vars_of(tl)
            if res[-2] not in (">=", "=="):
                return {"operator_after_normalisation": res[-2]}
            if any(c < 0 for c, _ in res[:-2]):
                return {"negative_coefficient_after_normalisation": res[:-2]}
            if any(c == 0 for c, _ in res[:-2]):
                return {"zero_coefficient_after_normalisation": res[:-2]}
            for alpha in common.assignments(n):
                if common.pbc_holds(res, alpha) != common.pbc_holds(list(terms) + [op, k], alpha):
                    return {"assignment": [i for i in range(1, n + 1) if alpha[i]], "normalised": res}
            return None
        r = req("normopb", OPCODE[op], k, enc_pairs(terms))
        cls = "zerocoef" if any(c == 0 for c, _ in terms) else op
        return Case(suite, r, impl, oracle, cls=cls, nontrivial=len(terms) > 0, info=info)
    raise ValueError("unknown suite " + suite)


def gen_lits(rng, n):
    style = rng.randrange(5)
    if style == 0:      # distinct variables, random polarity
        vs = rng.sample(range(1, n + 3), n)
        return [v if rng.random() < .5 else -v for v in vs]
    if style == 1:      # all positive consecutive
        return list(range(1, n + 1))
    if style == 2:      # all negative
        return [-v for v in range(1, n + 1)]
    if style == 3:      # few variables: repeats and opposite literals
        return [rng.choice([1, -1]) * rng.randint(1, max(1, n // 2)) for _ in range(n)]
    return rng.lits(n, maxvar=n + 2)


def cases(ctx):
    tier, seed = ctx["tier"], ctx["seed"]
    rng = common.sub_rng(seed, "C04")
    infos = []
    # --- corpus: boundary cases, always first
    for opb in (False, True):
        for op in OPS:
            for lits in ([], [1], [-1], [1, 2, 3], [-1, 2, -3], [1, 1], [1, -1], [2, -2, 2]):
                for k in range(-2, len(lits) + 3):
                    infos.append(("lin", dict(lits=lits, op=op, k=k, opb=opb)))
    # --- wide constraints: thousands of clauses from one call (block sizes 4096 / 65536; seeded changes C04-6, C05-6)
    for opb in (False, True):
        for n in ([13, 14, 15] if tier == "quick" else [13, 14, 15, 16, 17]):
            lits = [v if rng.random() < .6 else -v for v in range(1, n + 1)]
            rng.shuffle(lits)
            infos.append(("parity", dict(lits=lits, b=n % 2, opb=opb, kind=rng.choice(["list", "tuple", "generator"]))))
        lits = [v if rng.random() < .6 else -v for v in range(1, 17)]
        infos.append(("lin", dict(lits=lits, op="==", k=8, opb=opb)))
        infos.append(("lin", dict(lits=lits[:15], op=">=", k=7, opb=opb)))
        infos.append(("lin", dict(lits=lits[:14], op="!=", k=7, opb=opb)))
        infos.append(("maj", dict(lits=lits[:15], which=rng.randrange(4), opb=opb)))
    reps = 700 if tier == "quick" else 9000
    for _ in range(reps):
        n = rng.choice([0, 1, 2, 3, 3, 4, 4, 5, 5, 6, 7, 8, 9])
        lits = gen_lits(rng, n)
        opb = rng.random() < .4
        kind = rng.choice(KINDS)
        extra = {}
        if kind == "range":
            a = rng.randint(1, 4)
            extra["range"] = [a, a + n]
            lits = list(range(a, a + n))
        which = rng.random()
        if which < .55:
            infos.append(("lin", dict(lits=lits, op=rng.choice(OPS), k=rng.randint(-2, n + 2), opb=opb, kind=kind, **extra)))
        elif which < .75:
            if n > 8:
                lits = lits[:8]
                if kind == "range":
                    extra["range"][1] = extra["range"][0] + 8
            infos.append(("parity", dict(lits=lits, b=rng.choice([0, 1]), opb=opb, kind=kind, **extra)))
        else:
            infos.append(("maj", dict(lits=lits, which=rng.randrange(4), opb=opb, kind=kind, **extra)))
    for _ in range(reps // 3):
        n = rng.randint(0, 6)
        terms = [(rng.randint(-4, 4), rng.choice([1, -1]) * rng.randint(1, 5)) for _ in range(n)]
        if rng.random() < .7:
            terms = [(c if c != 0 else 1, l) for c, l in terms]
        infos.append(("normopb", dict(terms=terms, op=rng.choice(OPS[:5]), k=rng.randint(-6, 8))))
    infos.append(("normopb", dict(terms=[(0, 1), (2, -3)], op=">=", k=1)))   # D27 replay
    for suite, info in infos:
        yield build(suite, info)
