"""C08 — the OPB and CNF renderings of a family are the same formula.

Correspondence (model vs code): for one abstract constraint both renderings of the real classes
(CNFLinear.add_linear vs BaseOPB.cardinality_*) equal the model's `Linear.add` / `PB.add` (request `both`).
The per-family ties are the both-class correspondences of C01–C03.
Oracle (independent of the model): for every family reachable from both tools (the command-line table of C17),
`cnfgen <family>` and `pbgen <family>` have the same number of variables, the same variable names in the same
order, and the same satisfying assignments (truth table up to 16 variables, random assignments above).
"""
import contextlib
import io
import random

from harness import common
from harness.common import Case, req, enc_list, ok, OPCODE, fmt_clauses, fmt_pbcs
from harness.props import C17

from cnfgen.clitools import cnfgen as cli_cnfgen
from cnfgen.clitools.pbgen import cli as cli_pbgen
from cnfgen.formula.linear import CNFLinear
from cnfgen.formula.baseopb import BaseOPB
from cnfgen.formula.opb import OPB

RULE = ("every sub-command of the C17 table through both tools; builder pairs on random literal lists; "
        "distinct = distinct command line / request; non-trivial = at least one variable")
ASSUMPTIONS = ["variable NAMES are compared on the real objects only (the family models carry no labels)"]
OPS = ["<=", ">=", "<", ">", "==", "!="]
METH = {"<=": "cardinality_leq", ">=": "cardinality_geq", "==": "cardinality_eq", "!=": "cardinality_neq"}


def quiet(f):
    with contextlib.redirect_stderr(io.StringIO()), contextlib.redirect_stdout(io.StringIO()):
        return f()


def both_case(info):
    lits, op, k = list(info["lits"]), info["op"], info["k"]
    state = {}

    def impl():
        A = CNFLinear()
        A.add_linear(list(lits), op, k)
        B = BaseOPB()
        if op in METH:
            getattr(B, METH[op])(list(lits), k)
        else:
            B.add_constraint([(1, l) for l in lits] + [op, k])
        state["A"], state["B"] = list(A), list(B)
        return ok(fmt_clauses(A) + " || " + fmt_pbcs(B))

    def oracle():
        if "A" not in state:
            return {"builder_raised": True}
        n = max([abs(l) for l in lits] + [0])
        for alpha in common.assignments(n):
            if common.cnf_holds(state["A"], alpha) != common.opb_holds(state["B"], alpha):
                return {"assignment": [i for i in range(1, n + 1) if alpha[i]], "lits": lits, "op": op, "k": k}
        return None
    return Case("both", req("both", OPCODE[op], k, enc_list(lits)), impl, oracle, cls=op,
                nontrivial=len(lits) > 0, info=info)


def fam_case(argv, rnd, rng):
    s = rng.randint(0, 10 ** 6)
    pre = ["-q", "--seed", str(s)] if rnd else ["-q"]

    def oracle():
        try:
            A = quiet(lambda: cli_cnfgen(["cnfgen"] + pre + argv, mode="formula"))
            B = quiet(lambda: cli_pbgen(["pbgen"] + pre + argv, mode="formula"))
        except BaseException as e:  # noqa
            return {"raised": type(e).__name__, "argv": argv}
        if not isinstance(B, OPB):
            return {"argv": argv, "pbgen_built": type(B).__name__}
        if A.number_of_variables() != B.number_of_variables():
            return {"argv": argv, "nvars": [A.number_of_variables(), B.number_of_variables()]}
        if list(A.all_variable_labels()) != list(B.all_variable_labels()):
            return {"argv": argv, "names_differ": True}
        n = A.number_of_variables()
        ca, cb = [list(c) for c in A], [list(c) for c in B]
        if n <= 14:
            gen = common.assignments(n)
        else:
            r = random.Random(s)
            gen = ([False] + [r.random() < p for _ in range(n)] for p in (0.5, 0.2, 0.8, 0.35, 0.65) for _ in range(60))
        for alpha in gen:
            if common.cnf_holds(ca, alpha) != common.opb_holds(cb, alpha):
                return {"argv": argv, "assignment": [i for i in range(1, n + 1) if alpha[i]],
                        "cnf_accepts": common.cnf_holds(ca, alpha)}
        return None
    lits = [1, -2, 3]
    return Case("family", req("both", 1, 1, enc_list(lits)),
                lambda: both_case({"lits": lits, "op": ">=", "k": 1}).impl(), oracle,
                cls=argv[0], info={"argv": argv})


def build(suite, info):
    if suite == "both":
        return both_case(info)
    if suite == "family":
        rng = common.sub_rng(info.get("seed", 0), "C08r")
        return fam_case([str(a) for a in info["argv"]], info["argv"][0].startswith("rand"), rng)
    raise ValueError("unknown suite " + suite)


def cases(ctx):
    tier, seed = ctx["tier"], ctx["seed"]
    rng = common.sub_rng(seed, "C08")
    out = []
    for argv, lib, rnd in C17.table(rng):
        c = fam_case(argv, rnd, rng)
        c.info["seed"] = seed
        out.append(c)
    # random graph arguments (drawn while parsing) followed by families that draw at build time: both tools
    # must make the same choices for the same seed
    from harness.props import C07 as H07
    extra = [["tseitin", "randomeven", "gnd", "8", "3"], ["tseitin", "randomeven", "gnm", "6", "8"],
             ["tseitin", "random", "gnp", "6", ".6"], ["tseitin", "randomeven", "gnp", "7", ".5", "addedges", "2"]]
    for cmd in H07.RANDOM_CMDS + extra:
        if "-T" in cmd or cmd[0] == "pitfall":
            continue
        c = fam_case(list(cmd), True, rng)
        c.info["seed"] = seed
        out.append(c)
    for _ in range(400 if tier == "quick" else 6000):
        n = rng.choice([0, 1, 2, 3, 4, 5, 6, 7])
        lits = rng.lits(n, maxvar=n + 2)
        out.append(both_case({"lits": lits, "op": rng.choice(OPS), "k": rng.randint(-2, n + 2)}))
    return out
