"""C18 (huge) — numerically huge but LEGAL arguments, for every sub-command, transformation and graph construction.

The other C18 suites walk around the validator bounds with small numbers.  Here every integer token of a valid
command line (`BASES`: one or more lines per sub-command — the numeric positionals are read off the helpers' own
argparse set-up, the custom ones (php, op, tseitin, subsetcard, xorcomp, majcomp, graph specifications with their
modifiers, --seed, --sparse, -T chains) are listed by hand) is replaced, alone, in pairs and all together, by the
values of a LADDER that crosses the places where an implementation silently changes regime:

    1000, 1024 (recursion depth) · 2^12, 2^16 · 10^6 · 2^31, 2^63, 2^64+1 (machine words) · 10^30, 10^100 ·
    the largest float and 2^1024 · 10^400 · 10^4299 and 10^4300 (CPython's int<->str digit limit)

Most such lines legitimately take for ever (a formula with 10^30 clauses), so each *chain* (one base line, one set of
slots, the ladder in ascending order) runs in a child process under an interval timer and an address-space limit and
is abandoned at the first rung that does not answer in time or runs out of memory — those rungs give NO verdict.
Every rung that does answer must end the way the property says (C18.run_inprocess + the strict readers of
C18.py): a complete formula, a help text or a shielded command-line error; never another exception.

Quick tier: the rungs recorded in corpus/C18/huge_quick.json (those that the unchanged code answers within a
fraction of a second — found by `python -m harness.props.C18_huge explore`, refreshed by hand; a stale entry only
costs a timeout) plus a sample of the exploring chains; thorough tier: every chain.  The children are started when
the cases are generated and run next to the other suites.
"""
import argparse
import json
import os
import subprocess
import sys
import time

from harness import common
from harness.common import Case, req, enc_str, ok

RULE = ("every integer token of a valid command line of every sub-command / transformation / graph construction replaced "
        "(alone, in pairs, all) by 1000, 1024, 2^12, 2^16, 10^6, 2^31, 2^63, 2^64+1, 10^30, 10^100, 2^1024-, 2^1024, 10^400, "
        "10^4299, 10^4300; rungs that answer in time must end cleanly; distinct = distinct argv")
NOTES = ["huge: rungs that time out or exhaust the address-space limit give no verdict (counted in the class label)"]

TABLE = os.path.join(common.VERIF, "corpus", "C18", "huge_quick.json")

FLOAT_MAX = (1 << 1024) - (1 << 971)      # the largest finite double, as an integer
LADDER = [str(v) for v in (1000, 1024, 1 << 12, 1 << 16, 10 ** 6, 1 << 31, 1 << 63, (1 << 64) + 1, 10 ** 30, 10 ** 100,
                            FLOAT_MAX, 1 << 1024, 10 ** 400)] + ["1" + "0" * 4299, "1" + "0" * 4300]


# ------------------------------------------------------------------ base lines
def introspected():
    """[sub-command, small numeric positionals…] for every helper whose positionals are plain validated integers"""
    import warnings
    warnings.simplefilter("ignore")
    from cnfgen.clitools.cmdline import get_formula_helpers, get_transformation_helpers, CLIParser
    out = {"F": [], "T": []}
    for kind, hs in (("F", get_formula_helpers()), ("T", get_transformation_helpers())):
        for h in hs:
            p = CLIParser(prog=h.name)
            try:
                h.setup_command_line(p)
            except Exception:  # noqa
                continue
            toks, plain = [h.name], True
            for a in p._actions:
                if isinstance(a, argparse._HelpAction) or a.option_strings:
                    continue
                tname = getattr(a.type, "__name__", "")
                if tname in ("positive_int", "nonnegative_int") and a.nargs is None:
                    toks.append("3")
                elif tname == "positive_even_int" and a.nargs is None:
                    toks.append("2")
                elif tname == "positive_int" and a.nargs == "*":
                    pass
                else:
                    plain = False
            if plain and len(toks) > 1:
                out[kind].append(toks)
    return out


SIMPLE = [["complete", "4"], ["empty", "4"], ["grid", "2", "3"], ["torus", "3", "3"], ["gnp", "5", ".5"], ["gnm", "5", "4"],
          ["gnd", "6", "3"], ["gnp", "5", ".5", "plantclique", "3"], ["gnm", "5", "4", "addedges", "2"],
          ["complete", "4", "splitedges", "2"], ["gnp", "5", "1e-400"], ["gnp", "5", "0." + "0" * 400 + "1"]]
BIPARTITE = [["complete", "3", "2"], ["empty", "2", "2"], ["glrd", "4", "5", "2"], ["glrm", "3", "3", "7"], ["glrp", "3", "3", ".5"],
             ["regular", "4", "4", "2"], ["shift", "4", "4", "0", "1"], ["glrp", "3", "3", ".5", "plantbiclique", "2", "2"],
             ["glrm", "3", "3", "2", "addedges", "2"]]
DAG = [["pyramid", "2"], ["tree", "2"], ["path", "4"]]
GRAPH_CMDS = {"kcolor": ("simple", ["3"]), "ec": ("simple", []), "domset": ("simple", ["2"]), "tiling": ("simple", []),
              "matching": ("simple", []), "kclique": ("simple", ["3"]), "kcliquebin": ("simple", ["2"]),
              "ramlb": ("simple", ["2", "2"]), "iso": ("simple", []), "op": ("simple", []), "tseitin": ("simple", ["first"]),
              "peb": ("dag", []), "stone": ("dag", ["2"]), "php": ("bipartite", []), "subsetcard": ("bipartite", [])}
CUSTOM = [["php", "3"], ["php", "4", "3"], ["php", "4", "3", "2"], ["php", "4", "3", "--functional", "--onto"],
          ["op", "4"], ["op", "6", "3"], ["op", "4", "--total"], ["op", "4", "--smart"], ["op", "4", "--knuth2"], ["op", "4", "--plant"],
          ["tseitin", "4"], ["tseitin", "6", "3"], ["subsetcard", "4"], ["subsetcard", "6", "4"], ["subsetcard", "4", "--equal"],
          ["vdw", "5", "2", "2", "2"], ["randkcnf", "3", "5", "4", "--plant"], ["randkxor", "3", "5", "4", "--plant"],
          ["stone", "2", "pyramid", "2", "--sparse", "2"], ["--seed", "7", "randkcnf", "3", "5", "4"],
          ["--seed", "7", "kcolor", "3", "gnp", "5", ".5"], ["-of", "opb", "count", "4", "2"], ["-of", "latex", "parity", "3"],
          ["--varnames", "rphp", "3", "2", "2"],
          ["php", "3", "2", "-T", "xorcomp", "3"], ["php", "3", "2", "-T", "xorcomp", "6", "3"], ["php", "3", "2", "-T", "majcomp", "3"],
          ["php", "3", "2", "-T", "majcomp", "6", "3"], ["php", "3", "2", "-T", "xorcomp", "glrd", "6", "4", "2"],
          ["php", "2", "1", "-T", "lift", "2", "-T", "xor", "2"], ["and", "0", "0", "-T", "xor", "2"], ["true", "-T", "exact", "3", "2"],
          ["false", "-T", "maj", "3"], ["or", "1", "1", "-T", "shuffle"]]
SMALL_TOOLS = [("cnfshuffle", ["--seed", "3"], "p cnf 3 2\n1 -2 0\n2 3 0\n"),
               ("kthlist2pebbling", ["xor", "2"], "3\n1 : 0\n2 : 0\n3 : 1 2 0\n"),
               ("kthlist2pebbling", ["exact", "3", "2"], "3\n1 : 0\n2 : 0\n3 : 1 2 0\n"),
               ("kthlist2pebbling", ["lift", "2"], "3\n1 : 0\n2 : 0\n3 : 1 2 0\n")]


def bases():
    """(tool, argv, stdin) — valid command lines whose integer tokens are the slots"""
    out = []
    intro = introspected()
    for toks in intro["F"]:
        out.append(("cnfgen", toks, ""))
        out.append(("pbgen", toks, ""))
    for toks in intro["T"]:
        out.append(("cnfgen", ["php", "3", "2", "-T"] + toks, ""))
        out.append(("cnfgen", ["and", "1", "1", "-T"] + toks, ""))
    for a in CUSTOM:
        out.append(("cnfgen", a, ""))
        if "-T" not in a and "-of" not in a:
            out.append(("pbgen", a, ""))
    pools = {"simple": SIMPLE, "bipartite": BIPARTITE, "dag": DAG}
    for name, (gt, pre) in sorted(GRAPH_CMDS.items()):
        for g in pools[gt]:
            out.append(("cnfgen", [name] + pre + g, ""))
    out.append(("cnfgen", ["iso", "complete", "3", "-e", "gnm", "3", "3"], ""))
    out.append(("cnfgen", ["subgraph", "-G", "complete", "4", "-H", "complete", "2"], ""))
    out.append(("pbgen", ["php", "glrd", "4", "5", "2"], ""))
    out += [(t, a, s) for t, a, s in SMALL_TOOLS]
    return out


def is_slot(tok):
    return tok.isascii() and tok.isdigit()


def subsets(slots):
    """every slot alone, every pair, all of them"""
    out = [[i] for i in slots]
    out += [[i, j] for a, i in enumerate(slots) for j in slots[a + 1:]]
    if len(slots) > 2:
        out.append(list(slots))
    return out


def chains():
    """one chain per (base line, set of slots): the ladder in ascending order"""
    out = []
    for tool, argv, stdin in bases():
        first = 0
        while first < len(argv) and argv[first].startswith("-") and not is_slot(argv[first]):
            first += 1
        slots = [i for i, t in enumerate(argv) if is_slot(t)]
        for S in subsets(slots):
            rungs = []
            for v in LADDER:
                a = list(argv)
                for i in S:
                    a[i] = v
                rungs.append(a)
            out.append({"tool": tool, "stdin": stdin, "rungs": rungs, "id": len(out)})
    return out


def group_of(tool, argv):
    """the sub-command (or the transformation, if there is one) a command line exercises"""
    words = [t for t in argv if t[:1].isalpha()]
    if tool in ("cnfshuffle", "kthlist2pebbling"):
        return tool + (" " + words[0] if words else "")
    if "-T" in argv and argv.index("-T") + 1 < len(argv):
        return "-T " + argv[argv.index("-T") + 1]
    return words[0] if words else "(none)"


# ------------------------------------------------------------------ the child: runs chains, one JSON line per rung
class Alarm(BaseException):
    pass


def judge(tool, argv, stdin_text):
    """outcome of one command line, judged as in C18.argv_case; (kind, failure or None)"""
    from harness.props import C18
    kind, out, err = C18.run_inprocess(tool, argv, stdin_text)
    if kind in ("escaped:Alarm", "escaped:MemoryError"):
        return "resource", None
    if kind.startswith("escaped") or kind == "InternalBug" or kind.startswith("exit:"):
        return kind, {"outcome": kind, "tool": tool, "argv": argv, "stderr": err[-300:]}
    if kind == "cliError" and out.strip():
        return kind, {"outcome": "error after partial output", "tool": tool, "argv": argv, "stdout": out[:200]}
    if kind == "ok":
        fmt = "opb" if tool == "pbgen" else "dimacs"
        for i, a in enumerate(argv):
            if a in ("-of", "--output-format") and i + 1 < len(argv):
                fmt = argv[i + 1]
        try:
            bad = C18.strict_dimacs(out) if fmt == "dimacs" else C18.strict_opb(out) if fmt == "opb" else None
        except Alarm:
            return "resource", None
        except Exception as e:  # noqa
            bad = "strict reader failed: " + repr(e)
        if bad:
            return kind, {"outcome": "output not accepted by a strict reader", "why": bad, "tool": tool, "argv": argv,
                          "stdout": out[:300]}
    return kind, None


def child_main():
    import resource
    import signal
    import warnings
    warnings.simplefilter("ignore")
    job = json.loads(sys.stdin.read())
    limit = job.get("mem", 4 << 30)
    try:
        resource.setrlimit(resource.RLIMIT_AS, (limit, limit))
    except (ValueError, OSError):
        pass
    if hasattr(sys, "set_int_max_str_digits"):
        pass        # the interpreter's own limit stays as it is: it is part of what the tools meet

    def on_alarm(signum, frame):
        raise Alarm()
    signal.signal(signal.SIGALRM, on_alarm)
    per = job.get("per_rung", 1.0)
    for ch in job["chains"]:
        for argv in ch["rungs"]:
            t0 = time.time()
            signal.setitimer(signal.ITIMER_REAL, per, 0.25)
            try:
                try:
                    kind, failure = judge(ch["tool"], argv, ch.get("stdin", ""))
                finally:
                    signal.setitimer(signal.ITIMER_REAL, 0)
            except Alarm:
                kind, failure = "resource", None
            except MemoryError:
                kind, failure = "resource", None
            dt = time.time() - t0
            sys.__stdout__.write(json.dumps({"tool": ch["tool"], "argv": argv, "stdin": ch.get("stdin", ""), "kind": kind,
                                             "failure": failure, "t": round(dt, 3), "chain": ch.get("id")}) + "\n")
            sys.__stdout__.flush()
            if kind == "resource" and not job.get("keep_going"):
                break       # the higher rungs of this chain would not answer either


class Child:
    """a child process working through chains; its output is drained by a thread from the start (a full pipe would stall it)"""

    def __init__(self, chains_, per_rung, keep_going=False):
        import threading
        env = dict(os.environ, PYTHONPATH=common.REPO + os.pathsep + common.VERIF, PYTHONWARNINGS="ignore")
        self.p = subprocess.Popen([sys.executable, "-c", "from harness.props import C18_huge as M; M.child_main()"],
                                  stdin=subprocess.PIPE, stdout=subprocess.PIPE, stderr=subprocess.DEVNULL, env=env)
        self.data = []
        self.t0 = time.time()
        job = json.dumps({"chains": chains_, "per_rung": per_rung, "keep_going": keep_going}).encode()

        def feed():
            try:
                self.p.stdin.write(job)
                self.p.stdin.close()
            except OSError:
                pass

        def drain():
            for line in self.p.stdout:
                self.data.append(line)
        self.threads = [threading.Thread(target=feed, daemon=True), threading.Thread(target=drain, daemon=True)]
        for t in self.threads:
            t.start()

    def rows(self, hard):
        """the JSON lines written so far when the child ends, or `hard` seconds after its start (then it is killed)"""
        self.threads[1].join(max(1.0, hard - (time.time() - self.t0)))
        if self.threads[1].is_alive():
            self.p.kill()
            self.threads[1].join(10)
        self.p.wait()
        out = []
        for line in list(self.data):
            line = line.decode(errors="replace")
            if line.startswith("{"):
                try:
                    out.append(json.loads(line))
                except ValueError:
                    pass
        return out


def start_child(chains_, per_rung, keep_going=False):
    return Child(chains_, per_rung, keep_going)


def collect(child, hard):
    return child.rows(hard)


_SYM = {v: "@{}".format(i) for i, v in enumerate(LADDER)}
_UNSYM = {b: a for a, b in _SYM.items()}


def load_table():
    """[tool, argv, stdin, tag] rows; ladder values are stored as @<index>"""
    try:
        rows = json.load(open(TABLE))
    except (OSError, ValueError):
        return []
    return [[r[0], [_UNSYM.get(x, x) for x in r[1]], r[2], r[3] if len(r) > 3 else "top"] for r in rows]


def known_signatures():
    try:
        ks = json.load(open(os.path.join(common.VERIF, "known_findings.json")))
    except (OSError, ValueError):
        return set()
    return {k.get("match", {}).get("cls") for k in ks if k.get("property") == "C18" and k.get("status") == "known"}


class Pool:
    """the children of one run and their rows (collected once, by the first oracle that asks)"""

    def __init__(self):
        self.children = []      # (Child, hard)
        self._rows = None

    def add(self, chains_, per_rung, hard, keep_going=False):
        if chains_:
            self.children.append((Child(chains_, per_rung, keep_going), hard))

    def rows(self):
        if self._rows is None:
            self._rows = []
            for ch, hard in self.children:
                self._rows += ch.rows(hard)
        return self._rows


class GroupCase(Case):
    __slots__ = ("_cls",)

    @property
    def cls(self):
        return self._cls

    @cls.setter
    def cls(self, v):
        self._cls = v


def regime(argv):
    """where the largest integer token of the line lies: below 2^63, up to the largest float, beyond"""
    big = 0
    for t in argv:
        if t.isascii() and t.isdigit():
            if len(t) > 320:
                return ">floatmax"
            big = max(big, int(t))
    return "<2^63" if big < (1 << 63) else "<=floatmax" if big <= FLOAT_MAX else ">floatmax"


def signature(row):
    return "huge:{}:{}:{}".format(group_of(row["tool"], row["argv"]), row["failure"].get("outcome", "?"), regime(row["argv"]))


def group_case(pool, group):
    """every command line of one sub-command / transformation that answered: all must have ended cleanly"""
    def oracle():
        rows = [r for r in pool.rows() if group_of(r["tool"], r["argv"]) == group]
        bad = [r for r in rows if r["failure"]]
        if not bad:
            return None
        known = known_signatures()
        bad.sort(key=lambda r: (signature(r) in known, len(" ".join(r["argv"]))))      # new ones first, short ones first
        r = bad[0]
        # the failing command line itself becomes the recorded (replayable) input; the class names what went wrong
        case.info = {"tool": r["tool"], "argv": r["argv"], "stdin": r.get("stdin", "")}
        case.cls = signature(r)
        return dict(r["failure"], argv=[a if len(a) < 60 else a[:20] + "...({} digits)".format(len(a)) for a in r["argv"]],
                    other_failing_lines_of_this_group=len(bad) - 1)
    case = GroupCase("huge", req("validate", enc_str("positive_int"), enc_str("1")), lambda: ok("1"), oracle, cls="huge:" + group,
                     nontrivial=True, info={"group": group})
    return case


def build(suite, info):
    if suite != "huge":
        raise ValueError("unknown suite " + suite)
    if "argv" not in info:
        raise ValueError("huge: a group is not replayable, its failing command line is")
    argv = [str(a) for a in info["argv"]]
    pool = Pool()
    pool.add([{"tool": info["tool"], "stdin": info.get("stdin", ""), "rungs": [argv]}], 60.0, 120.0)
    return group_case(pool, group_of(info["tool"], argv))


def split(xs, n):
    return [xs[i::n] for i in range(n) if xs[i::n]]


def cases(ctx):
    tier, seed = ctx["tier"], ctx["seed"]
    rng = common.sub_rng(seed, "C18", "huge")
    pool = Pool()
    # rungs known to answer quickly: single-rung chains, generous timer (a stale entry gives no verdict)
    table = load_table()
    if tier != "thorough":
        table = [r for r in table if r[3] in ("ok", "bad") or rng.random() < 0.3]
    table = [{"tool": t, "stdin": s, "rungs": [a]} for t, a, s, _tag in table]
    allc = chains()
    groups = sorted({group_of(c["tool"], c["rungs"][0]) for c in allc} | {group_of(c["tool"], c["rungs"][0]) for c in table})
    for part in split(table, 3 if tier != "thorough" else 4):
        pool.add(part, 20.0, 240.0, keep_going=True)
    if tier == "thorough":
        for part in split(allc, 8):
            pool.add(part, 1.0, 500.0)
    else:
        for part in split(rng.sample(allc, min(len(allc), 12)), 2):
            pool.add(part, 1.0, 40.0)
    return [group_case(pool, g) for g in groups]


def explore(per_rung=1.0, quick=0.5, procs=10):
    """rebuild corpus/C18/huge_quick.json from the CURRENT code: per chain, the highest rung that ends in a formula
    (tag ok), the highest rung that answers at all (tag top) and the lowest rung that ends badly (tag bad: a recorded
    finding stays exercised), if they answer within `quick` seconds"""
    allc = chains()
    pool = Pool()
    for part in split(allc, procs):
        pool.add(part, per_rung, 3600)
    rows = pool.rows()
    by = {}
    for r in rows:
        by.setdefault(r["chain"], []).append(r)
    keep = {}
    for cid, rs in by.items():
        ans = [r for r in rs if r["kind"] != "resource" and r["t"] <= quick]
        oks = [r for r in ans if r["kind"] == "ok"]
        bads = [r for r in ans if r["failure"]]
        for tag, r in (("bad", bads[0] if bads else None), ("ok", oks[-1] if oks else None), ("top", ans[-1] if ans else None)):
            if r is not None:
                key = (r["tool"], tuple(_SYM.get(x, x) for x in r["argv"]), r.get("stdin", ""))
                if keep.get(key) not in ("ok", "bad"):
                    keep[key] = tag
    os.makedirs(os.path.dirname(TABLE), exist_ok=True)
    with open(TABLE, "w") as fh:
        fh.write("[\n" + ",\n".join(json.dumps([k[0], list(k[1]), k[2], tag], separators=(",", ":"))
                                      for k, tag in sorted(keep.items())) + "\n]\n")
    bad = [r for r in rows if r["failure"]]
    if os.environ.get("HUGE_DUMP"):
        with open(os.environ["HUGE_DUMP"], "w") as fh:
            json.dump([dict(r, argv=[_SYM.get(x, x) for x in r["argv"]]) for r in rows], fh)
    print("chains", len(allc), "rungs answered", sum(1 for r in rows if r["kind"] != "resource"), "kept", len(keep),
          "of which ok", sum(1 for t in keep.values() if t == "ok"),
          "no verdict", sum(1 for r in rows if r["kind"] == "resource"), "failures", len(bad))
    sigs = {}
    for r in bad:
        sigs.setdefault(signature(r), r)
    for sg, r in sorted(sigs.items()):
        print("FAIL", sg, r["tool"], [_SYM.get(a, a) for a in r["argv"]], str(r["failure"].get("stderr", ""))[-160:].replace("\n", " | "))


if __name__ == "__main__":
    if sys.argv[1:2] == ["explore"]:
        explore()
