"""C04 (mapping part) — force_{complete,functional,surjective,injective,nondecreasing}_mapping on
unary (new_mapping), sparse (new_sparse_mapping) and binary (new_binary_mapping) mappings, and
BinaryMappingVariables.forbid.

Correspondence: the formula after the call (CNF class: clauses; OPB class: constraints) equals the
rendering of the Lean model's constraint list, exactly (order included); exception classes compared.
Oracle (independent of the model): truth table of what the real builder added, against the
functional condition on the relation {(u,v) : f(u,v) true} (unary / sparse), resp. on
val(i) = sum of 2^b over the true bits f(i,b) (binary):
  complete      for all u some v in N(u) with f(u,v)          | val(i) < m for all i
  functional    for all u at most one v                       | (nothing to add)
  surjective    for all v some u                              | not supported by the code (ValueError)
  injective     for all v at most one u                       | no i < j with val(i) = val(j) < m
  nondecreasing no u1 < u2, v1 > v2 with f(u1,v1), f(u2,v2)   | no i < j with m > val(i) > val(j)
  forbid(i, j)  false exactly when val(i) = j   (1 <= i <= n, 0 <= j < 2^bits)
"""
from harness import common
from harness.common import Case, req, ok, fmt_formula
from harness.props.C11 import mk_bipartite, gen_bip, OFFSETS


class Alpha(dict):
    """assignment: variable -> bool, false where nothing is stored (the offsets go up to 2**64)"""

    def __missing__(self, v):
        return False

from cnfgen.formula.cnf import CNF
from cnfgen.formula.opb import OPB

RULE = ("every force_* x {unary n,m in 0..4 and (10,5); sparse: empty sides, no edges, isolated vertices, complete, random; "
        "binary n in 1..4, m in 1..9, 14; one element x EVERY range size 1..72 (thorough ..300), around every power of two and "
        "every 3*2^k up to 2^10 (thorough 2^13), around the integer constants of the current source (common.probe_sizes); two "
        "elements x sizes up to 40} x offsets {0,1,3,7,100,..} x CNF/OPB class; forbid(i,j) with i in 0..n+1 and "
        "j around -2^bits, 0, m, 2^bits; distinct = distinct request line; the truth-table oracle runs when the mapping has <= 13 variables")
ASSUMPTIONS = ["binary mappings: injective / nondecreasing are stated on values below m (codes >= m are excluded by "
               "force_complete_mapping, not by these builders)"]
NOTES = ["forbid(i, j) has no lower-bound check: a negative j is a Python negative index into the sign table "
         "(forbid(i,-1) = forbid(i, 2^bits-1)); modelled as such, outside the documented domain"]

WHICH = ["complete", "functional", "surjective", "injective", "nondecreasing"]
BIG_BITS = {"quick": 18, "thorough": 19}      # the code tabulates 2^bits sign patterns: 2^19 tuples is what a run can afford


def build_map(suite, info):
    off, which, opb = info["off"], info["which"], info.get("opb", False)
    kind = {"map_unary": 0, "map_sparse": 1, "map_binary": 2}[suite]
    state = {}

    def mk():
        F = OPB() if opb else CNF()
        F.update_variable_number(off)
        if kind == 0:
            f = F.new_mapping(info["n"], info["m"])
        elif kind == 1:
            f = F.new_sparse_mapping(mk_bipartite(info["G"]))
        else:
            f = F.new_binary_mapping(info["n"], info["m"])
        return F, f

    def impl():
        F, f = mk()
        getattr(F, "force_{}_mapping".format(WHICH[which]))(f)
        return ok(fmt_formula(F))

    def oracle():
        F, f = mk()
        try:
            getattr(F, "force_{}_mapping".format(WHICH[which]))(f)
        except Exception as e:
            if kind == 2 and which == 2:
                return None     # documented: surjectivity only for unary mappings
            return {"force_raised": type(e).__name__}
        n = len(f)
        if kind == 2 and info["n"] == 1 and n <= 20 and which in (0, 1, 3, 4):
            return single_element(F, f, info["m"], which, opb)
        if n > 13:
            return None
        cs = list(F) if opb else list(F.clauses())
        holds = common.opb_holds if opb else common.cnf_holds
        ids = list(f.ids)
        if kind in (0, 1):
            dom = list(f.domain())
            rng_ = list(f.range())
            edges = [tuple(t) for t in f.indices()]
            var = {t: f(*t) for t in edges}
        else:
            dom = list(f.domain())
            m = info["m"]
            bits = f.bits()
        for bitsval in range(1 << n):
            alpha = Alpha()
            for pos, v in enumerate(ids):
                alpha[v] = bool((bitsval >> pos) & 1)
            got = holds(cs, alpha)
            if kind in (0, 1):
                rel = {t for t in edges if alpha[var[t]]}
                if which == 0:
                    want = all(any((u, v) in rel for v in rng_) for u in dom)
                elif which == 1:
                    want = all(sum(1 for v in rng_ if (u, v) in rel) <= 1 for u in dom)
                elif which == 2:
                    want = all(any((u, v) in rel for u in dom) for v in rng_)
                elif which == 3:
                    want = all(sum(1 for u in dom if (u, v) in rel) <= 1 for v in rng_)
                else:
                    want = not any(u1 < u2 and v1 > v2 for (u1, v1) in rel for (u2, v2) in rel)
            else:
                val = {i: sum((1 << b) for b in range(bits) if alpha[f(i, b)]) for i in dom}
                if which == 0:
                    want = all(val[i] < m for i in dom)
                elif which == 1:
                    want = True
                elif which == 3:
                    want = not any(i < j and val[i] == val[j] and val[i] < m for i in dom for j in dom)
                else:
                    want = not any(i < j and val[i] > val[j] and val[i] < m and val[j] < m for i in dom for j in dom)
            if got != want:
                return {"assignment_true_vars": [v for v in ids if alpha[v]], "formula_accepts": got,
                        "functional_condition": want}
        return None

    if kind == 0:
        ms = [0, info["n"], info["m"]]
    elif kind == 1:
        ms = [1] + common.enc_bipartite(mk_bipartite(info["G"]))
    else:
        ms = [2, info["n"], info["m"]]
    r = req("vg_map", off, ms, which, 1 if opb else 0)
    return Case(suite, r, impl, oracle, cls="{}:{}".format(WHICH[which], "opb" if opb else "cnf"),
                nontrivial=True, info=info)


def single_element(F, f, m, which, opb):
    """binary mapping with ONE domain element: the added constraints must accept exactly the bit strings that encode
    0..m-1 (complete) resp. all of them (functional / injective / nondecreasing say nothing about a single element).
    Clauses (and PB constraints of the form sum of literals >= 1) are evaluated by marking the bit strings they
    exclude; anything else by plain evaluation."""
    bits = f.bits()
    ids = [f(1, b) for b in range(bits)]
    pos = {v: b for b, v in enumerate(ids)}
    cs = [list(c) for c in (F if opb else F.clauses())]
    accepted = bytearray(b"\x01") * (1 << bits)
    slow = []
    work = 0
    for c in cs:
        if opb:
            if not (c[-2] == ">=" and c[-1] == 1 and all(coef == 1 for coef, _ in c[:-2])):
                slow.append(c)
                continue
            lits = [l for _, l in c[:-2]]
        else:
            lits = c
        if any(abs(l) not in pos for l in lits):
            slow.append(c)
            continue
        need = {}           # bit -> value that makes every literal of the clause false
        taut = False
        for l in lits:
            b, val = pos[abs(l)], (0 if l > 0 else 1)
            if need.setdefault(b, val) != val:
                taut = True
        if taut:
            continue
        base = sum(v << b for b, v in need.items())
        free = [b for b in range(bits) if b not in need]
        work += 1 << len(free)
        if work > 4000000:
            return None                   # not a size this oracle can afford (never the case for the code's encodings)
        for sub in range(1 << len(free)):
            x = base
            for i, b in enumerate(free):
                if (sub >> i) & 1:
                    x |= 1 << b
            accepted[x] = 0
    vals = range(1 << bits)
    if slow and bits > 12:
        # constraints that are not clauses over the element's bits are evaluated on structured values (both ends, around the
        # range size, one bit set / one bit clear, around every power of two) and a fixed sample
        r = common.sub_rng(0, "C04-single", bits, m)
        top = (1 << bits) - 1
        pick = {0, 1, top, top - 1, m - 2, m - 1, m, m + 1, m ^ 1, (m - 1) ^ top}
        for b in range(bits):
            pick.update(((1 << b) - 1, 1 << b, (1 << b) + 1, top ^ (1 << b), (m - 1) ^ (1 << b), m ^ (1 << b)))
        pick.update(r.randrange(1 << bits) for _ in range(1500))
        pick.update(int(format(x, "0{}b".format(bits))[::-1], 2) for x in list(pick) if 0 <= x <= top)
        vals = sorted(x for x in pick if 0 <= x <= top)
    holds = common.opb_holds if opb else common.cnf_holds
    for val in vals:
        got = bool(accepted[val])
        if got and slow:
            alpha = Alpha()
            for b in range(bits):
                alpha[ids[b]] = bool((val >> b) & 1)
            got = holds(slow, alpha)
        want = (val < m) if which == 0 else True
        if got != want:
            return {"range_size": m, "bits": bits, "element_mapped_to": val, "formula_accepts": got,
                    "functional_condition": want, "number_of_constraints": len(cs)}
    return None


def build_forbid(info):
    off, n, m, i, j = info["off"], info["n"], info["m"], info["i"], info["j"]

    def mk():
        F = CNF()
        F.update_variable_number(off)
        return F, F.new_binary_mapping(n, m)

    def impl():
        F, f = mk()
        return ok(common.fmt_clauses([f.forbid(i, j)]))

    def oracle():
        F, f = mk()
        bits = f.bits()
        if not (1 <= i <= n and 0 <= j < 2 ** bits):
            return None
        c = f.forbid(i, j)
        ids = list(f(i, None))
        if bits > 12:
            # a clause is false at exactly one value of the element iff it mentions every bit variable of the element, no
            # other variable and no variable in both polarities; that value has bit b set iff f(i,b) occurs negated
            neg = {-l for l in c if l < 0}
            pos_ = {l for l in c if l > 0}
            if (neg | pos_) != {f(i, b) for b in range(bits)} or (neg & pos_):
                return {"clause": c, "ids": ids, "what": "not false at exactly one value of the element"}
            val = sum(1 << b for b in range(bits) if f(i, b) in neg)
            if val != j:
                return {"forbid": [i, j], "clause": c, "ids": ids, "value_actually_excluded": val}
            return None
        for bitsval in range(1 << bits):
            alpha = Alpha()
            for b in range(bits):
                alpha[f(i, b)] = bool((bitsval >> b) & 1)
            if common.cnf_holds([c], alpha) != (bitsval != j):
                return {"val": bitsval, "clause": c, "ids": ids}
        return None

    r = req("vg_forbid", off, n, m, i, j)
    legal = 1 <= i <= n and 0 <= j
    return Case("map_forbid", r, impl, oracle, cls="legal" if legal else "illegal", nontrivial=True, info=info)



def map_infos(ctx):
    tier, seed = ctx["tier"], ctx["seed"]
    rng = common.sub_rng(seed, "C04", "map")
    out = []
    for opb in (False, True):
        for which in range(5):
            for (n, m) in [(0, 0), (0, 2), (2, 0), (1, 1), (2, 3), (3, 2), (3, 3), (10, 5)]:
                out.append(("map_unary", dict(off=rng.choice([0, 3]), n=n, m=m, which=which, opb=opb)))
            for (n, m) in [(1, 1), (2, 1), (1, 2), (2, 3), (2, 4), (3, 3), (3, 5), (2, 6), (4, 14), (2, 9)]:
                out.append(("map_binary", dict(off=rng.choice([0, 3]), n=n, m=m, which=which, opb=opb)))
    out.append(("map_sparse", dict(off=0, which=4, opb=False,
                                   G={"l": 2, "r": 3, "edges": [[1, 2], [1, 3], [2, 1], [2, 3]]})))
    # range sizes: every one up to a bound, then around the powers of two, the midpoints between them and the constants the
    # current source compares sizes with.  The property quantifies over all range sizes "not only powers of two";
    # one domain element keeps the truth table at 2^bits rows.
    top, pmax = (72, 10) if tier == "quick" else (300, 13)
    sizes = set(range(1, top + 1))
    for e in range(2, pmax + 1):
        for c in (1 << e, 3 << (e - 2), 5 << max(e - 3, 0)):
            sizes.update(x for x in (c - 2, c - 1, c, c + 1, c + 2) if 1 <= x <= (1 << pmax))
    sizes.update(common.probe_sizes(["formula/variables.py", "formula/basecnf.py", "formula/baseopb.py"], 1, 1 << pmax))
    # every bit length up to BIG_BITS: the range sizes just below the power of two (one to three excluded bit strings, so the
    # formula stays tiny whatever the bit length), and whatever the constants of the current source point at up to 2^BIG_BITS
    # (a constant c stands for a size c or for a bit length c: probe_sizes yields c-1..c+1 and 2^c-1..2^c+1)
    big_bits = BIG_BITS[tier]
    sizes.update(common.probe_sizes(["formula/variables.py", "formula/basecnf.py", "formula/baseopb.py", "formula/opb.py",
                                     "formula/cnf.py"], 1, 1 << big_bits, wide=True))
    for e in range(2, big_bits + 1):
        sizes.update(x for x in ((1 << e) - 1, (1 << e) - 2, (1 << e) - 3) if x >= 1)
    for m in sorted(sizes):
        excluded = (1 << (m - 1).bit_length()) - m if m > 1 else 0
        heavy = m > 600 and excluded > 8       # thousands of clauses of 10+ literals: CNF only, completeness only
        for opb in ((False,) if heavy else (False, True)):
            out.append(("map_binary", dict(off=rng.choice([0, 0, 1, 7, 100]), n=1, m=m, which=0, opb=opb)))
        if not heavy and (m <= 40 or rng.random() < .15):
            out.append(("map_binary", dict(off=rng.choice([0, 3]), n=1, m=m, which=rng.choice([1, 3, 4]), opb=rng.random() < .5)))
    for m in sorted(x for x in sizes if 10 <= x <= (40 if tier == "quick" else 64)):
        if tier != "quick" or m % 3 == seed % 3 or m in (15, 16, 17, 31, 32, 33):
            out.append(("map_binary", dict(off=rng.choice([0, 3]), n=2, m=m, which=rng.choice([0, 0, 3, 4]), opb=rng.random() < .4)))
    reps = 60 if tier == "quick" else 900
    for _ in range(reps):
        G = gen_bip(rng)
        while len({tuple(e) for e in G["edges"]}) > 14:
            G = gen_bip(rng)
        out.append(("map_sparse", dict(off=rng.choice(OFFSETS), G=G, which=rng.randrange(5), opb=rng.random() < .4)))
        out.append(("map_unary", dict(off=rng.choice(OFFSETS), n=rng.randint(0, 4), m=rng.randint(0, 4),
                                      which=rng.randrange(5), opb=rng.random() < .4)))
        out.append(("map_binary", dict(off=rng.choice(OFFSETS), n=rng.randint(1, 4), m=rng.randint(1, 9),
                                       which=rng.randrange(5), opb=rng.random() < .4)))
    for _ in range(reps):
        n, m = rng.randint(1, 4), rng.choice([1, 2, 3, 4, 5, 6, 8, 9])
        bits = (m - 1).bit_length()
        out.append(("map_forbid", dict(off=rng.choice(OFFSETS), n=n, m=m, i=rng.randint(0, n + 1),
                                       j=rng.choice([-2 ** bits - 1, -2 ** bits, -1, 0, 1, m - 1, m, 2 ** bits - 1,
                                                     2 ** bits, rng.randint(0, 2 ** bits)]))))
    # forbid at every bit length (a clause of `bits` literals whatever the range size): range sizes that need 4..BIG_BITS
    # bits, values with few bits set, few bits clear, alternating patterns, random ones, both ends
    bitlens = list(range(4, big_bits + 1))
    bitlens += [(x - 1).bit_length() for x in sizes if (x - 1).bit_length() > 9]
    for bits in sorted(set(bitlens)):
        for rep in range(2 if bits < 14 else 3):
            m = rng.choice([(1 << bits) - rng.randint(0, 3), (1 << (bits - 1)) + 1 + rng.randrange(1 << (bits - 1))])
            n = rng.randint(1, 3)
            top = (1 << bits) - 1
            j = rng.choice([1 << rng.randrange(bits), top ^ (1 << rng.randrange(bits)), rng.randrange(1 << bits),
                            rng.randrange(1 << bits), (top // 3) >> rng.randint(0, 1), m - 1, m % (top + 1), 1, top - 1,
                            rng.randrange(1 << (bits // 2)), rng.randrange(1 << bits) | 1])
            out.append(("map_forbid", dict(off=rng.choice([0, 3, 100]), n=n, m=m, i=rng.randint(1, n), j=j)))
    return out


def build(suite, info):
    if suite == "map_forbid":
        return build_forbid(info)
    if suite in ("map_unary", "map_sparse", "map_binary"):
        return build_map(suite, info)
    raise ValueError("unknown suite " + suite)


def cases(ctx):
    for suite, info in map_infos(ctx):
        yield build(suite, info)


def search(ctx, case):
    r = common.run_oracle(case)
    if r is not None:
        return {"suite": case.suite, "info": case.info, "failure": r}
    if case.suite == "map_forbid":
        return None
    for off in (0, 1, 5):
        for which in range(5):
            c = build_map(case.suite, dict(case.info, off=off, which=which))
            r = common.run_oracle(c)
            if r is not None:
                return {"suite": c.suite, "info": c.info, "failure": r}
    return None


def search_global(ctx):
    for c in cases(dict(ctx, tier="quick")):
        r = common.run_oracle(c)
        if r is not None:
            return {"suite": c.suite, "info": c.info, "failure": r}
    return None
