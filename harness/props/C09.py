"""C09 — Shuffle is a signed renaming of the variables plus a reordering of the clauses.

Correspondence: the formula (or the exception) produced by the real `Shuffle`, by the `cnfshuffle`
tool and by `cnfgen … -T shuffle` equals, literal for literal and clause for clause, what the Lean model
`Cnfgen.Shuffle.run` computes from the same formula, the same three arguments and the values the real
`random` module returned (captured by a recording proxy installed in this process only).

Oracle (independent of the model, on the real objects): a witness (flips, variable bijection, clause
permutation) is taken from the explicit arguments / identity for switched-off components and, for random
components, recovered by matching input against output; then nvars, #clauses, multiset of widths, the
clause-wise image and — for at most 12 variables — the number of satisfying assignments (truth table)
are compared.  Invalid explicit arguments must be rejected (an exception), valid ones accepted.
"""
import io
import random
from collections import OrderedDict

from harness import common
from harness.common import Case, req, enc_list, enc_str, ok, fmt_cnf

from cnfgen.formula.cnf import CNF
from cnfgen.transformations.shuffle import Shuffle
from cnfgen.clitools.cmdline import redirect_stdin

RULE = ("formulas with 0..9 (thorough: ..14) variables and 0..12 (thorough: ..40) clauses of width 0..5 with repeated / "
        "opposite literals, duplicate and empty clauses, unused top variables; explicit arguments valid (random "
        "signed permutations, identity, reversal) and invalid (wrong length, 0, +-2, N+1, repeated index, "
        "off-by-one ranges, empty) as list / tuple / range; all eight 'fixed'/'shuffle' combinations and mixes with "
        "explicit arguments under harness-chosen seeds; cnfshuffle and `cnfgen … -T shuffle` in-process with every "
        "switch combination; reuse: the SAME argument objects (list / array, one object in two roles) handed to 2..5 calls and "
        "edited in place in between (valid->valid, valid->invalid, invalid->valid), each call judged on the current content; "
        "distinct = distinct request line (formula + arguments + recorded draws); "
        "non-trivial = at least one variable and one clause")
ASSUMPTIONS = [
    "input formula is well formed (non-zero literals within 1..N): what add_clause(check=True) and the DIMACS reader guarantee; "
    "hypothesis F.WF of the theorems. Non-well-formed inputs (built with check=False) are covered by the correspondence only",
    "random.choice([-1,1]) returns -1 or 1 and random.shuffle permutes its list (Legal draws); the recorded draws are checked "
    "against this on every case",
]
TRUSTED_EXTRA = ["recording proxy for random.choice / random.shuffle (harness/props/C09.py: Recorder)"]
NOTES = ["suite nonint is oracle-only: the model has integer arguments only"]

FIXED, SHUFFLE = "fixed", "shuffle"


# ------------------------------------------------------------------ recording proxy
class Recorder:
    """records what random.choice / random.shuffle returned; harness process only"""

    def __enter__(self):
        self.draws = []
        self._c, self._s = random.choice, random.shuffle
        rec = self

        def choice(seq):
            v = rec._c(seq)
            rec.draws.append(("c", v))
            return v

        def shuffle(x, *a, **k):
            rec._s(x, *a, **k)
            rec.draws.append(("s", list(x)))
        random.choice, random.shuffle = choice, shuffle
        return self

    def __exit__(self, *exc):
        random.choice, random.shuffle = self._c, self._s
        return False


def enc_draws(draws):
    out = [len(draws)]
    for kind, v in draws:
        if kind == "c":
            out += [0, int(v)]
        else:
            out += [1] + enc_list(v)
    return out


def enc_cnf(n, clauses):
    out = [n, len(clauses)]
    for c in clauses:
        out += enc_list(c)
    return out


def enc_arg(a):
    if a == FIXED:
        return [0]
    if a == SHUFFLE:
        return [1]
    return [2] + enc_list(a)


# ------------------------------------------------------------------ argument descriptions (JSON-able)
def realise(spec):
    """spec: 'fixed' | 'shuffle' | {'kind': 'list'|'tuple'|'range', 'v': [...]} | {'kind':'range','r':[a,b,step]}"""
    if spec in (FIXED, SHUFFLE):
        return spec
    if spec["kind"] == "range":
        return range(*spec["r"])
    if spec["kind"] == "tuple":
        return tuple(spec["v"])
    if spec["kind"] == "array":
        import array
        return array.array("q", spec["v"])
    return list(spec["v"])


def values(spec):
    if spec in (FIXED, SHUFFLE):
        return spec
    if spec["kind"] == "range":
        return list(range(*spec["r"]))
    return list(spec["v"])


def spec_cls(spec):
    return spec if spec in (FIXED, SHUFFLE) else spec["kind"]


def make_formula(n, clauses, header=None, unchecked=False):
    F = CNF()
    if header is not None:
        F.header = OrderedDict(header)
    F.update_variable_number(n)
    for c in clauses:
        F.add_clause(list(c), check=not unchecked)
    return F


# ------------------------------------------------------------------ independent oracle
def is_flips(fl, n):
    return len(fl) == n and all(isinstance(x, int) and x in (1, -1) for x in fl)


def is_perm(p, lo, n):
    return len(p) == n and all(isinstance(x, int) for x in p) and sorted(p) == list(range(lo, lo + n))


def well_formed(n, clauses):
    return all(isinstance(l, int) and l != 0 and abs(l) <= n for c in clauses for l in c)


def count_models(n, clauses):
    masks = []
    for c in clauses:
        pos = neg = 0
        for l in c:
            if l > 0:
                pos |= 1 << (l - 1)
            else:
                neg |= 1 << (-l - 1)
        masks.append((pos, neg))
    full = (1 << n) - 1
    cnt = 0
    for a in range(1 << n):
        na = ~a & full
        for pos, neg in masks:
            if not (a & pos or na & neg):
                break
        else:
            cnt += 1
    return cnt


def sigma_of(fl, vp):
    def sigma(l):
        v = abs(l)
        return (1 if l > 0 else -1) * fl[v - 1] * vp[v - 1]
    return sigma


def verify_witness(n, fcl, gn, gcl, fl, vp, cp):
    """None if (fl, vp, cp) witnesses the property, else a description"""
    m = len(fcl)
    if gn != n:
        return {"nvars_in": n, "nvars_out": gn}
    if len(gcl) != m:
        return {"clauses_in": m, "clauses_out": len(gcl)}
    if not is_flips(fl, n) or not is_perm(vp, 1, n) or not is_perm(cp, 0, m):
        return {"witness_not_a_signed_permutation": [fl, vp, cp]}
    sig = sigma_of(fl, vp)
    for i, c in enumerate(fcl):
        if sorted(sig(l) for l in c) != sorted(gcl[cp[i]]):
            return {"clause": i, "lands_at": cp[i], "expected_image": [sig(l) for l in c], "found": gcl[cp[i]]}
    return None


def find_witness(n, fcl, gcl, fl_fix, vp_fix, cp_fix, budget=200000):
    """backtracking search for (fl, vp, cp) with G[cp[i]] = sigma(F[i]) as multisets, respecting the components
    that are fixed (lists) — returns (fl, vp, cp), None (no witness exists) or 'budget'"""
    m = len(fcl)
    if len(gcl) != m:
        return None
    img = {}        # var -> signed image
    used = set()    # image variables in use
    state = {"nodes": 0}
    cp = [None] * m
    taken = [False] * m

    def ok_pair(v, s):
        # may variable v be sent to signed image s ?
        if fl_fix is not None and (1 if s > 0 else -1) != fl_fix[v - 1]:
            return False
        if vp_fix is not None and abs(s) != vp_fix[v - 1]:
            return False
        return True

    def match_lits(src, dst, k, cont):
        # src: literals of F-clause still to be placed; dst: multiset (list) of G literals left
        state["nodes"] += 1
        if state["nodes"] > budget:
            raise TimeoutError
        if k == len(src):
            return cont()
        l = src[k]
        v, sg = abs(l), (1 if l > 0 else -1)
        if v in img:
            want = sg * img[v]
            if want in dst:
                dst.remove(want)
                if match_lits(src, dst, k + 1, cont):
                    return True
                dst.append(want)
            return False
        for t in sorted(set(dst)):
            s = sg * t
            if abs(s) in used or abs(s) > n or s == 0 or not ok_pair(v, s):
                continue
            img[v] = s
            used.add(abs(s))
            dst.remove(t)
            if match_lits(src, dst, k + 1, cont):
                return True                     # keep img / used / cp: they are the witness
            dst.append(t)
            used.discard(abs(s))
            del img[v]
        return False

    def place(i):
        if i == m:
            return True
        cands = [cp_fix[i]] if cp_fix is not None else range(m)
        for j in cands:
            if not (0 <= j < m) or taken[j] or len(gcl[j]) != len(fcl[i]):
                continue
            taken[j] = True
            cp[i] = j
            if match_lits(fcl[i], list(gcl[j]), 0, lambda: place(i + 1)):
                return True
            taken[j] = False
            cp[i] = None
        return False

    try:
        found = place(0)
    except TimeoutError:
        return "budget"
    if not found:
        return None
    # complete sigma on the variables that occur nowhere
    free_targets = [t for t in range(1, n + 1) if t not in {abs(s) for s in img.values()}]
    for v in range(1, n + 1):
        if v in img:
            continue
        if vp_fix is not None:
            t = vp_fix[v - 1]
            if t not in free_targets:
                return None
        else:
            t = free_targets[0]
        free_targets.remove(t)
        img[v] = (fl_fix[v - 1] if fl_fix is not None else 1) * t
    fl = [1 if img[v] > 0 else -1 for v in range(1, n + 1)]
    vp = [abs(img[v]) for v in range(1, n + 1)]
    return fl, vp, list(cp)


def property_oracle(n, fcl, args, state, tool=False):
    """args: three of 'fixed' | 'shuffle' | list of ints (already realised values)"""
    def oracle():
        if not well_formed(n, fcl):
            return None                       # outside the property's domain (see ASSUMPTIONS)
        m = len(fcl)
        pa, va, ca = args
        valid = ((pa in (FIXED, SHUFFLE) or is_flips(pa, n)) and (va in (FIXED, SHUFFLE) or is_perm(va, 1, n))
                 and (ca in (FIXED, SHUFFLE) or is_perm(ca, 0, m)))
        if "exc" in state:
            if valid:
                return {"valid_arguments_rejected": state["exc"]}
            return None
        if "G" not in state:
            return {"implementation_not_run": True}
        gn, gcl = state["G"]
        if not valid:
            return {"invalid_arguments_accepted": True, "output": [gn, gcl[:20]]}
        if any(not isinstance(l, int) for c in gcl for l in c):
            return {"non_integer_literal_in_output": [c for c in gcl if any(not isinstance(l, int) for l in c)][:5]}
        # legality of what the random module returned (assumption check, cheap)
        for kind, v in state.get("draws", []):
            if kind == "c" and v not in (-1, 1):
                return {"random_choice_returned": v}
        fl_fix = [1] * n if pa == FIXED else (None if pa == SHUFFLE else list(pa))
        vp_fix = list(range(1, n + 1)) if va == FIXED else (None if va == SHUFFLE else list(va))
        cp_fix = list(range(m)) if ca == FIXED else (None if ca == SHUFFLE else list(ca))
        if gn != n:
            return {"nvars_in": n, "nvars_out": gn}
        if len(gcl) != m:
            return {"clauses_in": m, "clauses_out": len(gcl)}
        if sorted(len(c) for c in gcl) != sorted(len(c) for c in fcl):
            return {"widths_in": sorted(len(c) for c in fcl), "widths_out": sorted(len(c) for c in gcl)}
        if fl_fix is not None and vp_fix is not None and cp_fix is not None:
            w = (fl_fix, vp_fix, cp_fix)
        else:
            w = find_witness(n, fcl, gcl, fl_fix, vp_fix, cp_fix)
            if w is None:
                return {"no_signed_renaming_and_clause_permutation_maps_input_to_output": True,
                        "input": [n, fcl[:30]], "output": [gn, gcl[:30]],
                        "fixed_components": [fl_fix, vp_fix, cp_fix]}
            if w == "budget":
                w = None
        if w is not None:
            bad = verify_witness(n, fcl, gn, gcl, *w)
            if bad is not None:
                bad["witness"] = list(w)
                return bad
        if n <= 12 and m <= 60:
            a, b = count_models(n, fcl), count_models(n, gcl)
            if a != b:
                return {"models_in": a, "models_out": b}
        return None
    return oracle


# ------------------------------------------------------------------ cases
def build(suite, info):
    n = info.get("n", 0)
    fcl = [list(c) for c in info.get("clauses", [])]
    specs = info.get("args", [FIXED, FIXED, FIXED])
    vals = [values(s) for s in specs]
    seed = info.get("seed", 0)
    state = {}
    nontrivial = n > 0 and len(fcl) > 0
    case_box = []

    def set_req(draws):
        case_box[0].req = req("shuf", enc_cnf(n, fcl), enc_arg(vals[0]), enc_arg(vals[1]), enc_arg(vals[2]),
                              enc_draws(draws))

    def record(fn):
        """run fn under the recorder; fill state and the request line"""
        state.clear()
        random.seed(seed)
        with Recorder() as rec:
            try:
                G = fn()
            except Exception as e:
                state["exc"] = type(e).__name__
                state["draws"] = rec.draws
                set_req(rec.draws)
                raise
        state["draws"] = rec.draws
        state["G"] = (G.number_of_variables(), [list(c) for c in G.clauses()])
        set_req(rec.draws)
        return G

    cls = "/".join(spec_cls(s) for s in specs)

    if suite in ("explicit", "switch", "nonwf"):
        def impl():
            F = make_formula(n, fcl, unchecked=(suite == "nonwf"))
            G = record(lambda: Shuffle(F, realise(specs[0]), realise(specs[1]), realise(specs[2])))
            return ok(fmt_cnf(G))
        if suite == "explicit":
            v = ((vals[0] in (FIXED, SHUFFLE) or is_flips(vals[0], n)) and (vals[1] in (FIXED, SHUFFLE) or is_perm(vals[1], 1, n))
                 and (vals[2] in (FIXED, SHUFFLE) or is_perm(vals[2], 0, len(fcl))))
            cls = ("valid:" if v else "invalid:") + cls
        c = Case(suite, "shuf ?", impl, property_oracle(n, fcl, vals, state), cls=cls, nontrivial=nontrivial, info=info)
        case_box.append(c)
        set_req([])
        return c

    if suite in ("cnfshuffle", "tshuffle"):
        flags = [f for f, s in zip(("-p", "-v", "-c"), specs) if s == FIXED]
        toolseed = info.get("toolseed", 1)

        def impl():
            from cnfgen.clitools import cnfshuffle, cnfgen
            text = make_formula(n, fcl).to_dimacs()
            if suite == "cnfshuffle":
                argv = ["cnfshuffle", "--input", "-", "--seed", str(toolseed)] + flags
                tool = cnfshuffle
            else:
                argv = ["cnfgen", "-q", "--seed", toolseed, "dimacs", "-", "-T", "shuffle"] + flags
                tool = cnfgen

            def call():
                with redirect_stdin(io.StringIO(text)):
                    return tool(argv, mode="formula")
            G = record(call)
            return ok(fmt_cnf(G))
        c = Case(suite, "shuf ?", impl, property_oracle(n, fcl, vals, state, tool=True), cls=cls,
                 nontrivial=nontrivial, info=info)
        case_box.append(c)
        set_req([])
        return c

    if suite == "tfamily":
        # cnfgen <family…> -T shuffle [-p -v -c] [-T shuffle …]; the input formula is what the same
        # command line without the transformations builds
        fam = [str(x) for x in info["family"]]
        chain = info.get("chain", [[s == FIXED for s in specs]])
        toolseed = info.get("toolseed", 1)

        def base():
            from cnfgen.clitools import cnfgen
            F0 = cnfgen(["cnfgen", "-q"] + fam, mode="formula")
            return F0.number_of_variables(), [list(c) for c in F0.clauses()]

        def impl():
            from cnfgen.clitools import cnfgen
            argv = ["cnfgen", "-q", "--seed", toolseed] + fam
            for sw in chain:
                argv += ["-T", "shuffle"] + [f for f, on in zip(("-p", "-v", "-c"), sw) if on]
            bn, bcl = base()
            state.clear()
            random.seed(seed)
            with Recorder() as rec:
                G = cnfgen(argv, mode="formula")
            state["draws"] = rec.draws
            state["G"] = (G.number_of_variables(), [list(c) for c in G.clauses()])
            state["F"] = (bn, bcl)
            # one request per chain is not expressible in a single line: fold the chain here by
            # asking the model for the LAST step only, from the previous step's real output …
            # so the chain is restricted to length 1 for the correspondence (longer chains: oracle only)
            args1 = [FIXED if on else SHUFFLE for on in chain[0]]
            case_box[0].req = req("shuf", enc_cnf(bn, bcl), enc_arg(args1[0]), enc_arg(args1[1]), enc_arg(args1[2]),
                                  enc_draws(rec.draws))
            return ok(fmt_cnf(G))

        def oracle():
            if "F" not in state:
                return {"implementation_not_run": True}
            bn, bcl = state["F"]
            args1 = [FIXED if on else SHUFFLE for on in chain[0]]
            return property_oracle(bn, bcl, args1, state, tool=True)()
        c = Case(suite, "shufnop", impl, oracle, cls="/".join(FIXED if on else SHUFFLE for on in chain[0]),
                 nontrivial=True, info=info)
        case_box.append(c)
        return c

    if suite == "reuse":
        # the SAME argument objects are handed to several calls in a row and edited IN PLACE by the caller in between
        # (valid -> valid, valid -> invalid, invalid -> valid); every call is judged on what the objects hold at that moment
        calls, at = info["calls"], info["at"]
        formulas = [[list(c) for c in f] for f in info["formulas"]]
        cur = [v if v in (FIXED, SHUFFLE) else list(v) for v in vals]
        for a, b in info.get("alias", []):
            cur[b] = cur[a]                      # one object in two roles
        before = None
        for i in range(at + 1):
            if i == at:
                before = [v if v in (FIXED, SHUFFLE) else list(v) for v in cur]
            for e in calls[i]["edits"]:
                apply_edit(cur, e)
        vals = cur
        fcl = formulas[calls[at].get("f", 0)]
        nontrivial = n > 0 and len(fcl) > 0

        def impl():
            objs = [realise(sp) for sp in specs]
            for a, b in info.get("alias", []):
                objs[b] = objs[a]
            shared = make_formula(n, formulas[0]) if info.get("same_formula") else None
            for i in range(at + 1):
                for e in calls[i]["edits"]:
                    apply_edit(objs, e)
                F = shared if shared is not None and calls[i].get("f", 0) == 0 else make_formula(n, formulas[calls[i].get("f", 0)])
                if i < at:
                    random.seed(seed + i + 1)
                    try:
                        Shuffle(F, *objs)
                    except Exception:
                        pass
                else:
                    G = record(lambda: Shuffle(F, *objs))
                    return ok(fmt_cnf(G))

        def ok_now(v3, m):
            return all(v in (FIXED, SHUFFLE) or (is_flips(v, n) if k == 0 else is_perm(v, 1, n) if k == 1 else is_perm(v, 0, m))
                       for k, v in enumerate(v3))
        mprev = len(formulas[calls[at - 1].get("f", 0)]) if at > 0 else len(fcl)
        cls = ("first" if at == 0 else ("valid" if ok_now(before, mprev) else "invalid")) + ">" + ("valid" if ok_now(vals, len(fcl)) else "invalid")
        c = Case(suite, "shuf ?", impl, property_oracle(n, fcl, vals, state), cls=cls, nontrivial=nontrivial, info=info)
        case_box.append(c)
        set_req([])
        return c

    if suite == "header":
        items = [tuple(x) for x in info["header"]]

        def impl():
            F = make_formula(n, fcl, header=items)
            before = list(F.header.items())
            random.seed(seed)
            G = Shuffle(F)
            state["before"], state["after_in"], state["out"] = before, list(F.header.items()), list(G.header.items())
            out = [len(state["out"])]
            for k, v in state["out"]:
                out += enc_str(k) + enc_str(v)
            return ok(" ".join(str(x) for x in out))

        def oracle():
            if "out" not in state:
                return {"implementation_not_run": True}
            before, out = state["before"], state["out"]
            if state["after_in"] != before:
                return {"input_header_modified": state["after_in"]}
            if len(out) != len(before) + 1:
                return {"header_items": out}
            for (k, v), (k2, v2) in zip(before, out):
                want = v + " (reshuffled)" if k == "description" else v
                if k != k2 or v2 != want:
                    return {"header_entry_changed": [k, v, k2, v2]}
            k, v = out[-1]
            keys = [x for x, _ in before]
            if v != "Formula reshuffling" or not k.startswith("transformation ") or k in keys:
                return {"new_header_entry": [k, v]}
            idx = int(k[len("transformation "):])
            if idx < 1 or any("transformation {}".format(j) not in keys for j in range(1, idx)):
                return {"not_first_free_index": idx}
            return None
        hreq = [len(items)]
        for k, v in items:
            hreq += enc_str(k) + enc_str(v)
        return Case(suite, req("shufhdr", hreq), impl, oracle, cls="desc" if any(k == "description" for k, _ in items) else "nodesc",
                    nontrivial=len(items) > 0, info=info)

    if suite == "nonint":
        # non-integer numbers equal to legal entries (1.0, 2.0 …): outside the integer model; oracle only
        which, pos = info["which"], info["pos"]

        def impl():
            F = make_formula(n, fcl)
            a = [realise(s) for s in specs]
            a[which] = list(a[which])
            a[which][pos] = float(a[which][pos])
            state.clear()
            random.seed(seed)
            try:
                G = Shuffle(F, *a)
                state["G"] = (G.number_of_variables(), [list(c) for c in G.clauses()])
            except Exception as e:
                state["exc"] = type(e).__name__
            return ok("-")

        def oracle():
            if "exc" in state:
                return None                   # rejected: fine
            if "G" not in state:
                return {"implementation_not_run": True}
            gn, gcl = state["G"]
            bad = [c for c in gcl if any(not isinstance(l, int) for l in c)]
            if bad:
                case_box[0].cls = "float-literal-leak"      # stable label of finding D30
                return {"non_integer_literal_in_output": bad[:5], "argument": ["polarity_flips", "variables_permutation",
                                                                               "clauses_permutation"][which]}
            return property_oracle(n, fcl, vals, {"G": state["G"]})()
        c = Case(suite, "shufnop", impl, oracle, cls="float-entry:" + ["flips", "vperm", "cperm"][which],
                 nontrivial=nontrivial, info=info)
        case_box.append(c)
        return c
    raise ValueError("unknown suite " + suite)


# ------------------------------------------------------------------ in-place edits of caller-owned argument objects
def apply_edit(objs, e):
    """e = [which, "set", pos, value] | [which, "assign", values] | [which, "append", value] | [which, "pop"] |
    [which, "reverse"]: performed IN PLACE on the object of argument `which` (lists and arrays alike)"""
    o = objs[e[0]]
    if o in (FIXED, SHUFFLE):
        return
    if e[1] == "set":
        o[e[2]] = e[3]
    elif e[1] == "assign":
        o[:] = type(o)(o.typecode, e[2]) if hasattr(o, "typecode") else list(e[2])
    elif e[1] == "append":
        o.append(e[2])
    elif e[1] == "pop":
        o.pop()
    elif e[1] == "reverse":
        o.reverse()


def edits_towards(which, old, new, rng):
    """in-place edits that turn the content `old` into `new`"""
    if len(old) == len(new):
        diff = [i for i in range(len(old)) if old[i] != new[i]]
        if len(diff) <= 3 or rng.random() < .5:
            return [[which, "set", i, new[i]] for i in diff]
    if len(new) == len(old) + 1 and new[:-1] == old:
        return [[which, "append", new[-1]]]
    if len(new) == len(old) - 1 and old[:-1] == new:
        return [[which, "pop"]]
    if new == old[::-1] and rng.random() < .5:
        return [[which, "reverse"]]
    return [[which, "assign", list(new)]]


def next_content(rng, which, old, n, m, want_valid):
    """the content the caller edits the argument into: close to the old one when possible"""
    size, lo = (n, 1) if which < 2 else (m, 0)
    if want_valid:
        ok_old = is_flips(old, n) if which == 0 else is_perm(old, lo, size)
        if ok_old and size >= 1:
            new = list(old)
            if which == 0:
                for i in rng.sample(range(size), rng.randint(1, min(2, size))):
                    new[i] = -new[i]
            elif size >= 2:
                i, j = rng.sample(range(size), 2)
                new[i], new[j] = new[j], new[i]
            return new
        return rand_flips(rng, size) if which == 0 else rand_perm(rng, lo, size)
    base = list(old) if len(old) == size else (rand_flips(rng, size) if which == 0 else rand_perm(rng, lo, size))
    r = rng.randrange(6)
    if r == 0 or size == 0:
        return base + [1 if which == 0 else lo + size]
    if r == 1:
        return base[:-1]
    i = rng.randrange(size)
    if r == 2 and which > 0 and size >= 2:
        base[i] = base[(i + 1) % size]                                   # a repeated index
    elif r == 3:
        base[i] = rng.choice([0, 2, -2]) if which == 0 else lo + size      # not a polarity / just above the range
    elif r == 4:
        base[i] = rng.choice([3, -3]) if which == 0 else lo - 1           # just below the range
    else:
        base[i] = rng.choice([2, 0]) if which == 0 else lo + size + rng.randint(1, 3)
    return base


def gen_reuse(rng, maxn=6, maxm=7):
    """one batch: formulas with the same number of variables, the same argument objects for 2..5 calls"""
    n, cl = gen_formula(rng, maxn, maxm)
    if n < 2:
        n = rng.randint(2, 4)
        cl = [[rng.choice([1, -1]) * rng.randint(1, n) for _ in range(rng.randint(0, 3))] for _ in range(rng.randint(1, 4))]
    formulas = [cl]
    if rng.random() < .4:           # a second formula over the same variables (same or another number of clauses)
        m2 = len(cl) if rng.random() < .6 else rng.randint(0, maxm)
        formulas.append([[rng.choice([1, -1]) * rng.randint(1, n) for _ in range(rng.randint(0, 3))] for _ in range(m2)])
    specs = []
    for k in range(3):
        if rng.random() < (.85 if k < 2 else .5):
            size, lo = (n, 1) if k < 2 else (len(cl), 0)
            v = rand_flips(rng, size) if k == 0 else rand_perm(rng, lo, size)
            if rng.random() < .15:
                v = next_content(rng, k, v, n, len(cl), False)              # starts invalid
            specs.append({"kind": "array" if rng.random() < .2 and all(abs(x) < 2 ** 40 for x in v) else "list", "v": v})
        else:
            specs.append(rng.choice([FIXED, SHUFFLE]))
    cur = [values(sp) for sp in specs]
    calls = [{"edits": [], "f": 0}]
    for _ in range(rng.randint(1, 4)):
        f = rng.randrange(len(formulas))
        edits = []
        for k in range(3):
            if cur[k] in (FIXED, SHUFFLE) or rng.random() < .35:
                continue
            new = next_content(rng, k, cur[k], n, len(formulas[f]), rng.random() < .5)
            edits += edits_towards(k, cur[k], new, rng)
            cur[k] = new
        calls.append({"edits": edits, "f": f})
    return dict(n=n, formulas=formulas, args=specs, calls=calls, same_formula=rng.random() < .5, seed=rng.randrange(1 << 30))


# ------------------------------------------------------------------ generators
def gen_formula(rng, maxn, maxm):
    n = rng.choice([0, 1, 1, 2, 2, 3, 3, 4, 5, 6, 7, maxn, maxn])
    n = min(n, maxn)
    m = rng.choice([0, 1, 2, 3, 4, 5, 6, 8, maxm])
    style = rng.randrange(5)
    cl = []
    for _ in range(m):
        if n == 0:
            cl.append([])
            continue
        w = rng.choice([0, 1, 1, 2, 2, 3, 3, 4, 5]) if style != 3 else 3
        if style == 1:   # few variables: repeated / opposite literals
            c = [rng.choice([1, -1]) * rng.randint(1, max(1, n // 2)) for _ in range(w)]
        elif style == 2:  # distinct variables
            vs = rng.sample(range(1, n + 1), min(w, n))
            c = [v if rng.random() < .5 else -v for v in vs]
        else:
            c = [rng.choice([1, -1]) * rng.randint(1, n) for _ in range(w)]
        cl.append(c)
    if style == 4 and cl:       # duplicate clauses
        cl += [list(rng.choice(cl)) for _ in range(min(3, maxm))]
    return n, cl


def rand_flips(rng, n):
    return [rng.choice([1, -1]) for _ in range(n)]


def rand_perm(rng, lo, n):
    p = list(range(lo, lo + n))
    rng.shuffle(p)
    return p


def valid_spec(rng, which, n, m):
    """a valid explicit argument in a random container kind"""
    size, lo = (n, 1) if which < 2 else (m, 0)
    r = rng.random()
    if which == 0:
        if size == 2 and r < .1:
            return {"kind": "range", "r": [-1, 2, 2]}       # range(-1,2,2) = [-1, 1]
        if size == 1 and r < .2:
            return {"kind": "range", "r": [1, 2, 1]}
        return {"kind": rng.choice(["list", "list", "tuple"]), "v": rand_flips(rng, size)}
    if r < .15:
        return {"kind": "range", "r": [lo, lo + size, 1]}
    if r < .25:
        return {"kind": rng.choice(["list", "tuple"]), "v": list(range(lo + size - 1, lo - 1, -1))}
    return {"kind": rng.choice(["list", "list", "tuple"]), "v": rand_perm(rng, lo, size)}


def invalid_spec(rng, which, n, m):
    size, lo = (n, 1) if which < 2 else (m, 0)
    base = rand_flips(rng, size) if which == 0 else rand_perm(rng, lo, size)
    kind = rng.choice(["list", "tuple"])
    r = rng.randrange(9)
    if r == 0 or size == 0:
        v = base + [1 if which == 0 else lo + size]            # one too many
    elif r == 1:
        v = base[:-1]                                         # one too few
    elif r == 2:
        v = list(base)
        v[rng.randrange(size)] = 0 if which < 2 else -1       # below the range
    elif r == 3:
        v = list(base)
        v[rng.randrange(size)] = rng.choice([2, -2]) if which == 0 else lo + size   # above the range / not +-1
    elif r == 4 and which > 0 and size >= 2:
        v = list(base)
        i, j = rng.sample(range(size), 2)
        v[i] = v[j]                                           # repeated index
    elif r == 5 and which > 0:
        return {"kind": "range", "r": [lo + 1, lo + size + 1, 1]}    # off by one upwards
    elif r == 6 and which > 0:
        return {"kind": "range", "r": [lo - 1, lo + size - 1, 1]}    # off by one downwards
    elif r == 7:
        v = []                                                # empty (size > 0 here)
    else:
        v = [x * rng.choice([3, -3, 2]) for x in base] if which == 0 else [x + 1 for x in base]
    return {"kind": kind, "v": v}


def spec_valid(spec, which, n, m):
    v = values(spec)
    return is_flips(v, n) if which == 0 else is_perm(v, 1, n) if which == 1 else is_perm(v, 0, m)


CORPUS = [
    # (suite, info) — boundary cases, always first
    ("explicit", dict(n=0, clauses=[], args=[{"kind": "list", "v": []}] * 3)),
    ("explicit", dict(n=0, clauses=[[], []], args=[{"kind": "list", "v": []}, {"kind": "list", "v": []}, {"kind": "list", "v": [1, 0]}])),
    ("explicit", dict(n=3, clauses=[[1, -2], [2, 3], [-1], []],
                      args=[{"kind": "list", "v": [1, -1, 1]}, {"kind": "list", "v": [2, 3, 1]}, {"kind": "list", "v": [3, 0, 1, 2]}])),
    ("explicit", dict(n=3, clauses=[[1, -2], [2, 3], [-1], []],
                      args=[{"kind": "tuple", "v": [1, 1, 1]}, {"kind": "range", "r": [1, 4, 1]}, {"kind": "range", "r": [0, 4, 1]}])),
    ("explicit", dict(n=2, clauses=[[1, 2], [-1, -2]], args=[{"kind": "range", "r": [-1, 2, 2]}, FIXED, FIXED])),
    ("explicit", dict(n=3, clauses=[[1, -2]], args=[{"kind": "list", "v": [1, 1]}, FIXED, FIXED])),
    ("explicit", dict(n=3, clauses=[[1, -2]], args=[{"kind": "list", "v": [1, 1, 2]}, FIXED, FIXED])),
    ("explicit", dict(n=3, clauses=[[1, -2]], args=[{"kind": "list", "v": [1, 0, 1]}, FIXED, FIXED])),
    ("explicit", dict(n=3, clauses=[[1, -2]], args=[FIXED, {"kind": "list", "v": [1, 2, 2]}, FIXED])),
    ("explicit", dict(n=3, clauses=[[1, -2]], args=[FIXED, {"kind": "range", "r": [0, 3, 1]}, FIXED])),
    ("explicit", dict(n=3, clauses=[[1, -2]], args=[FIXED, {"kind": "range", "r": [2, 5, 1]}, FIXED])),
    ("explicit", dict(n=3, clauses=[[1, -2]], args=[FIXED, {"kind": "list", "v": [1, 2, 3, 4]}, FIXED])),
    ("explicit", dict(n=3, clauses=[[1, -2], [3]], args=[FIXED, FIXED, {"kind": "list", "v": [1, 2]}])),
    ("explicit", dict(n=3, clauses=[[1, -2], [3]], args=[FIXED, FIXED, {"kind": "list", "v": [0, 0]}])),
    ("explicit", dict(n=3, clauses=[[1, -2], [3]], args=[FIXED, FIXED, {"kind": "list", "v": [0]}])),
    ("explicit", dict(n=3, clauses=[[1, -2], [3]], args=[FIXED, FIXED, {"kind": "range", "r": [-1, 1, 1]}])),
    ("explicit", dict(n=3, clauses=[[1, -2], [3]], args=[{"kind": "list", "v": [1, 1]}, {"kind": "list", "v": [1, 1, 1]}, {"kind": "list", "v": [5]}])),
    ("nonwf", dict(n=2, clauses=[[1, 2], [4]], args=[FIXED, {"kind": "list", "v": [2, 1]}, FIXED])),
    ("nonwf", dict(n=2, clauses=[[1, 2], [5]], args=[FIXED, {"kind": "list", "v": [2, 1]}, FIXED])),
    ("nonwf", dict(n=2, clauses=[[1, 2], [0, 1]], args=[FIXED, {"kind": "list", "v": [2, 1]}, FIXED])),
    ("nonwf", dict(n=2, clauses=[[1, 2], [-5, 7]], args=[FIXED, {"kind": "list", "v": [2, 1]}, FIXED])),
    ("nonwf", dict(n=2, clauses=[[1, 2], [-3, -4]], args=[{"kind": "list", "v": [-1, 1]}, FIXED, {"kind": "list", "v": [1, 0]}])),
    ("nonwf", dict(n=2, clauses=[[0], [1, 7]], args=[FIXED, FIXED, {"kind": "list", "v": [1, 0]}])),
    ("header", dict(n=1, clauses=[[1]], header=[])),
    ("header", dict(n=1, clauses=[[1]], header=[["description", "x"]])),
    ("header", dict(n=1, clauses=[[1]], header=[["a", "b"], ["description", "d (reshuffled)"], ["transformation 1", "t"]])),
    ("header", dict(n=1, clauses=[[1]], header=[["transformation 2", "t"]])),
    ("header", dict(n=1, clauses=[[1]], header=[["transformation 1", "t"], ["transformation 3", "t"]])),
    ("header", dict(n=1, clauses=[[1]], header=[["transformation {}".format(i), "t"] for i in range(1, 11)])),
    ("header", dict(n=1, clauses=[[1]], header=[["transformation 01", "t"], ["Transformation 1", "t"], ["transformation 1 ", "t"]])),
    ("nonint", dict(n=3, clauses=[[1, -2], [2, 3], [-1], []], which=0, pos=0,
                    args=[{"kind": "list", "v": [1, -1, 1]}, {"kind": "list", "v": [2, 3, 1]}, {"kind": "list", "v": [3, 0, 1, 2]}])),
    ("nonint", dict(n=3, clauses=[[1, -2], [2, 3], [-1], []], which=1, pos=2,
                    args=[FIXED, {"kind": "list", "v": [1, 2, 3]}, FIXED])),
    ("nonint", dict(n=3, clauses=[[1, -2], [2, 3], [-1], []], which=2, pos=3,
                    args=[FIXED, FIXED, {"kind": "list", "v": [0, 1, 2, 3]}])),
    ("tfamily", dict(family=["php", 3, 2], args=[SHUFFLE] * 3, toolseed=5, seed=11)),
    ("tfamily", dict(family=["op", 3], args=[FIXED, SHUFFLE, FIXED], toolseed=0, seed=12)),
    ("tfamily", dict(family=["and", 2, 2], args=[SHUFFLE, FIXED, SHUFFLE], toolseed=7, seed=13)),
]


def cases(ctx):
    tier, seed = ctx["tier"], ctx["seed"]
    rng = common.sub_rng(seed, "C09")
    quick = tier == "quick"
    maxn, maxm = (9, 12) if quick else (14, 40)
    infos = list(CORPUS)
    for sw in range(8):                                     # the eight switch combinations, library + both tools
        args = [FIXED if (sw >> k) & 1 else SHUFFLE for k in range(3)]
        for suite in ("switch", "cnfshuffle", "tshuffle"):
            infos.append((suite, dict(n=3, clauses=[[1, -2], [2, 3], [-1], [], [3, -1, 2]], args=args, seed=sw + 1, toolseed=40 + sw)))
    reps = 1000 if quick else 6000
    for _ in range(reps):                                   # explicit, valid
        n, cl = gen_formula(rng, maxn, maxm)
        args = [valid_spec(rng, k, n, len(cl)) for k in range(3)]
        infos.append(("explicit", dict(n=n, clauses=cl, args=args)))
    for _ in range(reps):                                   # explicit, one to three invalid components
        n, cl = gen_formula(rng, maxn, maxm)
        args = [valid_spec(rng, k, n, len(cl)) for k in range(3)]
        for k in rng.sample(range(3), rng.choice([1, 1, 1, 2, 3])):
            args[k] = invalid_spec(rng, k, n, len(cl))
        for k in range(3):                                  # the rest may also be switched
            if rng.random() < .15 and spec_valid(args[k], k, n, len(cl)):
                args[k] = rng.choice([FIXED, SHUFFLE])
        infos.append(("explicit", dict(n=n, clauses=cl, args=args, seed=rng.randrange(1 << 30))))
    for _ in range(reps):                                   # switches and mixes, random seeds
        n, cl = gen_formula(rng, maxn, maxm)
        args = []
        for k in range(3):
            r = rng.random()
            args.append(FIXED if r < .3 else SHUFFLE if r < .8 else valid_spec(rng, k, n, len(cl)))
        s = rng.choice([0, 1, rng.randrange(100), rng.randrange(1 << 30), rng.randrange(1 << 62)])
        infos.append(("switch", dict(n=n, clauses=cl, args=args, seed=s)))
    for _ in range(reps // 4):                              # the two tools
        n, cl = gen_formula(rng, maxn, maxm)
        args = [rng.choice([FIXED, SHUFFLE, SHUFFLE]) for _ in range(3)]
        ts = rng.choice([0, 1, rng.randrange(1000), rng.randrange(1 << 30)])
        infos.append((rng.choice(["cnfshuffle", "tshuffle"]),
                      dict(n=n, clauses=cl, args=args, seed=rng.randrange(1 << 30), toolseed=ts)))
    for _ in range(reps // 8):                              # non-well-formed input (check=False): correspondence only
        n, cl = gen_formula(rng, min(maxn, 5), 6)
        if not cl:
            cl = [[1]]
        c = cl[rng.randrange(len(cl))]
        c.insert(rng.randrange(len(c) + 1), rng.choice([0, n + 1, -(n + 1), 2 * n, -2 * n, 2 * n + 1, -(2 * n + 1), 2 * n + 2, -(2 * n + 2)]))
        args = [rng.choice([FIXED, SHUFFLE, valid_spec(rng, k, n, len(cl))]) for k in range(3)]
        infos.append(("nonwf", dict(n=n, clauses=cl, args=args, seed=rng.randrange(1 << 30))))
    for _ in range(reps // 10):                             # headers
        items, keys = [], set()
        for _ in range(rng.randrange(6)):
            k = rng.choice(["description", "generator", "transformation 1", "transformation 2", "transformation 3",
                            "transformation 4", "transformation 10", "x", "transformation", "transformation 0"])
            if k not in keys:
                keys.add(k)
                items.append([k, rng.choice(["", "v", "a b", "Formula (reshuffled)"])])
        infos.append(("header", dict(n=2, clauses=[[1, -2]], header=items, seed=rng.randrange(100))))
    # the same argument objects passed to several calls, edited in place in between: minimal shapes, then random batches
    L = lambda v: {"kind": "list", "v": v}
    f3 = [[1, -2], [2, 3], [-1], []]
    for which, first, then in ((1, [2, 3, 1], [3, 3, 1]), (1, [2, 3, 1], [2, 4, 1]), (1, [2, 3, 1], [3, 2, 1]), (1, [3, 3, 1], [3, 2, 1]),
                               (0, [1, -1, 1], [1, 2, 1]), (0, [1, -1, 1], [1, 0, 1]), (0, [1, -1, 1], [-1, -1, 1]), (0, [1, 2, 1], [1, 1, 1]),
                               (2, [3, 0, 1, 2], [3, 0, 1, 1]), (2, [3, 0, 1, 2], [3, 0, 1, 4]), (2, [3, 0, 1, 2], [2, 0, 1, 3]), (2, [0, 0, 1, 2], [0, 3, 1, 2])):
        args = [L([1, 1, -1]), L([1, 2, 3]), L([0, 1, 2, 3])]
        args[which] = L(first)
        calls = [{"edits": [], "f": 0}, {"edits": edits_towards(which, first, then, rng), "f": 0}]
        for same in (False, True):
            infos.append(("reuse", dict(n=3, formulas=[f3], args=args, calls=calls, same_formula=same, at=1, seed=3)))
    infos.append(("reuse", dict(n=3, formulas=[f3], args=[L([1, -1, 1]), L([2, 3, 1]), FIXED], at=2, seed=4,
                                calls=[{"edits": []}, {"edits": [[1, "append", 4], [0, "append", 1]]}, {"edits": [[1, "pop"]]}])))
    infos.append(("reuse", dict(n=1, formulas=[[[1], [-1]]], args=[L([1]), L([1]), FIXED], alias=[[0, 1]], at=1, seed=5,
                                calls=[{"edits": []}, {"edits": [[0, "set", 0, -1]]}])))
    for _ in range(reps // 8):
        b = gen_reuse(rng)
        for at in range(len(b["calls"])):
            infos.append(("reuse", dict(b, at=at)))
    fams = [["php", 3, 2], ["php", 4, 3], ["op", 3], ["tseitin", "first", "complete", 4], ["and", 2, 3], ["or", 3, 0], ["parity", 4],
            ["count", 4, 2], ["ram", 3, 3, 5], ["peb", "pyramid", 2]]
    for _ in range(12 if quick else 120):
        sw = [rng.random() < .4 for _ in range(3)]
        infos.append(("tfamily", dict(family=rng.choice(fams), args=[FIXED if on else SHUFFLE for on in sw],
                                      toolseed=rng.choice([0, 3, rng.randrange(1 << 20)]), seed=rng.randrange(1 << 30))))
    for suite, info in infos:
        yield build(suite, info)


# ------------------------------------------------------------------ failing-input search
def _fails(case):
    common.run_impl(case)
    return common.run_oracle(case)


_SEARCH_BUDGET = [4]


def search(ctx, case):
    """the correspondence broke on `case`: look for an input on which the PROPERTY fails, first the case itself,
    then its neighbourhood (sub-formulas, other seeds, other switch settings)"""
    r = _fails(case)
    if r is not None:
        return {"suite": case.suite, "info": case.info, "failure": r}
    info = dict(case.info or {})
    if case.suite in ("header", "nonint", "tfamily", "nonwf", "reuse"):
        return None
    if _SEARCH_BUDGET[0] <= 0:          # the neighbourhood is searched for the first few disagreements only
        return None
    _SEARCH_BUDGET[0] -= 1
    rng = common.sub_rng(ctx["seed"], "C09-search", case.req)
    n, cl = info.get("n", 0), [list(c) for c in info.get("clauses", [])]
    for t in range(300):
        i2 = dict(info)
        i2["seed"] = rng.randrange(1 << 30)
        if t % 3 == 1:
            i2["args"] = [rng.choice([FIXED, SHUFFLE]) for _ in range(3)]
        if t % 3 == 2:
            n2, cl2 = gen_formula(rng, 5, 5)
            i2.update(n=n2, clauses=cl2, args=[rng.choice([FIXED, SHUFFLE, valid_spec(rng, k, n2, len(cl2))]) for k in range(3)])
        suite = case.suite if t % 3 != 2 else "switch"
        c2 = build(suite, i2)
        r = _fails(c2)
        if r is not None:
            return {"suite": suite, "info": i2, "failure": r}
    return None


def search_global(ctx):
    ctx2 = dict(ctx)
    ctx2["tier"] = "quick"
    for c in cases(ctx2):
        r = _fails(c)
        if r is not None:
            return {"suite": c.suite, "info": c.info, "failure": r}
    return None
