"""C07 (whole runs) — correspondence for the table-driven models of `Cli/PhaseTable.lean` and `Cli/Run.lean`.

Suites
  clirun     : a real run of `cnfgen|pbgen … randkcnf | randkxor | kcolor | tseitin | php | domset | kclique …` (graph arguments gnp /
               gnm / gnd / bipartite samplers / files / `save`, `-T` chains) in this process (stdout captured) with every call of
               the `random` module RECORDED (request and answer, in order; the calls networkx makes for `gnp` included).  The
               recorded draws are handed to the Lean model of the whole run (`cliRun`), which must (a) ask for exactly these
               draws, in this order, with these arguments — a different request is a `stuck`/`DrawMismatch`, an unused or
               missing draw shows in the counts — and (b) produce the same text, byte for byte (header included).
               Oracle: the same command line with `--seed` from two different initial generator states gives the same text.
  shufflerun : the same for `cnfshuffle` (formula on stdin): recorded `random.choice` values and shuffled lists replayed by
               `shuffleRun`, same text byte for byte; seeds are TOKENS here (`type=str`), the empty token included.
  phasetrace : the generator events of a real run of cnfgen / pbgen / cnfshuffle (parse window, random.seed calls with their
               argument, blocks of draws) against the trace the phase table regenerated from the source predicts.
  seededgraph: the six graph generators of cnfgen/graphs.py with a `seed` parameter against their model
               (`Rand/Seeded.lean`: random.seed(seed) first, then the sampler), recorded draws replayed; oracle: same seed,
               another generator state, same graph.
  seededlib  : the library generators with a `seed` parameter found by the translator are exactly the ones this module
               knows how to call; each is called twice with the same seed from different generator states (oracle).
"""
import contextlib
import io
import os
import shutil
import tempfile
import random
import sys
from fractions import Fraction

from harness import common
from harness.common import Case, req, ok, enc_list, enc_str, enc_pairs

import cnfgen
import networkx
from cnfgen import graphs
import importlib
tool_cnfgen = importlib.import_module("cnfgen.clitools.cnfgen")
tool_pbgen = importlib.import_module("cnfgen.clitools.pbgen")
tool_shuffle = importlib.import_module("cnfgen.clitools.cnfshuffle")
tool_cmdline = importlib.import_module("cnfgen.clitools.cmdline")
graph_build = importlib.import_module("cnfgen.clitools.graph_build")
from cnfgen.clitools.cmdline import CLIError

RULE = ("clirun: randkcnf/randkxor [-p] over k,n,m incl. dense and impossible requests; kcolor over gnp N p [t] / empty N / "
        "complete N with plantclique/addedges/splitedges; kcolor/tseitin (6 charge words, shortcut N [d])/domset/kclique over "
        "gnm/gnd/gnp with modifiers; php [--functional] [--onto] over glrd/glrm/glrp/regular/empty with plantbiclique/addedges; "
        "-T chains of shuffle/xorcomp/majcomp/xor/or/maj/flip (valid and invalid) after 6 base formulas; each with --seed/-S {0,1,-5,2^31,random}, without seed, with -q; "
        "distinct = distinct argv; phasetrace: every random sub-command x tool")
TRUSTED_EXTRA = ["tools/extract_phases.py (ast translator: phase order of cli(), call sites of random, seeded generators, "
                 "static hazards -> Generated/Phases.lean)",
                 "lean/CnfgenModel/Cli/HazardReview.lean (reviewed snapshot of the static hazards, one justification per entry)"]
ASSUMPTIONS = ["random.seed(s) installs a state that is a function of s only (sigma)",
               "networkx.gnp_random_graph draws one random() per pair of combinations(range(n), 2) from the generator it is "
               "given (checked on every gnp case: the recorded draws are replayed by the model)",
               "networkx.gnm_random_graph draws through seed.choice(list(G)) only, random_regular_graph through seed.shuffle(stubs) "
               "only (networkx 3.6.1; checked on every gnm / gnd case: the shim records them, the model of Rand/NxDraws.lean must "
               "consume exactly them)",
               "a file named on the command line is read through the path token as written (the model has no cwd): checked by "
               "running every file case in a fresh directory, and by the hazard review for os.getcwd / abspath"]

UNIT = 1 << 53
VOC_G, VOC_F, VOC_NX, VOC_SH = 0, 1, 2, 3       # vocabularies of `CliRun.RDraw`
_mod_random = random


# ------------------------------------------------------------------ recording the module-level generator
class Recording:
    """replaces seed / sample / choice / randint / random / shuffle of the MODULE `random` (what the code under test
    calls) by recording wrappers, and hands networkx a generator object whose random() is the recorded one"""
    NAMES = ("seed", "sample", "choice", "randint", "random", "shuffle")

    def __init__(self):
        self.events = []       # ("seed", a) | ("draw", phase, graph-encoding or None, formula-encoding or None)
        self.in_parse = 0
        self.unknown = []
        self.shuffle_draws = []     # every choice / shuffle in the vocabulary of the Shuffle model (None = no encoding)
        self.allow_shuffle = False
        self.stream = []       # ("seed", a) | ("draw", phase, [vocabulary] + encoding or None): ONE stream, in call order
        self.force = None

    # -- installation
    def __enter__(self):
        self.saved = {n: getattr(_mod_random, n) for n in self.NAMES}
        for n in self.NAMES:
            setattr(_mod_random, n, getattr(self, "r_" + n))
        rec = self

        class Shim(_mod_random.Random):
            """what networkx gets in place of `random._inst`: the same generator (the saved functions of the module
            ARE the bound methods of `random._inst`), every call recorded in the vocabulary of Rand/NxDraws.lean"""
            def random(self_inner):
                rec.force = VOC_G
                try:
                    return rec.r_random()
                finally:
                    rec.force = None

            def choice(self_inner, seq):
                v = rec.saved["choice"](seq)
                ok_ = list(seq) == list(range(len(seq)))
                rec._push([VOC_NX, 1, v] if ok_ else None)
                rec.events.append(("draw", "g" if rec.in_parse else "f", None, None))
                return v

            def shuffle(self_inner, x):
                before = list(x)
                rec.saved["shuffle"](x)
                rec._push([VOC_NX, 2] + enc_list(before) + enc_list(x))
                rec.events.append(("draw", "g" if rec.in_parse else "f", None, None))

            def getrandbits(self_inner, k):
                rec.unknown.append("getrandbits")
                return rec.saved_getrandbits(k)
        self.saved_getrandbits = _mod_random.getrandbits

        class NxShim:
            def __getattr__(self_inner, name):
                return getattr(networkx, name)

            def gnp_random_graph(self_inner, n, p):
                return networkx.gnp_random_graph(n, p, seed=Shim())

            def gnm_random_graph(self_inner, n, m):
                return networkx.gnm_random_graph(n, m, seed=Shim())

            def random_regular_graph(self_inner, d, n):
                return networkx.random_regular_graph(d, n, seed=Shim())
        self.saved_nx = graph_build.networkx
        graph_build.networkx = NxShim()
        # parse window of cnfgen / pbgen
        self.saved_parse = {}
        for m in (tool_cnfgen, tool_pbgen):
            orig = m.parse_command_line
            self.saved_parse[m] = orig

            def parse_wrapper(*a, _orig=orig, **kw):
                rec.in_parse += 1
                try:
                    return _orig(*a, **kw)
                finally:
                    rec.in_parse -= 1
            m.parse_command_line = parse_wrapper
        return self

    def __exit__(self, *a):
        for n, f in self.saved.items():
            setattr(_mod_random, n, f)
        graph_build.networkx = self.saved_nx
        for m, orig in self.saved_parse.items():
            m.parse_command_line = orig
        return False

    # -- wrappers
    def _caller_vocab(self):
        """the vocabulary of the sampler model that makes this call: by the module of the code under test that called
        `random.<f>` (graphs.py / graph_build.py: graph samplers; transformations/shuffle.py: Shuffle; else formula)"""
        if self.force is not None:
            return self.force
        f = sys._getframe(1)
        while f is not None and f.f_code.co_filename == __file__:
            f = f.f_back
        name = f.f_code.co_filename.replace("\\", "/") if f is not None else ""
        if name.endswith("cnfgen/graphs.py") or name.endswith("clitools/graph_build.py"):
            return VOC_G
        if name.endswith("transformations/shuffle.py"):
            return VOC_SH
        return VOC_F

    def _push(self, enc):
        self.stream.append(("draw", "g" if self.in_parse else "f", enc))

    def _add(self, genc, fenc, shenc=None):
        self.events.append(("draw", "g" if self.in_parse else "f", genc, fenc))
        v = self._caller_vocab()
        enc = {VOC_G: genc, VOC_F: fenc, VOC_SH: shenc}[v]
        self._push([v] + enc if enc is not None else None)

    def r_seed(self, a=None, *rest, **kw):
        self.events.append(("seed", a))
        self.stream.append(("seed", a))
        return self.saved["seed"](a, *rest, **kw)

    def r_sample(self, population, k, **kw):
        # positions of the chosen elements: random.sample picks POSITIONS, so the same state gives the same positions
        # on range(len(population)) (checked); elements need not be hashable (lists of (X, b) parities)
        st = _mod_random.getstate()
        res = self.saved["sample"](population, k, **kw)      # raises like the real thing
        n = len(population)
        _mod_random.setstate(st)
        idx = self.saved["sample"](range(n), k)
        if [population[i] for i in idx] != list(res):
            raise RuntimeError("harness: random.sample is not positional")
        first = population[0] if n else None
        if isinstance(population, range) or isinstance(first, int):
            genc = [0] + enc_list(res)
        elif all(isinstance(x, tuple) and len(x) == 2 and all(isinstance(y, int) for y in x) for x in res):
            genc = [1] + enc_pairs(res)        # lists of edges (an empty list of edges included)
        else:
            genc = None
        self._add(genc, [0, n, k] + enc_list(idx))
        return res

    def r_choice(self, seq):
        v = self.saved["choice"](seq)
        i = next(j for j, x in enumerate(seq) if x is v or x == v)
        self._add(None, [1, len(seq), i], [0, v] if isinstance(v, int) else None)
        self.shuffle_draws.append([0, v] if isinstance(v, int) else None)
        return v

    def r_randint(self, a, b):
        v = self.saved["randint"](a, b)
        self._add([2, v], [2, a, b, v])
        return v

    def r_random(self):
        x = self.saved["random"]()
        num = int(x * UNIT)
        self._add([3, num], [3, num])
        return x

    def r_shuffle(self, x):
        r = self.saved["shuffle"](x)
        # vocabulary of Trans/Shuffle.lean: the content of the list afterwards
        shenc = [1] + enc_list(x) if all(isinstance(v, int) for v in x) else None
        self.shuffle_draws.append(shenc)
        self.events.append(("shuffle", len(self.shuffle_draws) - 1))
        in_shuffle = self._caller_vocab() == VOC_SH
        self.stream.append(("draw", "g" if self.in_parse else "f", [VOC_SH] + shenc if shenc is not None and in_shuffle else None))
        if not self.allow_shuffle and not in_shuffle:
            self.unknown.append("shuffle")
        return r


def split_streams(events):
    """(rng0, sigma, seeds): draws before the first random.seed belong to the initial state, the others to the state
    random.seed installed; graph vocabulary inside the parse window, formula vocabulary after it"""
    r0, rs, seeds = {"g": [], "f": []}, {"g": [], "f": []}, []
    bad = None
    for e in events:
        if e[0] == "seed":
            seeds.append(e[1])
            continue
        if e[0] == "shuffle":
            continue
        _, phase, genc, fenc = e
        enc = genc if phase == "g" else fenc
        if enc is None:
            bad = "a draw of the {} phase has no encoding in that vocabulary".format(phase)
            continue
        (rs if seeds else r0)[phase].append(enc)
    return r0, rs, seeds, bad


def split_stream(stream):
    """(rng0, sigma, seeds, bad, ng, nf): draws before the first random.seed belong to the initial state, the others to
    the state random.seed installed (cli() seeds a second time after parsing: the state answers the calls of the parse
    window and, from the start again, the calls made afterwards: one ordered stream for each of the two)"""
    r0, rs, seeds, bad, ng, nf = {"g": [], "f": []}, {"g": [], "f": []}, [], None, 0, 0
    for e in stream:
        if e[0] == "seed":
            seeds.append(e[1])
            continue
        _, phase, enc = e
        if phase == "g":
            ng += 1
        else:
            nf += 1
        if enc is None:
            bad = "a draw of the {} phase has no encoding in the vocabulary of its caller".format(phase)
            continue
        (rs if seeds else r0)[phase].append(enc)
    return r0, rs, seeds, bad, ng, nf


def enc_stream(ds):
    out = [len(ds)]
    for d in ds:
        out += d
    return out


def enc_rng(r):
    return enc_stream(r["g"]) + enc_stream(r["f"])


def is_floatable(tok):
    try:
        float(tok)
        return True
    except ValueError:
        return False


def enc_world(argv, files=()):
    toks = []
    for t in argv:
        if is_floatable(t) and t not in toks:
            toks.append(t)
    tab = [len(toks)]
    ftab = [len(toks)]
    for t in toks:
        try:
            iv = int(t)
            has_i = 1
        except ValueError:
            iv, has_i = 0, 0
        f = float(t)
        if f != f or f in (float("inf"), float("-inf")):
            has_f, pn, pd = 0, 0, 1
        else:
            fr = Fraction(f)
            has_f, pn, pd = 1, fr.numerator, fr.denominator
        tab += enc_str(t) + [has_i, iv, has_f, pn, pd]
        ftab += enc_str(t) + enc_str(str(f))
    base = [(k, v) for k, v in cnfgen.CNF().header.items() if k != "description"]     # the same entries for OPB()
    hdr = [len(base)]
    for k, v in base:
        hdr += enc_str(k) + enc_str(v)
    return tab + ftab + hdr + [1 if graphs.has_dot_library() else 0, 40] + enc_files(files)


def enc_files(files):
    out = [len(files)]
    for k, v in files:
        out += enc_str(k) + enc_str(v)
    return out


def enc_argv(argv):
    out = [len(argv)]
    for a in argv:
        out += enc_str(a)
    return out


def run_real(argv, pre_seed, files=None):
    """(answer string, events, text) of one real run in this process; with `files` (name -> content) the run happens in a
    fresh directory that contains exactly these files, and `rec.written` lists the files it left behind (name, text)"""
    tmp = old = None
    if files is not None:
        tmp = tempfile.mkdtemp(prefix="c07run")
        for k, v in files.items():
            with open(os.path.join(tmp, k), "w", encoding="utf-8", newline="") as f:
                f.write(v)
        old = os.getcwd()
        os.chdir(tmp)
    try:
        _mod_random.seed(pre_seed)
        for _ in range(pre_seed % 5):
            _mod_random.random()
        buf = io.StringIO()
        with Recording() as rec:
            try:
                with contextlib.redirect_stdout(buf), contextlib.redirect_stderr(io.StringIO()):
                    (tool_pbgen if argv[0] == "pbgen" else tool_cnfgen).cli(list(argv), mode="output")
                out = ("text", buf.getvalue())
            except CLIError:
                out = ("E", "cliError")
            except SystemExit:
                out = ("E", "cliError")
            except Exception as e:  # noqa
                out = ("E", "crash:" + type(e).__name__)
        rec.written = []
        if tmp is not None:
            for k in sorted(os.listdir(tmp)):
                with open(os.path.join(tmp, k), encoding="utf-8", newline="") as f:
                    txt = f.read()
                if files.get(k) != txt:
                    rec.written.append((k, txt))
    finally:
        if tmp is not None:
            os.chdir(old)
            shutil.rmtree(tmp, ignore_errors=True)
    return out, rec


class RunCase(Case):
    """the request depends on what the real run drew: it is built when first needed"""
    __slots__ = ("_argv", "_req", "_ans", "_state", "_files", "_light")

    def __init__(self, argv, cls, files=None, light=False):
        self._argv = list(argv)
        self._files = files
        self._light = light          # quick tier: the second real run (other generator state) only when the trace is suspicious
        self._req = None
        self._ans = None
        self._state = {}
        Case.__init__(self, "clirun", "", self._impl, self._oracle, cls=cls, info={"argv": list(argv)})
        self.stateless = False       # the draws are part of the request; a second run re-records them

    def _prepare(self):
        if self._req is not None:
            return
        out, rec = run_real(self._argv, 4242, self._files)
        r0, rs, seeds, bad, ng, nf = split_stream(rec.stream)
        self._state.update(out=out, seeds=seeds, bad=bad, unknown=list(rec.unknown), events=rec.events)
        self._req = req("clirun", enc_str(self._argv[0]), enc_argv(self._argv), enc_world(self._argv, sorted((self._files or {}).items())), enc_rng(r0), enc_rng(rs))
        self._state["written"] = rec.written
        if out[0] == "text":
            wr = " W {}".format(len(rec.written))
            for k, v in rec.written:
                wr += " " + " ".join(str(x) for x in enc_str(k) + enc_str(v))
            self._ans = ok("T {} {} ".format(ng, nf) + " ".join(str(ord(c)) for c in out[1]) + wr)
        else:
            self._ans = ok("E " + out[1])

    @property
    def req(self):
        self._prepare()
        return self._req

    @req.setter
    def req(self, v):
        pass

    def _impl(self):
        self._prepare()
        return self._ans

    def _oracle(self):
        self._prepare()
        st = self._state
        if st["unknown"]:
            return {"argv": self._argv, "unrecorded_generator_calls": st["unknown"][:3]}
        if st["bad"]:
            return {"argv": self._argv, "recording": st["bad"]}
        seed = seed_of(self._argv)
        if seed is None:
            return None
        # the property itself: with a seed, two runs from different hidden generator states write the same text,
        # every random.seed call uses the seed given, and nothing draws before the first of them
        # suspicious traces (a seeding with something else than the seed, a draw before the first seeding) widen the
        # comparison; they are not failures by themselves (the value drawn may be unused)
        first_seed = next((i for i, e in enumerate(st["events"]) if e[0] == "seed"), None)
        suspicious = any(s != seed for s in st["seeds"]) or \
            (st["out"][0] == "text" and any(e[0] == "draw" for e in st["events"][:first_seed]))
        for pre in ((977, 31, 5, 123456, 8) if suspicious else (() if self._light else (977,))):
            out2, rec2 = run_real(self._argv, pre, self._files)
            if out2 == st["out"] and rec2.written != st["written"]:
                return {"argv": self._argv, "saved_graph_files_differ_between_generator_states":
                        [st["written"][:1], rec2.written[:1]]}
            if out2 != st["out"]:
                a = st["out"][1].split("\n") if st["out"][0] == "text" else [st["out"][1]]
                b = out2[1].split("\n") if out2[0] == "text" else [out2[1]]
                diff = [(x, y) for x, y in zip(a, b) if x != y][:3]
                return {"argv": self._argv, "outputs_differ_between_generator_states": diff or [len(a), len(b)]}
        return None


def seed_of(argv):
    s = None
    for i, a in enumerate(argv[:-1]):
        if a in ("--seed", "-S"):
            try:
                s = int(argv[i + 1])
            except ValueError:
                pass
    return s


# ------------------------------------------------------------------ whole runs of cnfshuffle
class ShuffleRunCase(Case):
    __slots__ = ("_argv", "_text", "_req", "_ans", "_state", "_files")

    def __init__(self, argv, text, cls, files=None):
        self._argv, self._text = list(argv), text
        self._files = files
        self._req = None
        self._ans = None
        self._state = {}
        Case.__init__(self, "shufflerun", "", self._impl, self._oracle, cls=cls, info={"argv": list(argv), "text": text})
        self.stateless = False

    def _run(self, pre_seed):
        _mod_random.seed(pre_seed)
        for _ in range(pre_seed % 5):
            _mod_random.random()
        buf = io.StringIO()
        old = sys.stdin
        stdin = io.StringIO(self._text)
        stdin.name = "<stdin>"
        sys.stdin = stdin
        tmp = oldcwd = None
        if self._files is not None:
            tmp = tempfile.mkdtemp(prefix="c07sh")
            for k, v in self._files.items():
                with open(os.path.join(tmp, k), "w", encoding="utf-8", newline="") as f:
                    f.write(v)
            oldcwd = os.getcwd()
            os.chdir(tmp)
        try:
            with Recording() as rec:
                rec.allow_shuffle = True
                try:
                    with contextlib.redirect_stdout(buf), contextlib.redirect_stderr(io.StringIO()):
                        tool_shuffle.cli(list(self._argv), mode="output")
                    out = ("text", buf.getvalue())
                except (CLIError, SystemExit):
                    out = ("E", "cliError")
                except Exception as e:  # noqa
                    out = ("E", "crash:" + type(e).__name__)
            rec.written = []
            if tmp is not None:
                import gc
                gc.collect()        # argparse.FileType handles are closed by the collector
                for k in sorted(os.listdir(tmp)):
                    with open(os.path.join(tmp, k), encoding="utf-8", newline="") as f:
                        txt = f.read()
                    if self._files.get(k) != txt:
                        rec.written.append((k, txt))
        finally:
            sys.stdin = old
            if tmp is not None:
                os.chdir(oldcwd)
                shutil.rmtree(tmp, ignore_errors=True)
        return out, rec

    def _prepare(self):
        if self._req is not None:
            return
        out, rec = self._run(4242)
        # draws before the first random.seed belong to the initial state
        seeds, r0, rs, k, bad = [], [], [], 0, False
        for e in rec.events:
            if e[0] == "seed":
                seeds.append(e[1])
                continue
            d = rec.shuffle_draws[k] if k < len(rec.shuffle_draws) else None
            k += 1
            if d is None:
                bad = True
                continue
            (rs if seeds else r0).append(d)
        self._state.update(out=out, seeds=seeds, bad=bad, unknown=list(rec.unknown), n=len(r0) + len(rs), written=rec.written)
        base = [(a, b) for a, b in cnfgen.CNF().header.items() if a != "description"]
        hdr = [len(base)]
        for a, b in base:
            hdr += enc_str(a) + enc_str(b)
        self._req = req("shufflerun", enc_argv(self._argv), enc_str(self._text), enc_str("<stdin>"), hdr,
                        enc_files(sorted((self._files or {}).items())), enc_stream(r0), enc_stream(rs))
        if out[0] == "text":
            wr = " W {}".format(len(rec.written))
            for k, v in rec.written:
                wr += " " + " ".join(str(x) for x in enc_str(k) + enc_str(v))
            self._ans = ok("T {} ".format(self._state["n"]) + " ".join(str(ord(c)) for c in out[1]) + wr)
        else:
            self._ans = ok("E " + out[1])

    @property
    def req(self):
        self._prepare()
        return self._req

    @req.setter
    def req(self, v):
        pass

    def _impl(self):
        self._prepare()
        return self._ans

    def _oracle(self):
        self._prepare()
        st = self._state
        if st["unknown"] or st["bad"]:
            return {"argv": self._argv, "recording": st["unknown"][:3] or "a draw without encoding"}
        seed = None
        for i, a in enumerate(self._argv[:-1]):
            if a in ("--seed", "-S"):
                seed = self._argv[i + 1]
        if seed is None or seed == "":
            return None        # no seed (an empty token is not an integer seed): nothing is promised
        for pre in (977, 31):
            out2, rec2 = self._run(pre)
            if out2 == st["out"] and rec2.written != st["written"]:
                return {"argv": self._argv, "output_files_differ_between_generator_states": [st["written"][:1], rec2.written[:1]]}
            if out2 != st["out"]:
                a = st["out"][1].split("\n") if st["out"][0] == "text" else [st["out"][1]]
                b = out2[1].split("\n") if out2[0] == "text" else [out2[1]]
                return {"argv": self._argv, "stdin": self._text[:200],
                        "outputs_differ_between_generator_states": [(x, y) for x, y in zip(a, b) if x != y][:3]}
        return None


def shufflerun_cases(ctx):
    rng = common.sub_rng(ctx["seed"], "C07_run", "shufflerun")
    texts = [SHUFFLE_TEXT, "p cnf 0 0\n", "p cnf 3 0\n", "c a comment\np cnf 4 3\n1 2 0\n-1 -2 0\n3 -4\n0\n",
             "p cnf 2 2\n1 2 0\n", "p cnf 1 1\n2 0\n", "not a formula\n", "p cnf 5 4\n1 -2 3 -4 5 0\n0\n-5 0\n1 1 -1 0\n"]
    if ctx["tier"] == "thorough":
        for _ in range(12):
            n, m = rng.randint(1, 9), rng.randint(0, 12)
            lines = ["p cnf {} {}".format(n, m)]
            for _ in range(m):
                lines.append(" ".join(str(rng.choice([-1, 1]) * rng.randint(1, n)) for _ in range(rng.randint(0, 4))) + " 0")
            texts.append("\n".join(lines) + "\n")
    optsets = [[], ["-q"], ["-p"], ["-v"], ["-c"], ["-p", "-v", "-c"], ["--no-polarity-flips", "--quiet"], ["-v", "-c"]]
    seeds = [None, "0", "5", "-3", str(2 ** 40), "", "007"]
    out = []
    for i, t in enumerate(texts):
        for j, sd in enumerate(seeds):
            if ctx["tier"] == "quick" and (i + j) % 2 and i > 0:
                continue
            o = optsets[(i + 2 * j) % len(optsets)]
            argv = ["cnfshuffle"] + (["--seed" if j % 2 else "-S", sd] if sd is not None else []) + o
            if j % 3 == 1:
                argv = ["cnfshuffle"] + o + (["--seed", sd] if sd is not None else [])
            out.append(ShuffleRunCase(argv, t, cls="seed" if sd not in (None, "") else ("emptyseed" if sd == "" else "noseed")))
    # -i / -o: the input file is part of the environment, the output file part of the result
    files = {"in.cnf": SHUFFLE_TEXT, "bad.cnf": "p cnf 1 1\n2 0\n", "crlf.cnf": "p cnf 2 2\r\n1 -2 0\r\n2 0\r\n"}
    for k, (io_opts, sd) in enumerate([(["-i", "in.cnf"], "3"), (["-i", "in.cnf", "-o", "out.cnf"], "0"), (["-o", "out.cnf"], "-7"),
                                       (["--input", "crlf.cnf", "--output", "o2"], "11"), (["-i", "missing.cnf"], "1"),
                                       (["-i", "bad.cnf", "-o", "out.cnf"], "2"), (["-i", "-", "-o", "-"], "4"),
                                       (["-i", "in.cnf", "-o", "out.cnf"], None), (["-o", "out.cnf", "-q", "-i", "in.cnf"], "5")]):
        o = optsets[k % len(optsets)]
        argv = ["cnfshuffle"] + (["--seed", sd] if sd is not None else []) + o + io_opts
        out.append(ShuffleRunCase(argv, texts[k % 3], cls="files:" + ("seed" if sd else "noseed"), files=files))
    return out


# ------------------------------------------------------------------ generators of command lines
def seed_prefixes(rng, tier):
    out = [[], ["--seed", "0"], ["-S", str(rng.randint(1, 10 ** 9))], ["--seed", "-5"], ["-q", "--seed", str(2 ** 31)]]
    if tier == "thorough":
        out += [["--seed", "1", "-q"], ["-S", "7", "--seed", "9"], ["-v", "--seed", str(rng.randint(1, 10 ** 6))], ["-q"]]
    return out


def formula_cmds(rng, tier):
    out = []
    shapes = [(3, 5, 4), (2, 4, 0), (1, 1, 1), (2, 3, 12), (2, 3, 13), (3, 3, 8), (4, 3, 1), (1, 6, 12), (3, 7, 20), (2, 5, 30)]
    if tier == "thorough":
        shapes += [(rng.randint(1, 4), rng.randint(1, 9), rng.randint(0, 30)) for _ in range(12)] + [(3, 12, 60), (5, 9, 40)]
    for k, n, m in shapes:
        for name in ("randkcnf", "randkxor"):
            out.append([name, str(k), str(n), str(m)])
            out.append([name, "-p", str(k), str(n), str(m)])
    out += [["randkxor", "-p", "2", "7", "21"], ["randkcnf", "-p", "2", "4", "18"],      # planted, dense path
            ["randkcnf", "3", "6", "--plant", "9"], ["randkxor", "0", "3", "1"], ["randkcnf", "2", "x", "3"],
            ["randkxor", "2", "4"], ["randkcnf", "03", "+5", "4"]]
    return out


def graph_cmds(rng, tier):
    specs = [["gnp", "5", ".5"], ["gnp", "6", "0.3", "1"], ["gnp", "3", ".5", "2"], ["gnp", "4", "0"], ["gnp", "4", "1"],
             ["gnp", "4", "1.0", "plantclique", "2"], ["gnp", "7", ".4", "addedges", "3"], ["gnp", "6", ".5", "splitedges", "2"],
             ["gnp", "6", "5e-1", "plantclique", "3", "addedges", "2", "splitedges", "1"],
             ["gnp", "6", ".5", "splitedges", "1", "addedges", "2", "plantclique", "3"],
             ["empty", "6", "addedges", "7"], ["empty", "5", "addedges", "10"], ["empty", "5", "addedges", "11"],
             ["empty", "4", "plantclique", "4"], ["empty", "4", "plantclique", "5"], ["empty", "6", "plantclique", "0"],
             ["complete", "5", "splitedges", "3"], ["complete", "4", "addedges", "0"], ["complete", "4", "addedges", "1"],
             ["empty", "3"], ["complete", "1"], ["gnp", "1", ".5"], ["gnp", "0", ".5"], ["gnp", "5", "1.5"], ["gnp", "5", "nan"],
             ["gnp", "5", ".5", "0"], ["gnp", "2", ".5", "3", "addedges", "1"], ["empty", "6", "addedges", "2", "addedges", "3"],
             ["empty", "6", "splitedges", "1"], ["gnp", "x", ".5"], ["empty"], ["gnp", "5", ".5", "plantclique"],
             ["gnp", "8", "0.25", "2", "plantclique", "3"], ["gnp", "12", ".5"]]
    if tier == "thorough":
        for _ in range(25):
            n = rng.randint(1, 9)
            s = rng.choice([["gnp", str(n), str(rng.choice([0.1, 0.5, 0.9, 0.25]))],
                            ["gnp", str(rng.randint(1, 4)), ".5", str(rng.randint(1, 3))], ["empty", str(n)], ["complete", str(n)]])
            for opt in rng.sample(["plantclique", "addedges", "splitedges"], rng.randint(0, 3)):
                s = s + [opt, str(rng.randint(0, 4))]
            specs.append(s)
    out = []
    for s in specs:
        out.append(["kcolor", str(rng.choice([1, 2, 3])), *s])
    out += [["kcolor", "0", "gnp", "4", ".5"], ["kcolor", "2"], ["kcolor", "-1", "empty", "3"]]
    return out


def simple_specs(rng, tier):
    """random simple graphs through networkx (gnm: seed.choice pairs; gnd: seed.shuffle of the stubs, with restarts) and the
    in-house ones, with modifiers"""
    specs = [["gnm", "5", "4"], ["gnm", "6", "9", "plantclique", "3"], ["gnm", "4", "6"], ["gnm", "1", "0"], ["gnm", "5", "0"],
             ["gnm", "4", "7"], ["gnm", "0", "0"], ["gnm", "5", "3", "addedges", "2", "splitedges", "1"], ["gnm", "x", "2"],
             ["gnd", "6", "3"], ["gnd", "4", "2"], ["gnd", "5", "3"], ["gnd", "4", "4"], ["gnd", "8", "3", "addedges", "2"],
             ["gnd", "5", "2", "plantclique", "3"], ["gnd", "6", "0"], ["gnd", "7", "4", "splitedges", "2"], ["gnd", "6"],
             ["gnp", "5", ".5"], ["gnp", "4", ".5", "2"], ["empty", "4", "addedges", "3"], ["complete", "4"]]
    if tier == "thorough":
        for _ in range(20):
            n = rng.randint(1, 9)
            sp = rng.choice([["gnm", str(n), str(rng.randint(0, n * (n - 1) // 2 + 1))], ["gnd", str(n), str(rng.randint(0, n))],
                             ["gnd", str(2 * rng.randint(1, 5)), str(rng.randint(1, 5))]])
            for opt in rng.sample(["plantclique", "addedges", "splitedges"], rng.randint(0, 2)):
                sp = sp + [opt, str(rng.randint(0, 3))]
            specs.append(sp)
    return specs


def bip_specs(rng, tier):
    specs = [["glrd", "4", "3", "2"], ["glrd", "3", "3", "3"], ["glrd", "3", "2", "0"], ["glrd", "3", "2", "3"],
             ["glrm", "3", "3", "4"], ["glrm", "3", "2", "6"], ["glrm", "4", "4", "2", "addedges", "2"], ["glrm", "2", "2", "5"],
             ["regular", "4", "4", "2"], ["regular", "6", "3", "2"], ["regular", "3", "2", "1"], ["regular", "4", "2", "1"],
             ["glrp", "3", "3", ".5"], ["glrp", "3", "2", "1", "plantbiclique", "2", "1"], ["glrp", "2", "3", "0"],
             ["glrd", "4", "4", "1", "plantbiclique", "2", "2", "addedges", "3"], ["empty", "3", "2", "addedges", "4"],
             ["empty", "2", "2"], ["glrd", "4", "3"], ["glrd", "0", "3", "1"]]
    if tier == "thorough":
        for _ in range(16):
            l, r = rng.randint(1, 6), rng.randint(1, 6)
            sp = rng.choice([["glrd", str(l), str(r), str(rng.randint(0, r))], ["glrm", str(l), str(r), str(rng.randint(0, l * r))],
                             ["regular", str(l), str(r), str(rng.randint(0, r))], ["glrp", str(l), str(r), str(rng.choice([.25, .5, .75]))]])
            if rng.random() < .4:
                sp += ["addedges", str(rng.randint(0, 3))]
            specs.append(sp)
    return specs


def family_cmds(rng, tier):
    """the other families of the fragment on random graphs"""
    S, B = simple_specs(rng, tier), bip_specs(rng, tier)
    charges = ["random", "randomodd", "randomeven", "first", "zero", "one"]
    out = []
    for i, sp in enumerate(S):
        fam = i % 4
        if fam == 0 or tier == "thorough":
            out.append(["kcolor", str(rng.choice([2, 3]))] + sp)
        if fam == 1 or tier == "thorough":
            out.append(["tseitin", charges[i % len(charges)]] + sp)
        if fam == 2 or tier == "thorough":
            out.append(["domset"] + (["--alternative"] if i % 3 == 0 else []) + [str(rng.choice([1, 2]))] + sp)
        if fam == 3 or tier == "thorough":
            out.append(["kclique", str(rng.choice([2, 3]))] + sp)
    for i, c in enumerate(charges):
        out.append(["tseitin", c, "gnm", "5", "5"])
    out += [["tseitin", "random", "gnd", "6", "3"], ["tseitin", "randomodd", "gnp", "5", ".6", "addedges", "1"],
            ["tseitin", "6", "3"], ["tseitin", "5"], ["tseitin", "5", "3"], ["tseitin", "4", "4"], ["tseitin", "8"],
            ["tseitin", "bogus", "gnm", "3", "2"], ["tseitin", "random", "empty", "3"], ["domset", "0", "gnm", "4", "3"],
            ["kclique", "-1", "gnd", "4", "2"]]
    opts = [[], ["--functional"], ["--onto"], ["--functional", "--onto"]]
    for i, sp in enumerate(B):
        out.append(["php"] + opts[i % 4] + sp)
    return out


def chain_cmds(rng, tier):
    """`-T` chains: the random transformations (and some deterministic ones between them) after random formulas"""
    bases = [["randkcnf", "3", "6", "5"], ["kcolor", "2", "gnm", "4", "4"], ["randkxor", "2", "5", "3"], ["tseitin", "random", "gnd", "4", "2"],
             ["php", "glrd", "3", "3", "2"], ["kcolor", "2", "gnp", "4", ".5", "addedges", "1"]]
    chains = [["-T", "shuffle"], ["-T", "xorcomp", "4", "2"], ["-T", "majcomp", "5", "3"], ["-T", "shuffle", "-T", "shuffle"],
              ["-T", "xorcomp", "5", "2", "-T", "shuffle"], ["-T", "shuffle", "-T", "majcomp", "4"], ["-T", "xor", "2", "-T", "shuffle"],
              ["-T", "xorcomp", "4", "2", "-T", "majcomp", "3", "-T", "shuffle"], ["-T", "flip", "-T", "xorcomp", "3", "1"],
              ["-T", "or", "2", "-T", "majcomp", "6", "3", "-T", "flip"], ["-T", "xorcomp", "2", "3"], ["-T", "majcomp", "0"],
              ["-T"], ["-T", "shuffle", "-T"], ["-T", "xorcomp", "4", "0"], ["-T", "flip", "-T", "majcomp", "4"]]
    out = []
    for i, ch in enumerate(chains):
        for j, b in enumerate(bases):
            if tier == "thorough" or (i + j) % 4 == 0:
                out.append(b + ch)
    out.append(["randkcnf", "2", "0", "0", "-T", "xorcomp", "3", "2"])      # no variables: obtain_glrd refuses L = 0
    return out


def _graph_text(kind, fmt, n, edges):
    """a graph file written by the library itself"""
    if kind == "simple":
        G = graphs.Graph(n)
    else:
        G = graphs.BipartiteGraph(*n)
    for e in edges:
        G.add_edge(*e)
    G.name = "a graph of the harness"
    buf = io.StringIO()
    graphs.writeGraph(G, buf, kind, fmt)
    return buf.getvalue()


def file_cmds(rng, tier):
    """(sub-command words, files): `save` and graph FILE arguments; the content of the files is part of the environment"""
    n = rng.randint(4, 6)
    es = sorted(set(tuple(sorted(rng.sample(range(1, n + 1), 2))) for _ in range(n + 1)))
    bes = sorted(set((rng.randint(1, 3), rng.randint(1, 3)) for _ in range(5)))
    files = {"g1.kthlist": _graph_text("simple", "kthlist", n, es), "g2.dimacs": _graph_text("simple", "dimacs", n, es),
             "g3.txt": _graph_text("simple", "kthlist", n, es), "b1.matrix": _graph_text("bipartite", "matrix", (3, 3), bes),
             "b2.kthlist": _graph_text("bipartite", "kthlist", (3, 3), bes), "bad.kthlist": "c nothing\n3 x\n",
             "crlf.dimacs": _graph_text("simple", "dimacs", n, es).replace("\n", "\r\n")}
    cmds = [["kcolor", "2", "gnm", "4", "3", "save", "out.kthlist"], ["kcolor", "2", "gnd", "4", "2", "save", "dimacs", "out.x"],
            ["kclique", "2", "gnp", "4", ".5", "addedges", "1", "save", "out.dimacs"], ["domset", "1", "gnm", "4", "2", "save", "out.unknown"],
            ["php", "glrd", "3", "2", "1", "save", "out.matrix"], ["php", "glrm", "2", "3", "3", "addedges", "1", "save", "kthlist", "out"],
            ["tseitin", "random", "gnm", "4", "4", "plantclique", "3", "save", "out.kthlist"], ["kcolor", "2", "gnm", "3", "2", "save"],
            ["kcolor", "2", "g1.kthlist"], ["kcolor", "2", "kthlist", "g3.txt"], ["domset", "1", "g2.dimacs", "addedges", "1"],
            ["kclique", "3", "g1.kthlist", "splitedges", "1"], ["php", "b1.matrix"], ["php", "--onto", "kthlist", "b2.kthlist", "addedges", "2"],
            ["php", "b1.matrix", "plantbiclique", "1", "2"], ["kcolor", "2", "bad.kthlist"], ["kcolor", "2", "g3.txt"],
            ["kclique", "2", "crlf.dimacs"], ["kcolor", "2", "matrix", "b1.matrix"],
            ["kcolor", "2", "g1.kthlist", "splitedges", "2", "save", "out.dimacs"], ["php", "b2.kthlist", "save", "out.matrix"],
            ["kcolor", "2", "g2.dimacs", "addedges", "1", "save", "g2.dimacs"], ["kcolor", "2", "gnm", "4", "3", "save", "out.kthlist", "-T", "shuffle"]]
    return [(c, files) for c in cmds]


def clirun_cases(ctx):
    rng = common.sub_rng(ctx["seed"], "C07_run", "clirun")
    tier = ctx["tier"]
    prefixes = seed_prefixes(rng, tier)
    out = []
    for i, (c, files) in enumerate(file_cmds(rng, tier)):
        p = prefixes[1 + i % (len(prefixes) - 1)]
        out.append(RunCase(["cnfgen"] + p + c, cls="files:seed", files=files))
        if i % 8 == 0 or tier == "thorough":
            out.append(RunCase(["cnfgen"] + c, cls="files:noseed", files=files))
        if i % 8 == 1 or tier == "thorough":
            out.append(RunCase(["pbgen"] + p + c, cls="pbgen:files:seed", files=files))
    # the extended fragment: every command with a seed; every third one also without
    for i, c in enumerate(family_cmds(rng, tier) + chain_cmds(rng, tier)):
        p = prefixes[1 + i % (len(prefixes) - 1)]
        tag = c[0] + ("+T" if "-T" in c else "")
        out.append(RunCase(["cnfgen"] + p + c, cls=tag + ":seed", light=(tier == "quick" and i % 2 == 1)))
        if i % 8 == 0 or tier == "thorough":
            out.append(RunCase(["cnfgen"] + c, cls=tag + ":noseed"))
        if (tier == "thorough" or i % 8 == 0) and "-T" not in c:
            out.append(RunCase(["pbgen"] + p + c, cls="pbgen:" + tag + ":seed"))
    out.append(RunCase(["pbgen", "--seed", "3", "kcolor", "2", "gnm", "3", "2", "-T", "shuffle"], cls="pbgen:+T"))
    cmds = formula_cmds(rng, tier) + graph_cmds(rng, tier)
    for i, c in enumerate(cmds):
        pres = prefixes if tier == "thorough" else ([prefixes[0]] if i % 2 else []) + [prefixes[1 + i % (len(prefixes) - 1)]]
        for p in pres:
            out.append(RunCase(["cnfgen"] + p + c, cls=c[0] + (":seed" if any(x in p for x in ("--seed", "-S")) else ":noseed")))
        # pbgen: the same sub-commands, OPB rendering
        if tier == "thorough" or i % 3 == 0:
            p = prefixes[1 + (i // 3) % (len(prefixes) - 1)]
            out.append(RunCase(["pbgen"] + p + c, cls="pbgen:" + c[0] + ":seed"))
            if i % 6 == 0:
                out.append(RunCase(["pbgen"] + c, cls="pbgen:" + c[0] + ":noseed"))
    return out


# ------------------------------------------------------------------ phase traces
class PrimRecorder:
    """seed calls and primitive draws of the generator object, with the parse window of the tool"""

    def __init__(self, tool):
        self.events = []
        self.tool = tool
        self.inst = _mod_random._inst
        self.orig_cls = self.inst.__class__
        rec = self

        class Rec(self.orig_cls):
            def seed(self, a=None, version=2):
                rec.events.append(("seed", a))
                return super().seed(a, version)

            def random(self):
                rec.events.append(("draw",))
                return super().random()

            def getrandbits(self, k):
                rec.events.append(("draw",))
                return super().getrandbits(k)
        self.cls = Rec
        self.depth = 0

    def __enter__(self):
        rec = self
        self.inst.__class__ = self.cls
        self.saved = (_mod_random.seed, _mod_random.random, _mod_random.getrandbits)
        _mod_random.seed = self.inst.seed
        _mod_random.random = self.inst.random
        _mod_random.getrandbits = self.inst.getrandbits

        def window(f):
            def g(*a, **kw):
                rec.depth += 1
                if rec.depth == 1:
                    rec.events.append(("P(",))
                try:
                    return f(*a, **kw)
                finally:
                    rec.depth -= 1
                    if rec.depth == 0:
                        rec.events.append((")P",))
            return g
        if self.tool == "cnfgen":
            self.target, self.name = tool_cnfgen, "parse_command_line"
        elif self.tool == "pbgen":
            self.target, self.name = tool_pbgen, "parse_command_line"
        else:
            self.target, self.name = tool_cmdline.CLIParser, "parse_args"
        self.orig = getattr(self.target, self.name)
        setattr(self.target, self.name, window(self.orig))
        return self

    def __exit__(self, *a):
        setattr(self.target, self.name, self.orig)
        _mod_random.seed, _mod_random.random, _mod_random.getrandbits = self.saved
        self.inst.__class__ = self.orig_cls


SHUFFLE_TEXT = "p cnf 6 5\n1 -2 3 0\n-1 4 0\n2 5 -6 0\n-3 -4 0\n6 0\n"
TRACE_CMDS = [["randkcnf", "3", "8", "10"], ["randkxor", "3", "8", "6", "-p"], ["tseitin", "6"], ["tseitin", "random", "gnp", "7", ".5"],
              ["kcolor", "3", "gnm", "6", "7"], ["kcolor", "3", "complete", "4"], ["php", "6", "4", "2"], ["php", "glrd", "5", "6", "2"],
              ["subsetcard", "5"], ["op", "6", "3"], ["pitfall", "4", "3", "2", "2", "2"], ["stone", "2", "pyramid", "2", "--sparse", "1"],
              ["kclique", "3", "gnp", "6", ".5", "plantclique", "3", "addedges", "2"], ["php", "4", "3"],
              ["iso", "gnp", "5", ".5", "-e", "gnm", "5", "4"]]
TRACE_T = [["php", "4", "3", "-T", "shuffle"], ["op", "4", "-T", "xorcomp", "3"], ["kcolor", "2", "gnp", "5", ".5", "-T", "shuffle"],
           ["php", "3", "2", "-T", "xorcomp", "glrd", "6", "4", "2"]]


def trace_case(tool, cmd, seed):
    """seed: None or an int"""
    argv = [tool] + (["--seed", str(seed)] if seed is not None else []) + cmd
    state = {}

    def run():
        _mod_random.seed(13579)
        old = sys.stdin
        if tool == "cnfshuffle":
            sys.stdin = io.StringIO(SHUFFLE_TEXT)
        try:
            with PrimRecorder(tool) as r:
                with contextlib.redirect_stderr(io.StringIO()), contextlib.redirect_stdout(io.StringIO()):
                    cli = {"cnfgen": tool_cnfgen.cli, "pbgen": tool_pbgen.cli, "cnfshuffle": tool_shuffle.cli}[tool]
                    F = cli(list(argv), mode="formula")
        finally:
            sys.stdin = old
        return r.events, F

    def shape(events):
        toks, pd, ld, inp = [], 0, 0, False
        for e in events:
            if e[0] == "P(":
                inp = True
                toks.append("P(")
            elif e[0] == ")P":
                inp = False
                toks.append(")P")
            elif e[0] == "seed":
                toks.append("seed" if (seed is not None and str(e[1]) == str(seed)) else "seedOther")
            else:
                if inp:
                    pd += 1
                else:
                    ld += 1
                if not toks or toks[-1] != "draws":
                    toks.append("draws")
        return toks, pd, ld

    def prepare():
        if "toks" not in state:
            ev, F = run()
            state["toks"], state["pd"], state["ld"] = shape(ev)
            state["hdr"] = dict(F.header)

    class C(Case):
        __slots__ = ()

        @property
        def req(self):
            prepare()
            later = state["ld"]
            return req("phasetrace", enc_str(tool), seed is not None, seed if seed is not None else 0, state["pd"],
                       0 if tool == "cnfshuffle" else later, 0, later if tool == "cnfshuffle" else 0)

        @req.setter
        def req(self, v):
            pass

    def impl():
        prepare()
        return ok(" ".join(state["toks"]))

    def sig(F):
        return (type(F).__name__, F.number_of_variables(), [list(c) for c in F], list(F.header.items()))

    def oracle():
        prepare()
        toks = state["toks"]
        if seed is None:
            return None
        if tool in ("cnfgen", "pbgen") and str(state["hdr"].get("random seed")) != str(seed):
            return {"argv": argv, "header_random_seed": str(state["hdr"].get("random seed"))}
        # the property: the same formula from every hidden initial state; a suspicious trace (seeding with something
        # else, a draw before the first seeding) is not a failure by itself, it widens the comparison
        suspicious = "seedOther" in toks or ("draws" in toks and ("seed" not in toks or toks.index("draws") < toks.index("seed")))
        if not suspicious:
            return None
        sigs = []
        for pre in (1, 22, 333, 4444):
            _mod_random.seed(pre)
            for _ in range(pre % 7):
                _mod_random.random()
            old = sys.stdin
            if tool == "cnfshuffle":
                sys.stdin = io.StringIO(SHUFFLE_TEXT)
            try:
                with contextlib.redirect_stderr(io.StringIO()), contextlib.redirect_stdout(io.StringIO()):
                    cli = {"cnfgen": tool_cnfgen.cli, "pbgen": tool_pbgen.cli, "cnfshuffle": tool_shuffle.cli}[tool]
                    sigs.append(sig(cli(list(argv), mode="formula")))
            finally:
                sys.stdin = old
        if any(x != sigs[0] for x in sigs[1:]):
            return {"argv": argv, "generator_events": toks, "formula_depends_on_initial_generator_state": True}
        return None
    c = C("phasetrace", "", impl, oracle, cls=tool + ":" + cmd[0] if cmd else tool, info={"tool": tool, "cmd": cmd, "seed": seed})
    c.stateless = False
    return c


def phasetrace_cases(ctx):
    rng = common.sub_rng(ctx["seed"], "C07_run", "trace")
    out = []
    seeds = [None, 0, rng.randint(1, 10 ** 9)] + ([-5, 2 ** 31] if ctx["tier"] == "thorough" else [])
    for cmd in TRACE_CMDS:
        for s in seeds:
            out.append(trace_case("cnfgen", cmd, s))
    for cmd in TRACE_T:
        for s in seeds[:3]:
            out.append(trace_case("cnfgen", cmd, s))
    for cmd in TRACE_CMDS[:9] if ctx["tier"] == "quick" else TRACE_CMDS:
        for s in seeds[:3]:
            out.append(trace_case("pbgen", cmd, s))
    for s in seeds + [7]:
        out.append(trace_case("cnfshuffle", [], s))
    return out


# ------------------------------------------------------------------ library generators with a seed parameter
def _graph6():
    G = graphs.Graph(6)
    for e in ((1, 2), (2, 3), (3, 4), (4, 5), (5, 6), (1, 6)):
        G.add_edge(*e)
    return G


def _fsig(F):
    return (F.number_of_variables(), [list(c) for c in F], list(F.header.items()))


def _edges_after(f):
    def g(s):
        G = _graph6()
        f(G, s)
        return (G.number_of_vertices(), sorted(G.edges()), G.name)
    return g


SEEDED = {
    "RandomKCNF": lambda s: _fsig(cnfgen.RandomKCNF(3, 7, 9, seed=s)),
    "RandomKXOR": lambda s: _fsig(cnfgen.RandomKXOR(3, 7, 5, seed=s)),
    "add_random_missing_edges": _edges_after(lambda G, s: graphs.add_random_missing_edges(G, 4, seed=s)),
    "split_random_edges": _edges_after(lambda G, s: graphs.split_random_edges(G, 3, seed=s)),
    "bipartite_random": lambda s: sorted(graphs.bipartite_random(4, 4, .5, seed=s).edges()),
    "bipartite_random_left_regular": lambda s: sorted(graphs.bipartite_random_left_regular(4, 5, 2, seed=s).edges()),
    "bipartite_random_m_edges": lambda s: sorted(graphs.bipartite_random_m_edges(4, 4, 9, seed=s).edges()),
    "bipartite_random_regular": lambda s: sorted(graphs.bipartite_random_regular(4, 4, 2, seed=s).edges()),
}


def seededlib_case():
    def oracle():
        for name, f in sorted(SEEDED.items()):
            for s in (0, 1, 5, -3, 2 ** 31, 2 ** 70):
                _mod_random.seed(11)
                a = f(s)
                _mod_random.seed(22)
                _mod_random.random()
                b = f(s)
                if a != b:
                    return {"library_generator": name, "seed": s, "same_seed_different_results": True}
        return None
    return Case("seededlib", req("c07_seeded"), lambda: ok(" ".join(sorted(SEEDED))), oracle, cls="seededlib", info={})


# ------------------------------------------------------------------ seeded graph generators against their model
def _bip(l, r, edges):
    B = graphs.BipartiteGraph(l, r)
    for u, v in edges:
        B.add_edge(u, v)
    return B


def _simple(n, edges):
    G = graphs.Graph(n)
    for u, v in edges:
        G.add_edge(u, v)
    return G


def _fmt_pairs(ps):
    ps = list(ps)
    out = [str(len(ps))]
    for a, b in ps:
        out += [str(a), str(b)]
    return " ".join(out)


def _fmt_simple(G):
    return "S {} {} {} {}".format(G.number_of_vertices(), G.number_of_edges(), _fmt_pairs(G.edges()), _fmt_pairs(sorted(G.edgeset)))


def _fmt_bip(G):
    byright = [(u, v) for v in range(1, G.right_order() + 1) for u in G.left_neighbors(v)]
    return "B {} {} {} {} {}".format(G.left_order(), G.right_order(), G.number_of_edges(), _fmt_pairs(G.edges()), _fmt_pairs(byright))


def seededgraph_case(which, params, seed, pre_state):
    """which/params as in the driver request; seed None or int"""
    info = {"which": which, "params": params, "seed": seed, "pre": pre_state}
    state = {}

    def call():
        if which == 0:
            return _fmt_bip(graphs.bipartite_random_left_regular(*params, seed=seed))
        if which == 1:
            return _fmt_bip(graphs.bipartite_random_m_edges(*params, seed=seed))
        if which == 2:
            l, r, p = params
            return _fmt_bip(graphs.bipartite_random(l, r, p, seed=seed))
        if which == 3:
            return _fmt_bip(graphs.bipartite_random_regular(*params, seed=seed))
        if which == 4:
            n, edges, m = params
            G = _simple(n, edges)
            graphs.add_random_missing_edges(G, m, seed=seed)
            return _fmt_simple(G)
        if which == 5:
            l, r, edges, m = params
            G = _bip(l, r, edges)
            graphs.add_random_missing_edges(G, m, seed=seed)
            return _fmt_bip(G)
        n, edges, k = params
        G = _simple(n, edges)
        graphs.split_random_edges(G, k, seed=seed)
        return _fmt_simple(G)

    def prepare():
        if "ans" in state:
            return
        _mod_random.seed(pre_state)
        with Recording() as rec:
            rec.in_parse = 1          # graph vocabulary
            try:
                ans = ok(call() + " R 0")
            except Exception as e:  # noqa
                ans = common.exc_name(e)
        r0, rs, seeds, bad = split_streams(rec.events)
        state.update(ans=ans, r0=r0, rs=rs, seeds=seeds, bad=bad, unknown=list(rec.unknown))

    def enc_params():
        if which in (0, 1):
            return list(params)
        if which == 2:
            l, r, p = params
            fr = Fraction(float(p))
            return [l, r, fr.numerator, fr.denominator]
        if which == 3:
            return list(params) + [40]
        if which in (4, 6):
            n, edges, m = params
            return [n] + enc_pairs(edges) + [m]
        l, r, edges, m = params
        return [l, r] + enc_pairs(edges) + [m]

    class C(Case):
        __slots__ = ()

        @property
        def req(self):
            prepare()
            return req("seededgraph", which, seed is not None, seed if seed is not None else 0, enc_params(),
                       enc_stream(state["r0"]["g"]), enc_stream(state["rs"]["g"]))

        @req.setter
        def req(self, v):
            pass

    def impl():
        prepare()
        return state["ans"]

    def oracle():
        prepare()
        if state["bad"] or state["unknown"]:
            return {"seededgraph": info, "recording": state["bad"] or state["unknown"][:3]}
        if seed is None or state["ans"].startswith("ERR"):
            return None
        # library half of the property: the same seed from another generator state gives the same graph
        _mod_random.seed(pre_state + 17)
        _mod_random.random()
        try:
            again = ok(call() + " R 0")
        except Exception as e:  # noqa
            again = common.exc_name(e)
        if again != state["ans"]:
            return {"seededgraph": info, "same_seed_different_graphs": True}
        return None
    names = ["bipartite_random_left_regular", "bipartite_random_m_edges", "bipartite_random", "bipartite_random_regular",
             "add_random_missing_edges", "add_random_missing_edges_bip", "split_random_edges"]
    c = C("seededgraph", "", impl, oracle, cls=names[which] + (":seed" if seed is not None else ":noseed"), info=info)
    c.stateless = False
    return c


def seededgraph_cases(ctx):
    rng = common.sub_rng(ctx["seed"], "C07_run", "seededgraph")
    path5 = [(1, 2), (2, 3), (3, 4), (4, 5)]
    cyc6 = [(1, 2), (2, 3), (3, 4), (4, 5), (5, 6), (1, 6)]
    table = [
        (0, [4, 5, 2]), (0, [3, 3, 3]), (0, [2, 3, 4]), (0, [0, 3, 0]), (0, [3, 4, 0]),
        (1, [4, 4, 9]), (1, [3, 3, 2]), (1, [2, 3, 7]), (1, [3, 3, 0]), (1, [3, 3, 9]),
        (2, [4, 4, .5]), (2, [3, 2, 0.0]), (2, [2, 3, 1.0]), (2, [3, 3, .25]), (2, [2, 2, 1.5]),
        (3, [4, 4, 2]), (3, [3, 6, 2]), (3, [4, 2, 1]), (3, [3, 3, 3]), (3, [2, 3, 2]), (3, [3, 0, 0]),
        (4, [6, cyc6, 4]), (4, [5, path5, 6]), (4, [5, path5, 7]), (4, [4, [], 0]), (4, [4, [], 6]), (4, [3, [(1, 2)], -1]),
        (5, [3, 3, [(1, 1), (2, 2)], 3]), (5, [2, 2, [], 4]), (5, [2, 2, [(1, 1)], 4]), (5, [3, 2, [(1, 2)], 0]),
        (6, [6, cyc6, 3]), (6, [5, path5, 4]), (6, [5, path5, 5]), (6, [4, [], 0]), (6, [3, [(1, 2)], 1]),
    ]
    if ctx["tier"] == "thorough":
        for _ in range(30):
            w = rng.randint(0, 3)
            l, r = rng.randint(1, 6), rng.randint(1, 6)
            table.append((w, [l, r, rng.randint(0, l * r)] if w == 1 else [l, r, rng.choice([.1, .5, .9])] if w == 2
                          else [l, r, rng.randint(0, r + 1)]))
    out = []
    for i, (w, params) in enumerate(table):
        seeds = [None, 0, rng.randint(1, 10 ** 9)] if ctx["tier"] == "thorough" else [None, (0, rng.randint(1, 10 ** 9), -5)[i % 3]]
        for sd in seeds:
            out.append(seededgraph_case(w, params, sd, 1000 + i))
    return out


def build(suite, info):
    if suite == "seededgraph":
        return seededgraph_case(info["which"], info["params"], info["seed"], info["pre"])
    if suite == "clirun":
        return RunCase(info["argv"], cls="replay")
    if suite == "shufflerun":
        return ShuffleRunCase(info["argv"], info["text"], cls="replay")
    if suite == "phasetrace":
        return trace_case(info["tool"], info["cmd"], info["seed"])
    if suite == "seededlib":
        return seededlib_case()
    raise ValueError("unknown suite " + suite)


def cases(ctx):
    out = [seededlib_case()]
    out += seededgraph_cases(ctx)
    out += phasetrace_cases(ctx)
    out += clirun_cases(ctx)
    out += shufflerun_cases(ctx)
    return out
