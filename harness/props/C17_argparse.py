"""C17 (argparse) — EVERY kind of command line -> what is built, model vs code.

The `d_*` suites of C17_dispatch.py compare `dispatch` on the fragment of command lines it models (exact option
strings, arguments that do not look like options).  The suites here (`dx_*`) compare `dispatchX`
(lean/CnfgenModel/Cli/Argparse.lean: argparse as CPython 3.12 runs it, for every token list) with the real
`cnfgen` / `pbgen` `cli([...], mode='formula')` under the same recording stubs, on command lines that use what
argparse allows beyond the fragment: abbreviated long options (unique and ambiguous prefixes, also ambiguous for the
tool's OWN parser, which sees every token first), `--opt=value`, clustered single-dash options (`-pv`, `-Gfile`),
`--`, negative-number-like tokens, unknown options, `-h` anywhere, options between / after the positionals.
Also the sub-commands that build their formula inline (`and or true false dimacs`, `-T none`): the formula built
is compared clause by clause with the model's; `tseitin <charge> <graph file>` with the file graph's order as
parameter.

Oracle (metamorphic, on the real tool only, independent of the model): a spelling variant that argparse documents as
equivalent — a unique prefix of a long option, `--opt=v` for `--opt v`, `-xy` for `-x -y`, a `--` in a command line
made of plain arguments — must make the real tool hand the SAME call to the library as the canonical spelling.
"""
import contextlib
import io
import itertools
import re

from harness import common
from harness.common import Case, req, enc_str
from harness.props import C17_dispatch as D

import argparse
import cnfgen.clihelpers.dimacs_helpers as dimacs_helpers
from cnfgen.clitools import CLIError
from cnfgen.formula.cnf import CNF
from cnfgen.formula.opb import OPB

RULE = ("dx_*: well-formed and ill-formed lines of the d_* generators, rewritten by argparse spellings (prefixes of "
        "long options incl. ambiguous ones, --opt=value, clusters, --, negative numbers, unknown options, -h) x every "
        "sub-command; distinct = distinct (tool, sub-command, argv, order of file graphs)")
ASSUMPTIONS = ["tokens are ASCII without newline ('$' of argparse's negative-number pattern also matches before a final "
               "newline; Unicode digits match its \\d): outside the model",
               "`dimacs <file>`: the file can be opened (argparse.FileType is stubbed in the harness process)",
               "the order of a graph given as a FILE is a parameter of the model; the stub graph answers with it"]
NOTES = ["dispatchX correspondence: same recording stubs as d_*; plus from_dimacs_file, argparse.FileType (dimacs), "
         "graph stubs whose order() is the case's parameter for graph files"]
TRUSTED_EXTRA = ["inline helpers (and/or/true/false/dimacs/none) are modelled by hand (Cli/Argparse.lean: inlineBuild), "
                 "pinned to the source text by `inline_sources_pinned`, tied by dx_inline"]

SUITES = ("dx_formula", "dx_trans", "dx_pbgen", "dx_php", "dx_compose", "dx_inline", "dx_corpus", "dx_classify",
          "dx_supported")
INLINE = {0: ("and", "or", "true", "false", "dimacs"), 1: ("none",)}


# ------------------------------------------------------------------ stubs
class FileStub:
    def __init__(self, name):
        self.name = name
        self.mode = "r"

    def close(self):
        pass


ORD = [4]


@contextlib.contextmanager
def stubbed_x(ord_):
    saved_order = D.GraphStub.order
    saved_nv = D.GraphStub.number_of_vertices
    saved_ft = argparse.FileType.__call__
    saved_fd = dimacs_helpers.from_dimacs_file

    def order(self):
        if self.toks and self.toks[0] in D.CONSTRUCTIONS.get(self.kind, ()):
            return 4
        return ORD[0]

    def from_dimacs_file(fc, fileobj):
        D.RECORD.append(("from_dimacs_file", (fc, fileobj), {}))
        return fc()
    ORD[0] = ord_
    D.GraphStub.order = order
    D.GraphStub.number_of_vertices = order
    argparse.FileType.__call__ = lambda self, string: FileStub(string)
    dimacs_helpers.from_dimacs_file = from_dimacs_file
    try:
        with D.stubbed():
            yield
    finally:
        D.GraphStub.order = saved_order
        D.GraphStub.number_of_vertices = saved_nv
        argparse.FileType.__call__ = saved_ft
        dimacs_helpers.from_dimacs_file = saved_fd
        ORD[0] = 4


def fmt_val_x(v, tool_class, key=None):
    if isinstance(v, type) and v is tool_class:
        return "Pformula_class"
    if isinstance(v, FileStub):
        return "S" + D.fmt_str(v.name)
    if isinstance(v, list) and not v:
        return "L"
    return D.fmt_val(v, tool_class, key)


def fmt_call_x(rec, tool_class):
    name, a, kw = rec
    return "CALL {} P {}{} K {}{}".format(
        name, len(a), "".join(" " + fmt_val_x(v, tool_class) for v in a),
        len(kw), "".join(" {}={}".format(k, fmt_val_x(v, tool_class, k)) for k, v in kw.items()))


BASE = {}


def base_formula():
    if "f" not in BASE:
        BASE["f"] = common.fmt_cnf(D.cli_cnfgen(["cnfgen", "-q", "and", "1", "1"], mode="formula"))
    return BASE["f"]


def run_real_x(tool, kind, name, argv, ord_):
    """what the real command line builds / hands to the library"""
    cli, fc = (D.cli_cnfgen, CNF) if tool == "cnfgen" else (D.cli_pbgen, OPB)
    if kind == 0:
        full = [tool, "-q", name] + list(argv)
    else:
        full = [tool, "-q", "and", "1", "1", "-T", name] + list(argv)
    del D.RECORD[:]
    with stubbed_x(ord_), contextlib.redirect_stderr(io.StringIO()), contextlib.redirect_stdout(io.StringIO()):
        try:
            F = cli(full, mode="formula")
        except CLIError:
            return "ERR CLIError"
        except SystemExit as e:
            return "EXIT {}".format(e.code)
        except Exception as e:  # noqa: the kind of exception is the observation
            return "ERR " + type(e).__name__
    if name in INLINE[kind] and not D.RECORD:
        if kind == 1:
            return "OK SAME" if common.fmt_cnf(F) == base_formula() else "OK DIFFERENT " + common.fmt_cnf(F)
        return "OK FORMULA " + common.fmt_cnf(F)
    if len(D.RECORD) != 1:
        return "OK CALLS {}".format(len(D.RECORD))
    return "OK " + fmt_call_x(D.RECORD[0], fc)


def mask_x(real, model):
    """like `mask` of C17_dispatch: the positions the model marks `?` (values it keeps opaque: random vectors, graphs
    built from the formula's size) are not compared — except that an opaque value is never `None`: a real `None` there
    stays visible (`tseitin`'s charge vector of the null graph)"""
    r, m = real.split(" "), model.split(" ")
    if len(r) != len(m):
        return real
    out = []
    for a, b in zip(r, m):
        if b == "?" and a != "N":
            out.append("?")
        elif "=" in a and "=" in b and b.split("=", 1)[1] == "?" and a.split("=", 1)[0] == b.split("=", 1)[0] \
                and a.split("=", 1)[1] != "N":
            out.append(b)
        else:
            out.append(a)
    return " ".join(out)


MODEL = {}
ORACLE_CACHE = {}


def model_answer(rq):
    if rq not in MODEL:
        MODEL[rq] = common.run_driver([rq])[0]
    return MODEL[rq]


def dispatchx_req(tool, kind, name, ord_, argv):
    parts = [0 if tool == "cnfgen" else 1, kind] + enc_str(name) + [ord_, len(argv)]
    for t in argv:
        parts += enc_str(t)
    return req("dispatchx", parts)


# ------------------------------------------------------------------ spellings
NEG = re.compile(r"^-\d+$|^-\d*\.\d+$")


def plain(t):
    """certainly an argument for argparse.  A token that starts with `-` and contains a blank is NOT certain: `--opt=v w` and
    `-o v` (one token) are matched as options before argparse looks for the blank (false alarm of the `eq+dd` rewriting,
    found by `vp check`, seed 1: `stone 2 -- grid 2 3 --sparse=2 ` is not a respelling of `stone 2 grid 2 3 --sparse "2 "`)"""
    return t == "" or t[0] != "-" or t == "-" or bool(NEG.match(t))


def top_strings(kind):
    if kind == 1:
        return ["-h", "--help"]
    p, _ = D.cnfgen_tool.setup_command_line_parsers("cnfgen", [], [])
    return list(p._option_string_actions)


TOP = {}


def top_ambiguous(kind, tok):
    """would the tool's own parser refuse the token as an ambiguous prefix"""
    if kind not in TOP:
        TOP[kind] = top_strings(kind)
    if not tok.startswith("--") or tok == "--" or tok in TOP[kind]:
        return False
    pre = tok.split("=", 1)[0]
    if "=" in tok and pre in TOP[kind]:
        return False
    return sum(1 for s in TOP[kind] if s.startswith(pre)) > 1


def option_strings(parser):
    return dict(parser._option_string_actions)


def takes(action):
    """number of arguments of an optional: 0, 1 or '+'"""
    if action.nargs == 0:
        return 0
    if action.nargs is None:
        return 1
    return action.nargs


def before_dd(argv, i):
    return "--" not in argv[:i]


def m_abbrev(argv, parser, kind, rng):
    opts = option_strings(parser)
    idx = [i for i, t in enumerate(argv) if t.startswith("--") and t in opts and len(t) > 3 and before_dd(argv, i)]
    if not idx:
        return None
    i = rng.choice(idx)
    t = argv[i]
    k = rng.randint(3, len(t) - 1)
    pre = t[:k]
    n = sum(1 for s in opts if s.startswith(pre))
    keep = (pre in opts and opts[pre] is opts[t]) or (n == 1 and not top_ambiguous(kind, pre))
    if pre in opts and opts[pre] is not opts[t]:
        keep = False
    return argv[:i] + [pre] + argv[i + 1:], keep, "abbrev"


def m_eq(argv, parser, kind, rng):
    opts = option_strings(parser)
    idx = [i for i, t in enumerate(argv) if t in opts and before_dd(argv, i)]
    if not idx:
        return None
    i = rng.choice(idx)
    a = opts[argv[i]]
    n = takes(a)
    if n == 0 or i + 1 >= len(argv):
        v = rng.choice(["", "1", "x", argv[i][1:]])
        return argv[:i] + [argv[i] + "=" + v] + argv[i + 1:], False, "eq-flag"
    v = argv[i + 1]
    rest = argv[i + 2:]
    if rng.random() < 0.1:
        return argv[:i] + [argv[i] + rng.choice(["=--", "--"])] + argv[i + 1:], False, "eq-dd"
    keep = plain(v) and v != "--" and not top_ambiguous(kind, argv[i] + "=" + v)
    if n == "+":
        # `-e=v` takes exactly one argument: equivalent only when no further argument follows
        keep = keep and (not rest or not plain(rest[0]) or rest[0] in opts)
    return argv[:i] + [argv[i] + "=" + v] + rest, keep, "eq"


def m_cluster(argv, parser, kind, rng):
    opts = option_strings(parser)

    def short(t):
        return len(t) == 2 and t[0] == "-" and t[1] != "-" and t in opts
    idx = [i for i in range(len(argv) - 1) if short(argv[i]) and short(argv[i + 1]) and before_dd(argv, i)]
    if idx and rng.random() < 0.7:
        i = rng.choice(idx)
        keep = takes(opts[argv[i]]) == 0
        return argv[:i] + [argv[i] + argv[i + 1][1]] + argv[i + 2:], keep, "cluster"
    idx = [i for i in range(len(argv)) if short(argv[i]) and before_dd(argv, i)]
    if not idx:
        return None
    i = rng.choice(idx)
    if takes(opts[argv[i]]) == 0:
        tail = rng.choice(["x", "h", argv[i][1], argv[i][1] * 2, "=", "-", "1"])
        return argv[:i] + [argv[i] + tail] + argv[i + 1:], False, "cluster-junk"
    if i + 1 < len(argv):
        # attached value: `-Gcomplete`
        return argv[:i] + [argv[i] + argv[i + 1]] + argv[i + 2:], False, "attached"
    return None


def m_dd(argv, parser, kind, rng):
    i = rng.randint(0, len(argv))
    keep = bool(argv) and all(plain(t) and t != "--" for t in argv)
    return argv[:i] + ["--"] + argv[i:], keep, "dd"


JUNK = ["-x", "--foo", "-1x", "--foo=1", "-", "- 1", "-x y", "-1", "-2.5", "-.5", "-1.", "--", "-0", "-=", "--=", "-h=1"]


def m_junk(argv, parser, kind, rng):
    i = rng.randint(0, len(argv))
    return argv[:i] + [rng.choice(JUNK)] + argv[i:], False, "junk"


def m_neg(argv, parser, kind, rng):
    idx = [i for i, t in enumerate(argv) if re.match(r"^\d+$", t)]
    if not idx:
        return None
    i = rng.choice(idx)
    return argv[:i] + [rng.choice(["-" + argv[i], "-" + argv[i] + ".5", "-." + argv[i]])] + argv[i + 1:], False, "neg"


def m_help(argv, parser, kind, rng):
    i = rng.randint(0, len(argv))
    return argv[:i] + [rng.choice(["-h", "--help", "--he", "--hel", "-hh", "-hx", "--help=1"])] + argv[i:], False, "help"


def m_top(argv, parser, kind, rng):
    i = rng.randint(0, len(argv))
    return argv[:i] + [rng.choice(["--v", "--o", "--out", "--ver", "--help-", "--output-", "--s", "--se=3", "--l", "--q",
                                   "--t", "-of", "-o", "-q", "-v", "-S"])] + argv[i:], False, "top"


def m_move(argv, parser, kind, rng):
    """an option (with nothing attached) moved somewhere else"""
    opts = option_strings(parser)
    idx = [i for i, t in enumerate(argv) if t in opts and takes(opts[t]) == 0]
    if not idx:
        return None
    i = rng.choice(idx)
    rest = argv[:i] + argv[i + 1:]
    j = rng.randint(0, len(rest))
    return rest[:j] + [argv[i]] + rest[j:], False, "move"


MUTATORS = [m_abbrev, m_abbrev, m_eq, m_eq, m_cluster, m_cluster, m_dd, m_dd, m_junk, m_neg, m_help, m_top, m_move]


def variants(base, parser, kind, rng, n):
    """(canonical, variant, equivalent?, label): `equivalent` only when every rewriting step is a documented
    equivalence of argparse"""
    out = []
    for _ in range(n):
        argv, keep, labels = list(base), True, []
        for _ in range(rng.choice([1, 1, 1, 2, 2, 3])):
            r = rng.choice(MUTATORS)(argv, parser, kind, rng)
            if r is None:
                continue
            argv, k, lab = r
            keep = keep and k
            labels.append(lab)
        if labels:
            out.append((list(base), argv, keep, "+".join(labels)))
    return out


def flagful_bases(kind, name, parser, rng):
    """well-formed lines that use every option of the sub-command (all spellings)"""
    pos, opts = D.shape(parser)
    out = []
    acts = [a for a in parser._actions if a.option_strings and type(a).__name__ != "_HelpAction"]
    for rep in range(3):
        groups = D.good_tokens(pos, rng, rep)
        toks = D.flat(groups)
        pre, post = [], []
        for a in acts:
            n = takes(a)
            if not a.required and rng.random() < 0.25:
                continue
            s = rng.choice(a.option_strings)
            if n == 0:
                val = []
            elif n == 1:
                tname = getattr(a.type, "__name__", None)
                val = [rng.choice(D.GOOD.get(tname, ["1"]))]
            else:
                val = list(D.GRAPHS[rng.randrange(6)])
            (pre if (n == 0 and rng.random() < 0.6) else post).append([s] + val)
        rng.shuffle(pre)
        out.append(D.flat(pre) + toks + D.flat(post))
        # short flags next to one another (cluster candidates)
        shorts = [s for a in acts if takes(a) == 0 for s in a.option_strings if len(s) == 2]
        if len(shorts) >= 2:
            rng.shuffle(shorts)
            out.append(shorts[:3] + toks)
    return out


# ------------------------------------------------------------------ corpus: lines that once taught something
CORPUS = [
    (0, "bphp", ["--", "3", "--"]), (0, "bphp", ["--", "3", "4"]), (0, "bphp", ["3", "--", "4"]), (0, "bphp", ["3", "4", "--"]),
    (0, "true", ["--"]), (0, "true", []), (0, "false", ["-h"]), (0, "false", []), (0, "bphp", ["1", "2", "3", "-h"]),
    (0, "bphp", ["x", "-h"]), (0, "bphp", ["-x", "-h"]), (0, "bphp", ["3", "4", "--he"]), (0, "bphp", ["3", "4", "--help"]),
    (0, "bphp", ["3", "-1x", "4"]), (0, "kclique", ["--no", "3", "complete", "4"]), (0, "kclique", ["--no=1", "3", "complete", "4"]),
    (0, "kclique", ["3", "complete", "4", "--", "--no-symmetry-breaking"]), (0, "kclique", ["--", "3", "complete", "--", "4"]),
    (0, "kclique", ["--", "3", "--"]),
    (0, "stone", ["3", "pyramid", "2", "--sparse=2"]), (0, "stone", ["3", "pyramid", "2", "--s", "2"]),
    (0, "stone", ["3", "pyramid", "2", "--sparse=-x"]), (0, "stone", ["3", "pyramid", "2", "--sparse", "-x"]),
    (0, "stone", ["3", "pyramid", "2", "--sparse="]), (0, "stone", ["--sparse", "2", "3", "pyramid", "2"]),
    (0, "randkcnf", ["-p=p", "3", "5", "2"]), (0, "randkcnf", ["-pp", "3", "5", "2"]), (0, "randkcnf", ["-p=", "3", "5", "2"]),
    (0, "randkcnf", ["-ph", "3", "5", "2"]), (0, "randkcnf", ["-px", "3", "5", "2"]), (0, "randkcnf", ["-hp", "x"]),
    (0, "op", ["-tp", "5"]), (0, "op", ["-ts", "5"]), (0, "op", ["--k", "5"]), (0, "op", ["--knuth", "5"]), (0, "op", ["--knuth2", "5"]),
    (0, "op", ["--", "5", "--", "3"]), (0, "op", ["5", "4", "3", "-h"]), (0, "op", ["x", "y", "-h"]), (0, "op", ["--total", "-h", "--smart"]),
    (0, "op", ["--total", "--smart", "-h"]), (0, "op", ["-t", "6", "3", "-p"]), (0, "op", ["--", "--total"]),
    (0, "iso", ["complete", "3", "-e=complete", "3"]), (0, "iso", ["complete", "3", "-ecomplete"]),
    (0, "iso", ["complete", "3", "-e", "--", "complete", "3"]), (0, "iso", ["complete", "3", "-e=x"]), (0, "iso", ["-e", "a", "b"]),
    (0, "subgraph", ["-Ga", "-Hb"]), (0, "subgraph", ["-G=a", "-H", "b", "c"]), (0, "subgraph", ["-G", "a"]), (0, "subgraph", ["-hG"]),
    (0, "subgraph", ["-G", "a", "-H", "b", "--", "c"]),
    (0, "and", ["2", "1"]), (0, "or", ["2", "1"]), (0, "and", ["0", "0"]), (0, "or", ["0", "0"]), (0, "and", ["-1", "1"]),
    (0, "and", ["2", "1", "--v"]), (0, "and", ["2", "--", "1"]), (0, "or", ["3", "0"]), (0, "or", ["0", "2"]),
    (0, "dimacs", []), (0, "dimacs", ["f.cnf"]), (0, "dimacs", ["--", "f.cnf"]), (0, "dimacs", ["f.cnf", "g.cnf"]), (0, "dimacs", ["-h"]),
    (0, "dimacs", ["--"]), (0, "dimacs", ["-"]),
    (1, "shuffle", ["-pvc"]), (1, "shuffle", ["-pvx"]), (1, "shuffle", ["--no-p"]), (1, "shuffle", ["--no"]), (1, "shuffle", ["-cvp", "-h"]),
    (1, "shuffle", ["--he"]), (1, "shuffle", ["--h"]), (1, "shuffle", ["-p=v"]),
    (1, "none", []), (1, "none", ["--"]), (1, "none", ["-h"]), (1, "none", ["x"]),
    (1, "xor", ["--", "2"]), (1, "xor", ["-2"]), (1, "xor", ["2", "--"]), (1, "xor", ["--", "--"]),
    (0, "php", ["--"]), (0, "php", ["--", "5", "4"]), (0, "php", ["5", "--", "4", "--onto"]), (0, "php", ["5", "--onto", "--", "4"]),
    (0, "php", ["--", "complete", "-x", "3"]), (0, "php", ["--", "complete", "3", "-h"]), (0, "php", ["--on", "3"]), (0, "php", ["--o", "3"]),
    (0, "php", ["--f", "3"]), (0, "php", ["--functional=1", "3"]), (0, "php", ["-1"]), (0, "php", ["complete", "-3", "2"]),
    (0, "vdw", ["5", "2", "2", "--", "3"]), (0, "vdw", ["5", "2", "--", "2", "--", "3"]), (0, "vdw", ["5", "2", "2", "-3"]),
    (0, "tseitin", ["--", "first", "-h"]), (0, "tseitin", ["first", "--", "complete", "3"]), (0, "tseitin", ["first", "complete", "-3"]),
    (0, "tseitin", ["first", "file.gml"]), (0, "tseitin", ["zero", "dimacs", "g.x"]), (0, "tseitin", ["random", "f"]),
    (0, "tseitin", ["foo", "f"]), (0, "tseitin", ["one"]), (0, "tseitin", ["6", "-3"]), (0, "tseitin", ["--", "6", "--", "3"]),
    (0, "parity", ["-1"]), (0, "parity", ["-1.5"]), (0, "parity", ["-.5"]), (0, "parity", ["-1 "]), (0, "parity", ["- 1"]),
    (0, "parity", ["-x y"]), (0, "parity", ["-"]), (0, "parity", [""]), (0, "parity", ["3", "--o"]), (0, "parity", ["3", "--output-"]),
    (0, "parity", ["3", "--", "--o"]), (0, "parity", ["--", "--o"]), (0, "domset", ["-a", "2", "complete", "3"]),
    (0, "domset", ["--alt", "2", "complete", "3"]), (0, "domset", ["2", "complete", "3", "-a"]), (0, "domset", ["2", "-a", "complete", "3"]),
    (0, "domset", ["-aa", "2", "complete", "3"]), (0, "domset", ["-ah", "x"]), (0, "subsetcard", ["-e", "complete", "3", "4"]),
    (0, "subsetcard", ["--eq", "5"]), (0, "subsetcard", ["-e=e", "5"]), (0, "subsetcard", ["5", "--", "3"]),
    (0, "stone", ["2", "--sparse=--", "007", "pyramid", "2"]), (0, "stone", ["2", "pyramid", "2", "--sparse=--"]),
    (0, "stone", ["--", "2", "--"]), (0, "iso", ["a", "-e--"]), (0, "iso", ["a", "-e=--"]), (0, "subgraph", ["-G--", "-H", "b"]),
    (0, "and", ["--", "2", "--"]), (0, "or", ["--", "--", "2"]), (0, "and", ["--", "--"]), (0, "or", ["2", "--", "--"]),
    (0, "ram", ["--", "2", "--", "3"]), (0, "vdw", ["5", "2", "2"]), (0, "vdw", ["5", "2", "--", "2"]),
    (0, "tseitin", ["--", "--", "--"]), (0, "tseitin", ["--", "5", "--", "--"]), (0, "op", ["--", "--", "5"]), (0, "op", ["--", "5", "--", "--"]),
    (0, "cpls", ["--", "2", "--", "2"]), (0, "cpls", ["2", "--", "--", "2"]), (0, "ram", ["--", "--", "--", "--"]),
    (0, "vdw", ["--", "5", "--", "2", "2"]), (0, "vdw", ["--", "5", "2", "2", "--"]), (0, "php", ["--", "--"]), (0, "php", ["--", "3", "--"]),
    (1, "xorcomp", ["5", "3"]), (1, "xorcomp", ["--", "5"]), (1, "majcomp", ["glrd", "5", "5", "3", "-h"]),
]


# ------------------------------------------------------------------ cases
def build(suite, info):
    if suite not in SUITES:
        raise ValueError("unknown suite " + suite)
    if suite == "dx_supported":
        kind = info["kind"]

        def impl(kind=kind):
            # every sub-command argparse knows must be handled by the extended interpreter
            return "OK " + " ".join(sorted(name for (k, name) in D.subparsers() if k == kind))
        return Case(suite, req("dispatchx_supported", kind), impl, None, cls="kind={}".format(kind), info=info)
    if suite == "dx_classify":
        kind, name, tok = info["kind"], info["name"], info["tok"]
        rq = req("ap_classify", [kind] + enc_str(name) + enc_str(tok))

        def impl():
            return "OK " + classify_real(kind, name, tok)
        return Case(suite, rq, impl, None, cls="classify:{}".format(name), info=info)
    tool, kind, name = info["tool"], info["kind"], info["name"]
    argv = [str(a) for a in info["argv"]]
    ord_ = int(info.get("ord", 4))
    rq = dispatchx_req(tool, kind, name, ord_, argv)

    def impl():
        r = run_real_x(tool, kind, name, argv, ord_)
        m = model_answer(rq).split(" ## ")
        if len(m) != 2:
            return r + " ## " + r
        return mask_x(r, m[0]) + " ## " + mask_x(r, m[1])   # regenerated tables ## documented tables
    oracle = None
    canon = info.get("canonical")
    if canon is not None:
        canon = [str(a) for a in canon]

        def oracle():
            # (the canonical line is shared by several variants: its result is computed once per process; the
            # implementation side of the correspondence never uses this cache)
            ka = (tool, kind, name, tuple(canon), ord_)
            if ka not in ORACLE_CACHE:
                ORACLE_CACHE[ka] = run_real_x(tool, kind, name, canon, ord_)
            a = ORACLE_CACHE[ka]
            b = run_real_x(tool, kind, name, argv, ord_)
            if a != b:
                return {"canonical": [tool, name] + canon, "builds": a, "variant": [tool, name] + argv, "variant_builds": b,
                        "rewriting": info.get("label", "")}
            return None
    return Case(suite, rq, impl, oracle, cls="{}:{}:{}".format(tool, name, info.get("label", "-")),
                nontrivial=bool(argv), info=info)


PARSERS = {}


def classify_real(kind, name, tok):
    """`_parse_optional` of the sub-command's real parser on one token, in the driver's text"""
    if not PARSERS:
        PARSERS.update(D.subparsers())
    p = PARSERS[(kind, name)]
    try:
        r = p._parse_optional(tok)
    except CLIError:
        return "AMBIGUOUS"
    if r is None:
        return "A"
    action, os_, ex = r[0], r[1], r[2]
    if action is None:
        return "U"
    dest = "help" if type(action).__name__ == "_HelpAction" else action.dest
    return "O {} {}".format(dest, D.fmt_str(os_)) + ("" if ex is None else " =" + D.fmt_str(ex))


CLASSIFY_TOKENS = ["", "-", "--", "-h", "--help", "--h", "--he", "--help=", "--help=x", "-hx", "-h=x", "-1", "-1.5", "-.5", "-1.",
                   "-1x", "- 1", "-x y", "-x", "--x", "--=", "-=", "x", "x=y", "-1=2", "--no", "--no-", "--p", "--pl", "--plant",
                   "--plant=", "--plant=x", "--plan=x", "-p", "-pp", "-p=", "-p=x", "-px", "-e", "-ex", "-e=x", "-G", "-Gx", "-G=x",
                   "--sparse", "--sparse=3", "--spa", "--s", "--sp=3", "--k", "--knuth", "--knuth2", "--knuth2=1", "--knuth=1",
                   "--t", "--to", "--total", "-t", "-ts", "-t=s", "--e", "--eq", "--equal", "--a", "--alternative=", "-a", "-ab",
                   "--f", "--functional", "--o", "--on", "--onto", "-0", "-00.0", "--1", "-1-", " -1", "-1 ", "--no-p", "--no-v",
                   "--no-c", "-v", "-vc", "-c", "-cp"]


def cases(ctx):
    tier, seed = ctx["tier"], ctx["seed"]
    out = []
    parsers = D.subparsers()
    for kind in (0, 1):
        out.append(build("dx_supported", {"kind": kind}))
    for kind, name, argv in CORPUS:
        for ord_ in ((0, 1, 4) if name == "tseitin" else (4,)):
            out.append(build("dx_corpus", {"tool": "cnfgen", "kind": kind, "name": name, "argv": argv, "ord": ord_}))
    crng = common.sub_rng(seed, "C17x", "classify")
    for (kind, name), parser in sorted(parsers.items()):
        toks = CLASSIFY_TOKENS if tier == "thorough" else crng.sample(CLASSIFY_TOKENS, 8)
        own = [s for s in parser._option_string_actions]
        extra = []
        for s in own:
            extra += [s, s[:-1], s + "=", s + "=v", s + "x", s[:max(2, len(s) // 2)]]
        if tier != "thorough":
            extra = crng.sample(extra, min(len(extra), 6))
        for t in list(toks) + extra:
            out.append(build("dx_classify", {"kind": kind, "name": name, "tok": t}))
    seen = set()
    per = 7 if tier == "quick" else 80
    for (kind, name), parser in sorted(parsers.items()):
        rng = common.sub_rng(seed, "C17x", kind, name)
        pos, opts = D.shape(parser)
        if name == "php":
            bases, suite = D.php_argvs(rng, "quick"), "dx_php"
        elif any(k == "compose" for k, _ in pos):
            bases, suite = D.compose_argvs(kind, name, parser, rng, "quick"), "dx_compose"
        elif name in INLINE[kind]:
            bases, suite = D.argvs_for(kind, name, parser, rng, "quick"), "dx_inline"
            if name == "dimacs":
                bases += [[], ["f.cnf"], ["a b"], ["-"], ["f", "g"]]
        else:
            bases, suite = D.argvs_for(kind, name, parser, rng, "quick"), ("dx_formula" if kind == 0 else "dx_trans")
        bases = [[str(t) for t in b] for b in bases]
        bases = [b for b in bases if all("\n" not in t and t != "-T" for t in b)]
        full = flagful_bases(kind, name, parser, rng) + flagful_bases(kind, name, parser, rng)
        picked = full * 2 + (rng.sample(bases, min(len(bases), per // 2)) if bases else [[]])
        lines = []
        # the inline sub-commands are outside d_*: their plain lines are compared here
        if suite == "dx_inline":
            lines += [(None, b, False, "plain") for b in bases[:per]]
        for b in picked:
            lines += variants(b, parser, kind, rng, 2 if tier == "quick" else 6)
        rng.shuffle(lines)
        n = 0
        for canon, argv, keep, label in lines:
            if any("\n" in t or t == "-T" for t in argv):
                continue
            ords = (4,)
            if name == "tseitin":
                ords = (rng.choice([0, 1, 4]),)
            for ord_ in ords:
                key = (kind, name, tuple(argv), ord_)
                if key in seen:
                    continue
                seen.add(key)
                info = {"tool": "cnfgen", "kind": kind, "name": name, "argv": argv, "ord": ord_, "label": label}
                if keep and canon is not None:
                    info["canonical"] = canon
                out.append(build(suite, info))
                n += 1
                if kind == 0 and suite != "dx_inline" and rng.random() < (0.3 if tier == "thorough" else 0.08):
                    out.append(build("dx_pbgen", dict(info, tool="pbgen")))
            if n >= per:
                break
    reqs = sorted({c.req for c in out if c.suite not in ("dx_supported",)})
    for rq, ans in zip(reqs, common.run_driver(reqs)):
        MODEL[rq] = ans
    for c in out:
        c.info.setdefault("seed", seed)
        c.info.setdefault("tier", tier)
    return out


def search(ctx, case):
    """when the real tool no longer builds what the DOCUMENTED tables say for this command line, the command line is a
    failing input of the property; a variant that the real tool treats unlike its canonical spelling is one too (the
    oracle reports it); a difference with the regenerated tables only is a gap of the translator / interpreter"""
    if case.suite in ("dx_supported", "dx_classify"):
        return None
    if case.oracle is not None:
        r = case.oracle()
        if r is not None:
            return r
    i = case.info
    r = against_documented(i["tool"], i["kind"], i["name"], [str(a) for a in i["argv"]], int(i.get("ord", 4)))
    if r is not None:
        return r
    # this line is not a failing input: look at the other lines of the same sub-command (once per sub-command)
    return neighbourhood(ctx, i["tool"], i["kind"], i["name"])


def against_documented(tool, kind, name, argv, ord_):
    real = run_real_x(tool, kind, name, argv, ord_)
    model = common.run_driver([dispatchx_req(tool, kind, name, ord_, argv)])[0].split(" ## ")
    if len(model) == 2 and model[1] != mask_x(real, model[1]):
        return {"command_line": [tool, name] + list(argv), "order_of_graph_files": ord_, "built": real,
                "documented": model[1]}
    return None


NEIGHBOURHOOD = {}


def neighbourhood(ctx, tool, kind, name):
    key = (tool, kind, name)
    if key in NEIGHBOURHOOD:
        return NEIGHBOURHOOD[key]
    NEIGHBOURHOOD[key] = None
    if not PARSERS:
        PARSERS.update(D.subparsers())
    parser = PARSERS.get((kind, name))
    if parser is None:
        return None
    rng = common.sub_rng(ctx.get("seed", 0), "C17x-search", kind, name)
    lines = [a for (k, n, a) in CORPUS if (k, n) == (kind, name)]
    lines += flagful_bases(kind, name, parser, rng)
    if any(k == "compose" for k, _ in D.shape(parser)[0]):
        lines += D.compose_argvs(kind, name, parser, rng, "quick")[:150]
    else:
        lines += D.argvs_for(kind, name, parser, rng, "quick")[:150]
    for argv in lines:
        argv = [str(t) for t in argv]
        if any("\n" in t or t == "-T" for t in argv):
            continue
        for ord_ in ((0, 1, 2, 4) if name == "tseitin" else (4,)):
            r = against_documented(tool, kind, name, argv, ord_)
            if r is not None:
                NEIGHBOURHOOD[key] = r
                return r
    return None


def search_global(ctx):
    """a proof obligation no longer checks: every sub-command's targeted lines against the documented tables"""
    if not PARSERS:
        PARSERS.update(D.subparsers())
    for (kind, name) in sorted(PARSERS):
        r = neighbourhood(ctx, "cnfgen", kind, name)
        if r is not None:
            return r
    return None
