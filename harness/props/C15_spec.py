"""C15 (topic: graph specification words) — `parse_graph_argument(graphtype, spec)` of
cnfgen/clitools/graph_args.py against the Lean model `Cnfgen.GSpec.parseGraphArgument`
(lean/CnfgenModel/Cli/GraphSpec.lean, driver requests `gs_*`).

Suites (all names start with `gs_`):
  gs_parse   token list -> the dictionary `parsed`, compared FIELD BY FIELD (key present / None / value), or the
             exception class
  gs_render  the model's canonical printer `renderSpec` on the model's parse, against this module's own printer on
             the real dictionary
  gs_str     the `isinstance(spec, str)` branch (`spec.split()`)
  gs_float   `float(tok)` returns / raises ValueError  (what `consumenumbers` keeps)
  gs_ext     `os.path.splitext(name)[-1][1:]`, and the format `_process_graph_io_arguments` settles on
  gs_tables  the Unicode digit / space tables of the model against `unicodedata` of this interpreter

Oracle (independent of the model, evaluated on the real function only):
  * the outcome is a dictionary or ValueError — never another exception;
  * an accepted request has exactly one source (a construction of the graph type with numeric words, or a file
    with a format of the graph type / `autodetect`), only options documented for the graph type, `save` = [format,
    file name]; printing the dictionary back in insertion order gives the very token list (no word lost, invented
    or moved), and the canonical print re-parses to the same dictionary;
  * a request inside the documented grammar is not refused (`refused-legal`);
  * `make_graph_from_spec` on an accepted request with a deterministic construction returns an object of the
    class of the graph type with the documented number of vertices, or refuses with ValueError.
"""
import io
import os
import random as pyrandom
import unicodedata

from harness import common
from cnfgen.clitools import graph_args
from cnfgen import graphs as cg

RULE = ("every construction of every graph type x right / too few / too many / non-numeric arguments x every option "
        "word (of every graph type) at every position, alone and repeated x save with / without format / file name x "
        "file names with known / unknown / no extension x format keyword + file name x keywords of other graph types x "
        "empty list; plus a mutational stream (delete / duplicate / swap / insert words from a vocabulary of keywords, "
        "numerals in every float() syntax, empty and dash words); distinct = distinct (graph type, token list)")
ASSUMPTIONS = ["tokens are Python strings without lone surrogates (the driver protocol carries code points)"]
TRUSTED_EXTRA = ["CPython's float(str) acceptance test and Unicode database (modelled by hand: compared on every run, "
                 "suites gs_float / gs_tables)"]
NOTES = ["the oracle's tables of documented constructions / options / formats are written in this module, not read "
         "from graph_args.py"]

SUITES = ("gs_parse", "gs_render", "gs_str", "gs_float", "gs_ext", "gs_tables")
GTYPES = ["simple", "dag", "digraph", "bipartite"]
DOT = cg.has_dot_library()

# ---- documented tables (written independently of graph_args.py: `cnfgen --help-simple` etc.)
DOC_CONS = {
    "simple": ["gnp", "gnm", "gnd", "grid", "torus", "complete", "empty"],
    "dag": ["path", "tree", "pyramid"],
    "digraph": ["path", "tree", "pyramid"],
    "bipartite": ["glrp", "glrm", "glrd", "regular", "shift", "complete", "empty"],
}
DOC_OPTS = {
    "simple": ["plantclique", "addedges", "splitedges", "save"],
    "dag": ["save"],
    "digraph": ["save"],
    "bipartite": ["plantbiclique", "addedges", "save"],
}
_D = ["dot"] if DOT else []
DOC_FMTS = {
    "simple": ["kthlist", "gml"] + _D + ["dimacs"],
    "dag": ["kthlist", "gml"] + _D + ["dimacs"],
    "digraph": ["kthlist", "gml"] + _D + ["dimacs"],
    "bipartite": ["kthlist", "gml"] + _D + ["matrix"],
}
ALL_OPTS = ["plantclique", "plantbiclique", "addedges", "splitedges", "save"]
ALL_FMTS = ["kthlist", "gml", "dot", "dimacs", "matrix"]
ALL_CONS = sorted({c for v in DOC_CONS.values() for c in v})
RIGHT_ARGS = {
    ("simple", "gnp"): ["6", ".5"], ("simple", "gnm"): ["6", "7"], ("simple", "gnd"): ["6", "3"],
    ("simple", "grid"): ["2", "3"], ("simple", "torus"): ["3", "4"], ("simple", "complete"): ["5"],
    ("simple", "empty"): ["4"],
    ("dag", "path"): ["4"], ("dag", "tree"): ["2"], ("dag", "pyramid"): ["3"],
    ("digraph", "path"): ["4"], ("digraph", "tree"): ["2"], ("digraph", "pyramid"): ["3"],
    ("bipartite", "glrp"): ["3", "4", ".5"], ("bipartite", "glrm"): ["3", "4", "5"],
    ("bipartite", "glrd"): ["3", "4", "2"], ("bipartite", "regular"): ["4", "4", "2"],
    ("bipartite", "shift"): ["3", "5", "0", "2"], ("bipartite", "complete"): ["2", "3"],
    ("bipartite", "empty"): ["2", "3"],
}
DETERMINISTIC = {("simple", "grid"), ("simple", "torus"), ("simple", "complete"), ("simple", "empty"),
                 ("dag", "path"), ("dag", "tree"), ("dag", "pyramid"),
                 ("digraph", "path"), ("digraph", "tree"), ("digraph", "pyramid"),
                 ("bipartite", "shift"), ("bipartite", "complete"), ("bipartite", "empty")}
CLASS = {"simple": cg.Graph, "dag": cg.DirectedGraph, "digraph": cg.DirectedGraph, "bipartite": cg.BipartiteGraph}

NUMERALS = ["0", "1", "2", "3", "5", "10", "-1", "+2", "1.5", ".5", "5.", "1e2", "1E-2", "1_0", "1_0.0_1", "inf", "-Infinity",
            "nan", "+NaN", " 3", "3 ", "\t4\n", "٣", "１２", "١.٢e٣", "\xa07", "1e999",
            "\U0001d7cf"]
NON_NUMERALS = ["0x10", "1__0", "_1", "1_", "1_.5", "1e", "e5", ".", "+", "-", "--", "1,5", "\xbd", "\x1c1", "infinit",
                "in_f", "1 2", "+ 1", "1e_1", "−" + "1", "1f", "", "\x7f1", "①", "١٢x"]
FILENAMES = ["g.gml", "g.kthlist", "g.dot", "g.matrix", "g.dimacs", "noext", ".gml", "a.b/c", "a..gml", "G.GML", "x",
             "dir.gml/", "g.gml.txt", "é.gml", "-", "g.", "autodetect"]
DASHES = ["-v", "--seed", "-", "-1x"]
RESERVED = ["graphtype", "construction", "filename", "fileformat", "args"]
VOCAB = (ALL_CONS + ALL_OPTS + ALL_FMTS + GTYPES + NUMERALS[:14] + NON_NUMERALS[:12] + FILENAMES[:8] + DASHES + RESERVED +
         ["", "autodetect"])


# ------------------------------------------------------------------ formatting (same as Driver/GraphSpec.lean)
def fmt_str(s):
    return "0" if len(s) == 0 else "{} {}".format(len(s), " ".join(str(ord(c)) for c in s))


def fmt_ostr(s):
    return "-1" if s is None else fmt_str(s)


def fmt_toks(l):
    return " ".join([str(len(l))] + [fmt_str(t) for t in l])


BASE_KEYS = ("graphtype", "construction", "filename", "fileformat")


def fmt_parsed(d):
    if not isinstance(d, dict):
        return "NOT-A-DICT " + type(d).__name__
    for k in BASE_KEYS:
        if k not in d:
            return "MISSING-KEY " + k
    if "args" not in d:
        a = "-2"
    elif d["args"] is None:
        a = "-1"
    else:
        a = fmt_toks(d["args"])
    opts = [k for k in d if k not in BASE_KEYS and k not in ("args", "save")]
    o = " ".join([str(len(opts))] + ["{} {}".format(fmt_str(k), fmt_toks(d[k])) for k in opts])
    s = fmt_toks(d["save"]) if "save" in d else "-1"
    return common.ok("{} {} {} {} {} {} {}".format(fmt_str(d["graphtype"]), fmt_ostr(d["construction"]),
                                                   fmt_ostr(d["filename"]), fmt_ostr(d["fileformat"]), a, o, s))


def is_float(t):
    try:
        float(t)
        return True
    except ValueError:
        return False


# ------------------------------------------------------------------ the oracle's own reading of the documentation
def print_in_order(d):
    """the dictionary printed back in insertion order"""
    if d.get("construction") is not None:
        out = [d["construction"]] + list(d.get("args") or [])
    elif d.get("fileformat") == "autodetect":
        out = [d["filename"]]
    else:
        out = [d["fileformat"], d["filename"]]
    for k in d:
        if k in BASE_KEYS or k == "args":
            continue
        if k == "save":
            fmt, fn = d[k]
            out += ["save", fn] if fmt == "autodetect" else ["save", fmt, fn]
        else:
            out += [k] + list(d[k])
    return out


def print_canonical(d):
    """source, numeric options, then save"""
    d2 = {k: d[k] for k in d if k != "save"}
    if "save" in d:
        d2["save"] = d["save"]
    return print_in_order(d2)


def surely_legal(gtype, spec):
    """a conservative recogniser of the DOCUMENTED grammar (module docstring of graph_args.py):
    construction numbers* | format filename | filename, then options (each at most once) with numbers,
    `save [format] filename`.  True => the request must not be refused."""
    keywords = set(ALL_CONS) | set(ALL_OPTS) | set(ALL_FMTS) | set(GTYPES) | {"autodetect"}
    if not spec:
        return False
    i = 0
    if spec[0] in DOC_CONS[gtype]:
        i = 1
        while i < len(spec) and is_float(spec[i]):
            i += 1
    elif spec[0] in DOC_FMTS[gtype]:
        if len(spec) < 2:
            return False
        i = 2
    elif spec[0] in keywords or spec[0] == "" or spec[0].startswith("-") or is_float(spec[0]):
        return False
    else:
        i = 1
    seen = set()
    while i < len(spec):
        w = spec[i]
        if w not in DOC_OPTS[gtype] or w in seen:
            return False
        seen.add(w)
        i += 1
        if w == "save":
            if i < len(spec) and spec[i] in DOC_FMTS[gtype]:
                i += 1
            if i >= len(spec) or spec[i] in keywords:
                return False
            i += 1
        else:
            while i < len(spec) and is_float(spec[i]):
                i += 1
    return True


def small_ints(toks, top=8):
    try:
        v = [int(t) for t in toks]
    except ValueError:
        return None
    return v if all(-3 <= x <= top for x in v) else None


def documented_order(gtype, cons, a):
    """number of vertices promised for a deterministic construction (None: not promised / refusal allowed)"""
    if (gtype, cons) in {("simple", "grid"), ("simple", "torus")}:
        if len(a) == 0 or any(x <= 0 for x in a) or (cons == "torus" and 1 in a):
            return None
        n = 1
        for x in a:
            n *= x
        return n
    if (gtype, cons) == ("simple", "complete"):
        return a[0] if len(a) == 1 and a[0] > 0 else (a[0] * a[1] if len(a) == 2 and min(a) > 0 else None)
    if (gtype, cons) == ("simple", "empty"):
        return a[0] if len(a) == 1 and a[0] > 0 else None
    if cons == "path" and gtype in ("dag", "digraph"):
        return a[0] + 1 if len(a) == 1 and a[0] >= 0 else None
    if cons == "tree":
        return 2 ** (a[0] + 1) - 1 if len(a) == 1 and a[0] >= 0 else None
    if cons == "pyramid":
        return (a[0] + 1) * (a[0] + 2) // 2 if len(a) == 1 and a[0] >= 0 else None
    if gtype == "bipartite" and cons in ("complete", "empty"):
        return (a[0], a[1]) if len(a) == 2 and min(a) > 0 else None
    if gtype == "bipartite" and cons == "shift":
        if len(a) >= 2 and a[0] > 0 and a[1] > 0 and len(set(a[2:])) == len(a[2:]) and all(0 <= x <= a[1] for x in a[2:]):
            return (a[0], a[1])
        return None
    return None


def order_of(G):
    if isinstance(G, cg.BipartiteGraph):
        return (G.left_order(), G.right_order())
    return G.number_of_vertices()


def check_accepted(gtype, spec, d):
    if d.get("graphtype") != gtype:
        return {"what": "graphtype", "got": d.get("graphtype")}
    for k in BASE_KEYS:
        if k not in d:
            return {"what": "missing key", "key": k}
    c, fn, ff = d["construction"], d["filename"], d["fileformat"]
    if (c is None) == (fn is None):
        return {"what": "not exactly one source", "construction": c, "filename": fn}
    if c is not None:
        if c not in DOC_CONS[gtype]:
            return {"what": "construction of another graph type accepted", "construction": c}
        if ff is not None or not isinstance(d.get("args"), list) or not all(is_float(t) for t in d["args"]):
            return {"what": "construction source malformed", "args": d.get("args"), "fileformat": ff}
    else:
        if ff != "autodetect" and ff not in DOC_FMTS[gtype]:
            return {"what": "file format not supported for the graph type", "fileformat": ff}
        if d.get("args") is not None:
            return {"what": "file source with args", "args": d.get("args")}
    for k in d:
        if k in BASE_KEYS or k == "args":
            continue
        if k not in DOC_OPTS[gtype]:
            return {"what": "option not available for the graph type", "option": k}
        if k == "save":
            v = d[k]
            if not (isinstance(v, list) and len(v) == 2 and all(isinstance(x, str) for x in v)
                    and (v[0] == "autodetect" or v[0] in DOC_FMTS[gtype])):
                return {"what": "save without format / file name", "save": v}
        elif not (isinstance(d[k], list) and all(is_float(t) for t in d[k])):
            return {"what": "option arguments not numeric", "option": k, "value": d[k]}
    back = print_in_order(d)
    if back != list(spec):
        return {"what": "tokens lost, invented or moved", "printed": back}
    again = graph_args.parse_graph_argument(gtype, print_canonical(d))
    if again != d:
        return {"what": "canonical print does not re-parse to the same request", "printed": print_canonical(d),
                "again": repr(again)[:300]}
    return None


def check_graph(gtype, spec, d):
    """make_graph_from_spec on a deterministic construction (no file, no save)"""
    c = d["construction"]
    if c is None or "save" in d or (gtype, c) not in DETERMINISTIC:
        return None
    a = small_ints(d["args"])
    if a is None or len(a) > 4:
        return None
    for k in ("plantclique", "plantbiclique", "addedges", "splitedges"):
        if k in d and small_ints(d[k], 4) is None:
            return None
    promised = documented_order(gtype, c, a)
    if isinstance(promised, int) and promised > 300:
        return None
    state = pyrandom.getstate()     # the module-level generator belongs to the code under test: leave it as found
    try:
        G = graph_args.make_graph_from_spec(gtype, list(spec))
    except ValueError:
        return None if (promised is None or len(d) > 5) else {"what": "refused-legal construction", "promised": promised}
    except Exception as e:  # noqa
        return {"what": "make_graph_from_spec: exception other than ValueError", "exception": type(e).__name__}
    finally:
        pyrandom.setstate(state)
    if not isinstance(G, CLASS[gtype]):
        return {"what": "graph of another kind", "class": type(G).__name__}
    if promised is None:
        return {"what": "accepted-illegal construction arguments", "order": order_of(G)}
    want = promised
    if "splitedges" in d:
        want = promised + int(d["splitedges"][0])
    if order_of(G) != want:
        return {"what": "number of vertices", "want": want, "got": order_of(G)}
    return None


def classify(gtype, spec):
    if gtype not in GTYPES:
        return "gs:unknown-graphtype"
    if "" in spec[1:]:
        return "gs:empty-word"
    if not spec:
        return "gs:empty-list"
    s0 = spec[0]
    if s0 in DOC_CONS[gtype]:
        src = "construction"
    elif s0 in DOC_FMTS[gtype]:
        src = "format+file"
    elif s0 in ALL_CONS or s0 in ALL_FMTS:
        src = "keyword-of-other-type"
    else:
        src = "file"
    nopt = sum(1 for t in spec[1:] if t in ALL_OPTS)
    return "gs:{}:{}opt".format(src, min(nopt, 3))


# ------------------------------------------------------------------ builders
def build_parse(info):
    gtype, spec = info["gtype"], list(info["spec"])
    request = common.req("gs_parse", DOT, common.enc_str(gtype), [len(spec)],
                         *[common.enc_str(t) for t in spec])

    def impl():
        return fmt_parsed(graph_args.parse_graph_argument(gtype, list(spec)))

    def oracle():
        if gtype not in GTYPES:
            return None
        arg = list(spec)
        try:
            d = graph_args.parse_graph_argument(gtype, arg)
        except ValueError:
            if surely_legal(gtype, spec):
                return {"what": "refused-legal request", "gtype": gtype, "spec": spec}
            return None
        except Exception as e:  # noqa
            return {"what": "exception other than ValueError", "exception": type(e).__name__, "gtype": gtype, "spec": spec}
        if arg != list(spec):
            return {"what": "the token list was modified", "after": arg}
        if not isinstance(d, dict):
            return {"what": "not a dictionary", "type": type(d).__name__}
        r = check_accepted(gtype, spec, d)
        if r is None:
            r = check_graph(gtype, spec, d)
        if r is not None:
            r.update(gtype=gtype, spec=spec)
        return r

    return common.Case("gs_parse", request, impl, oracle, classify(gtype, spec), True, info)


def build_render(info):
    gtype, spec = info["gtype"], list(info["spec"])
    request = common.req("gs_render", DOT, common.enc_str(gtype), [len(spec)], *[common.enc_str(t) for t in spec])

    def impl():
        return common.ok(fmt_toks(print_canonical(graph_args.parse_graph_argument(gtype, list(spec)))))

    return common.Case("gs_render", request, impl, None, classify(gtype, spec), True, info)


def build_str(info):
    gtype, text = info["gtype"], info["text"]
    request = common.req("gs_parse_str", DOT, common.enc_str(gtype), common.enc_str(text))

    def impl():
        return fmt_parsed(graph_args.parse_graph_argument(gtype, text))

    def oracle():
        # the string branch is the list branch on text.split()
        def run(x):
            try:
                return ("ok", graph_args.parse_graph_argument(gtype, x))
            except Exception as e:  # noqa
                return ("exc", type(e).__name__)
        a, b = run(text), run(text.split())
        return None if a == b else {"what": "string branch differs from the list branch on split()", "text": text}

    return common.Case("gs_str", request, impl, oracle, "gs:str", True, info)


def build_float(info):
    tok = info["tok"]
    request = common.req("gs_float", common.enc_str(tok))

    def impl():
        return common.ok("1" if is_float(tok) else "0")

    return common.Case("gs_float", request, impl, None, "gs:float:" + ("ascii" if tok.isascii() else "unicode"), True, info)


class _Named(io.StringIO):
    def __init__(self, name):
        super().__init__()
        self.name = name


def build_ext(info):
    name, gtype, fmt = info["name"], info["gtype"], info["fmt"]
    if fmt is None:
        request = common.req("gs_ext", common.enc_str(name))

        def impl():
            return common.ok(fmt_str(os.path.splitext(name)[-1][1:]))
    else:
        request = common.req("gs_resolve", DOT, common.enc_str(gtype), common.enc_str(fmt), common.enc_str(name))

        def impl():
            try:
                _, f = cg._process_graph_io_arguments(_Named(name), gtype, fmt, False)
            except ValueError:
                return common.ok("-1")
            return common.ok(fmt_str(f))
    return common.Case("gs_ext", request, impl, None, "gs:ext" if fmt is None else "gs:resolve", True, info)


def build_tables(info):
    request = common.req("gs_tables")

    def impl():
        runs, spaces = [], []
        cp = 0
        while cp < 0x110000:
            d = unicodedata.decimal(chr(cp), -1)
            if d == 0 and all(unicodedata.decimal(chr(cp + i), -1) == i for i in range(10)):
                runs.append(cp)
                cp += 10
                continue
            if d >= 0:
                runs.append(-cp)      # a digit outside a 0..9 run: the table shape of the model is wrong
            cp += 1
        for cp in range(128, 0x110000):
            if chr(cp).isspace():
                spaces.append(cp)
        return common.ok(" ".join(str(x) for x in [len(runs)] + runs + [len(spaces)] + spaces))

    return common.Case("gs_tables", request, impl, None, "gs:tables", False, info)


def build(suite, info):
    if suite == "gs_parse":
        return build_parse(info)
    if suite == "gs_render":
        return build_render(info)
    if suite == "gs_str":
        return build_str(info)
    if suite == "gs_float":
        return build_float(info)
    if suite == "gs_ext":
        return build_ext(info)
    if suite == "gs_tables":
        return build_tables(info)
    raise ValueError("unknown suite " + suite)


# ------------------------------------------------------------------ generators
def option_words(opt, k):
    """the words of one option occurrence, variant k"""
    if opt == "save":
        return [["save", "out.gml"], ["save", "kthlist", "out"], ["save"], ["save", "gml"], ["save", "matrix", "f"],
                ["save", "noext"], ["save", ""], ["save", "save"], ["save", "dimacs", "save"], ["save", "dot", "x.y"],
                ["save", "autodetect", "f"], ["save", "7"]][k % 12]
    return [[opt, "2"], [opt, "2", "2"], [opt], [opt, "x"], [opt, "1.5"], [opt, "-1", "nan"]][k % 6]


def structured(quick):
    out = []
    for g in GTYPES:
        out.append((g, []))
        # ---- every construction of every graph type (its own and the others')
        for (g2, c), right in sorted(RIGHT_ARGS.items()):
            if g2 == "digraph":
                continue
            base = [c] + right
            variants = [base, base[:-1], base + ["3"], [c], [c, "x"] + right, base[:1] + ["x"] + base[1:],
                        base + ["x"], base + [""], [c] + right[:-1] + ["1e1"], [c] + ["٣"] * len(right),
                        [c, "nan"], [c, "-v"], [c, "--"], [c] + right + [g], [c] + right + [c]]
            if g2 != g and c not in DOC_CONS[g]:
                variants = variants[:3]
            for v in variants:
                out.append((g, v))
            if c not in DOC_CONS[g]:
                continue
            # ---- every option word at every position, alone, twice, and pairs
            for oi, opt in enumerate(ALL_OPTS):
                nvar = 12 if opt == "save" else 6
                for k in range(nvar):
                    w = option_words(opt, k)
                    out.append((g, base + w))
                    if k < 2 or not quick:
                        for pos in range(0, len(base)):
                            out.append((g, base[:pos] + w + base[pos:]))
                    if k < 3:
                        out.append((g, base + w + w))
                        out.append((g, base + w + option_words(opt, k + 1)))
                for opt2 in ALL_OPTS:
                    if opt2 != opt:
                        out.append((g, base + option_words(opt, 0) + option_words(opt2, 0)))
                        out.append((g, base + option_words(opt, 0) + option_words(opt2, 1) + option_words(opt, 1)))
        # ---- files
        for fn in FILENAMES + NUMERALS[:6] + NON_NUMERALS[:8] + DASHES + RESERVED + GTYPES:
            out.append((g, [fn]))
            out.append((g, [fn, "save", "copy.kthlist"]))
            out.append((g, [fn, "addedges", "1"]))
            out.append((g, [fn, "3"]))
            out.append((g, [fn, fn]))
        for fmt in ALL_FMTS + ["autodetect"]:
            out.append((g, [fmt]))
            for fn in FILENAMES[:6] + [fmt, "save", "3", "", "-", "gnp", g]:
                out.append((g, [fmt, fn]))
                out.append((g, [fmt, fn, "save", fmt, "copy"]))
                out.append((g, [fmt, fn, "plantclique", "2", "addedges", "1"]))
                out.append((g, [fmt, fn, "x"]))
    out.append(("foo", ["gnp", "1"]))
    out.append(("foo", []))
    out.append(("", ["x"]))
    return out


def mutate(rng, spec):
    spec = list(spec)
    for _ in range(rng.choice([1, 1, 2, 3])):
        kind = rng.choice(["delete", "duplicate", "swap", "insert", "insert", "replace"])
        if kind == "delete" and spec:
            del spec[rng.randrange(len(spec))]
        elif kind == "duplicate" and spec:
            i = rng.randrange(len(spec))
            spec.insert(rng.randrange(len(spec) + 1), spec[i])
        elif kind == "swap" and len(spec) >= 2:
            i, j = rng.randrange(len(spec)), rng.randrange(len(spec))
            spec[i], spec[j] = spec[j], spec[i]
        elif kind == "insert":
            spec.insert(rng.randrange(len(spec) + 1), rng.choice(VOCAB))
        elif kind == "replace" and spec:
            spec[rng.randrange(len(spec))] = rng.choice(VOCAB)
    return spec


FLOAT_ALPHABET = "0123456789+-.eE_ infatyINFATY\t\n\xa0٣１x,"


def cases(ctx):
    tier, seed = ctx["tier"], ctx["seed"]
    quick = tier == "quick"
    rng = common.sub_rng(seed, "C15_spec")
    infos = []

    # ---- corpus: regression of C15-S1 (IndexError on an empty word in option position, fixed by 4e949d4: the oracle
    #      demands a dictionary or ValueError) and its neighbours
    for g, spec in [("simple", ["x", ""]), ("simple", ["gnp", ""]), ("dag", [""]), ("dag", ["", ""]),
                    ("bipartite", ["glrd", "1", "2", "3", "addedges", "", "save", "x"]),
                    ("simple", ["gnm", "10", "15", "save", ""]), ("simple", ["gnm", "10", "15", "save", "gml", ""]),
                    ("simple", ["gnm", "10", "15", "addedges", "4", "save", "kthlist", "out.txt"]),
                    ("simple", ["file.gml"]), ("simple", ["dot", "file"]),
                    ("bipartite", ["glrd", "5", "6", "2", "plantbiclique", "2", "2"]),
                    ("simple", ["gnm", "10", "15", "simple"]), ("simple", ["gnm", "10", "15", "gnp"])]:
        infos.append(("gs_parse", dict(gtype=g, spec=spec)))
    infos.append(("gs_tables", dict()))

    pool = structured(quick)
    seen = set()
    for g, spec in pool:
        key = (g, tuple(spec))
        if key not in seen:
            seen.add(key)
            infos.append(("gs_parse", dict(gtype=g, spec=spec)))

    # ---- mutational stream
    bases = [p for p in pool if p[0] in GTYPES and p[1]]
    for _ in range(1500 if quick else 20000):
        g, spec = rng.choice(bases)
        if rng.random() < 0.15:
            g = rng.choice(GTYPES)
        spec = mutate(rng, spec)
        key = (g, tuple(spec))
        if key not in seen:
            seen.add(key)
            infos.append(("gs_parse", dict(gtype=g, spec=spec)))

    # ---- the canonical printer, on every token list above
    for suite, info in list(infos):
        if suite == "gs_parse":
            infos.append(("gs_render", info))

    # ---- the string branch
    for g, text in [("simple", "gnm 10 15 addedges 4"), ("simple", "  gnp\t10 .5\n"), ("bipartite", "glrd 3\x1c4 2"),
                    ("dag", ""), ("dag", "   "), ("simple", "grid 2\xa03 save x.gml"), ("simple", "gnp 3 .5 \x85 splitedges 1"),
                    ("simple", "x\x0b\x0cy"), ("simple", "gnm\x1f3\x1e3\x1d"), ("dag", "pyramid 3 save dot f")]:
        infos.append(("gs_str", dict(gtype=g, text=text)))
    for _ in range(40 if quick else 400):
        g, spec = rng.choice(bases)
        sep = rng.choice([" ", "  ", "\t", "\n", "\xa0", "\x1c", "  "])
        infos.append(("gs_str", dict(gtype=g, text=sep.join(mutate(rng, spec)))))

    # ---- float()
    toks = list(NUMERALS) + list(NON_NUMERALS) + ["Inf", "INFINITY", "iNfInItY", "nAn", "-nan", "+inf", "infinity_", "1e+5",
                                                   "1e-5", "1e+-5", "1.e", "1.e1", ".e1", "..1", "1..", "1.1.1", "1e1e1",
                                                   "١_٢", "1١", "　 1", "1 ", "﻿1", "​1",
                                                   "᠎1", "\x851", "1\x00", "1_000_000", "0_0", "1_e5", "1e5_", "-_1", "+.5",
                                                   "-.5e-0_1", "\t", "\n1", "1\r", "\x0b1\x0c", "\x1f1", "9" * 400,
                                                   "1" + "0" * 5000, "0." + "0" * 400 + "1", "²", "٠", "۱۲۳", "1e٣",
                                                   "nan\xa0", "\xa0nan", "ınf", "ｉｎｆ", "Kn", "inſ"]
    for _ in range(900 if quick else 9000):
        n = rng.choice([1, 2, 2, 3, 3, 4, 5, 6, 8])
        toks.append("".join(rng.choice(FLOAT_ALPHABET) for _ in range(n)))
    for _ in range(100 if quick else 1500):
        t = rng.choice(NUMERALS)
        i = rng.randrange(len(t) + 1)
        toks.append(t[:i] + rng.choice(FLOAT_ALPHABET) + t[i:])
    for t in sorted(set(toks)):
        infos.append(("gs_float", dict(tok=t)))

    # ---- extensions
    names = list(FILENAMES) + ["", ".", "..", "...", "a", "a.", ".a", "a.b", "a.b.c", "/a.b", "a.b/", "a.b/c", "a.b/.c",
                               "a.b/..c", "a.b/c.", "a/b.c/d.e", "...a.b", "/...a", "a.kthlist", "x/y.z/w.kthlist"]
    for _ in range(300 if quick else 3000):
        names.append("".join(rng.choice("ab./") for _ in range(rng.randrange(1, 8))))
    for n in sorted(set(names)):
        infos.append(("gs_ext", dict(name=n, gtype="simple", fmt=None)))
    for g in GTYPES:
        for fmt in ALL_FMTS + ["autodetect", "", "GML"]:
            for n in ["f." + e for e in ALL_FMTS] + ["f", "f.txt", "f.GML", ".gml", "a.gml/b"]:
                infos.append(("gs_ext", dict(name=n, gtype=g, fmt=fmt)))

    for suite, info in infos:
        yield build(suite, info)


def search(ctx, case):
    """correspondence broke: evaluate the property (oracle) on the disagreeing input and on the token lists
    obtained by deleting one word"""
    if case.suite != "gs_parse":
        return None
    info = case.info
    tries = [info] + [dict(gtype=info["gtype"], spec=info["spec"][:i] + info["spec"][i + 1:])
                      for i in range(len(info["spec"]))]
    for i2 in tries:
        c = build("gs_parse", i2)
        r = common.run_oracle(c)
        if r is not None:
            return {"suite": "gs_parse", "info": i2, "failure": r}
    return None


def search_global(ctx):
    for c in cases({"tier": "quick", "seed": ctx.get("seed", 0), "prop": "C15"}):
        if c.oracle is None:
            continue
        r = common.run_oracle(c)
        if r is not None:
            return {"suite": c.suite, "info": c.info, "failure": r}
    return None
