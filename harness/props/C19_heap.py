"""C19 (heap) — object identity, aliasing and non-interference: the HEAP model against the real objects.

Correspondence.  A *history* is a short program over registers (build formulas and caller-owned lists, add clauses from
list objects / tuples / generators, take `F[i]`, iterate, take views and slices, transform, mutate the result, mutate the
input, mutate the caller's lists afterwards, chains, the same formula transformed twice, the `!=` constraint on a caller's
list, OPB constraint storage).  The real code runs it on real objects; the Lean driver (`heap …`) runs the heap model of
lean/CnfgenModel/Heap.  Compared, as one canonical string:
  * the outcome of every instruction (exception class name),
  * a deep snapshot of every register's object at the end (clauses, variable count, header, names; list contents),
  * the SHARING GRAPH: for every object slot reachable from the registers (the object, its header dict, its `_clauses`
    list, its `_groups` list, every stored clause / constraint object, elements of lists of lists, a view's `.F` / `.data`)
    the alias class of the object in it — `id()` on the Python side, the address in the model — numbered by first
    occurrence, never a raw address.
Oracle = the property itself, independent of the model: after every instruction every object held in a register is
deep-equal to its previous snapshot unless the documentation says this instruction may change it (the formula the method
was called on; the formula whose stored clause object was handed out by iteration and is now written to; the very list
object written to).  A transformation may change nothing that existed, must return a new object, and must extend the
header by exactly one numbered entry.
"""
from harness import common
from harness.common import Case, req, enc_list, enc_str, enc_pairs, OPCODE, fmt_clauses, fmt_pbc, fmt_pbcs

import cnfgen
from cnfgen import graphs as G
from cnfgen.formula.basecnf import BaseCNF, ClausesView
from cnfgen.formula.baseopb import BaseOPB
from cnfgen.formula.opb import OPB
from cnfgen.transformations.substitutions import add_description

RULE = ("histories over registers (3-16 instructions) generated while running them on the real objects, so that every "
        "register reference is well typed; scripted scenarios (transform / mutate result / mutate input / chains / twice / "
        "explicit shuffle lists / compression graph / != on a caller's list / OPB storage / live views) first; a few large "
        "and odd ones (300 clauses, width 70, literals beyond 2^64, 40 header entries with gaps and non-ASCII keys); "
        "distinct = distinct program; all non-trivial")
ASSUMPTIONS = ["temporaries that never escape a call (gadget encoders' temporary CNF objects, tuples, the substitution "
               "table) are not allocated in the model's store",
               "variable groups are kept by value in the model (a group made from a graph refers to the caller's graph "
               "in Python; the heap suites use only variable / block groups)"]
TRUSTED_EXTRA = ["Python's id() as object identity while all objects are kept alive"]

OPS = ["<=", ">=", "<", ">", "==", "!="]
TCODE = {"flip": 0, "xor": 1, "or": 2, "maj": 3, "eq": 4, "neq": 5, "one": 6, "lin": 7, "ite": 8, "lift": 9,
         "compress": 10, "shuffle": 11}


def hdr0():
    return list(cnfgen.CNF().header.items())[1:]


# ------------------------------------------------------------------------------------------------ encoding
def enc_optstr(s):
    return [-1] if s is None else enc_str(s)


def enc_instr(ins):
    k = ins[0]
    if k == "newcnf":
        return [0] + enc_optstr(ins[1])
    if k == "mklist":
        return [1] + enc_list(ins[1])
    if k == "mklists":
        return [2] + enc_list(ins[1])
    if k == "addclause":
        return [3, ins[1], ins[2], int(ins[3])]
    if k == "addclausegen":
        return [4, ins[1]] + enc_list(ins[2]) + [int(ins[3])]
    if k == "addfrom":
        return [5, ins[1], ins[2], int(ins[3])]
    if k == "getitem":
        return [6, ins[1], ins[2]]
    if k == "iteritem":
        return [7, ins[1], ins[2]]
    if k == "view":
        return [8, ins[1]]
    if k == "viewget":
        return [9, ins[1], ins[2]]
    if k == "viewslice":
        return [10, ins[1], ins[2], ins[3]]
    if k == "viewiter":
        return [11, ins[1], ins[2]]
    if k == "elem":
        return [12, ins[1], ins[2]]
    if k == "setitem":
        return [13, ins[1], ins[2], ins[3]]
    if k == "append":
        return [14, ins[1], ins[2]]
    if k == "hdrset":
        return [15, ins[1]] + enc_str(ins[2]) + enc_str(ins[3])
    if k == "updvar":
        return [16, ins[1], ins[2]]
    if k == "newvar":
        return [17, ins[1], 0] + enc_optstr(ins[2])
    if k == "newblock":
        return [17, ins[1], 1] + enc_list(ins[2]) + enc_optstr(ins[3])
    if k == "describe":
        return [18, ins[1]] + enc_str(ins[2])
    if k == "trans":
        t = ins[2]
        out = [19, ins[1], TCODE[t]]
        if t in ("xor", "or", "maj", "eq", "neq", "one", "lift"):
            out += [ins[3]]
        elif t == "lin":
            out += [ins[3], OPCODE[ins[4]], ins[5]]
        elif t == "compress":
            out += [ins[3], ins[4]]
        elif t == "shuffle":
            out += [(-1 if x is None else x) for x in ins[3:6]]
        return out
    if k == "mkbip":
        return [20, ins[1], ins[2]] + enc_pairs(ins[3])
    if k == "addlinear":
        return [21, ins[1], ins[2], OPCODE[ins[3]], ins[4], int(ins[5])]
    if k == "newopb":
        return [22] + enc_optstr(ins[1])
    if k == "mkpbc":
        return [23] + enc_pairs(ins[1]) + [OPCODE[ins[2]], ins[3]]
    if k == "opbaddclause":
        return [24, ins[1], ins[2], int(ins[3])]
    if k == "opbaddconstraint":
        return [25, ins[1], ins[2], int(ins[3])]
    if k == "opbcard":
        return [26, ins[1], ins[2], OPCODE[ins[3]], ins[4], int(ins[5])]
    if k == "opbgetitem":
        return [27, ins[1], ins[2]]
    if k == "opbiteritem":
        return [28, ins[1], ins[2]]
    if k == "pbcset":
        return [29, ins[1], ins[2], ins[3], ins[4]]
    if k == "normbip":
        return [30, ins[1]]
    if k == "bipaddedge":
        return [31, ins[1], ins[2], ins[3]]
    raise ValueError("unknown instruction " + repr(ins))


def enc_prog(prog):
    h = hdr0()
    parts = [len(h)]
    for k, v in h:
        parts += enc_str(k) + enc_str(v)
    parts.append(len(prog))
    for ins in prog:
        parts += enc_instr(ins)
    return req("heap", parts)


# ------------------------------------------------------------------------------------------------ the real objects
FN_NAMES = {0: "xor", 1: "maj"}


def do_trans(regs, ins):
    F, t = regs[ins[1]], ins[2]
    if t == "flip":
        return cnfgen.FlipPolarity(F)
    if t == "xor":
        return cnfgen.XorSubstitution(F, ins[3])
    if t == "or":
        return cnfgen.OrSubstitution(F, ins[3])
    if t == "maj":
        return cnfgen.MajoritySubstitution(F, ins[3])
    if t == "eq":
        return cnfgen.AllEqualSubstitution(F, ins[3])
    if t == "neq":
        return cnfgen.NotAllEqualSubstitution(F, ins[3])
    if t == "one":
        return cnfgen.ExactlyOneSubstitution(F, ins[3])
    if t == "lin":
        from cnfgen.transformations.substitutions import LinearSubstitution
        return LinearSubstitution(F, ins[3], ins[4], ins[5])
    if t == "ite":
        return cnfgen.IfThenElseSubstitution(F)
    if t == "lift":
        return cnfgen.FormulaLifting(F, ins[3])
    if t == "compress":
        return cnfgen.VariableCompression(F, regs[ins[3]], FN_NAMES.get(ins[4], "neither"))
    if t == "shuffle":
        a = ["fixed" if x is None else regs[x] for x in ins[3:6]]
        return cnfgen.Shuffle(F, a[0], a[1], a[2])
    raise ValueError(t)


def execute(regs, ins):
    """run one instruction on the real objects; returns the object for the new register (or None)"""
    k = ins[0]
    if k == "newcnf":
        return cnfgen.CNF(description=ins[1])
    if k == "mklist":
        return list(ins[1])
    if k == "mklists":
        return [regs[i] for i in ins[1]]
    if k == "addclause":
        regs[ins[1]].add_clause(regs[ins[2]], check=ins[3])
        return None
    if k == "addclausegen":
        lits = ins[2]
        arg = tuple(lits) if len(ins) > 4 and ins[4] == "tuple" else (x for x in lits)
        regs[ins[1]].add_clause(arg, check=ins[3])
        return None
    if k == "addfrom":
        regs[ins[1]].add_clauses_from(regs[ins[2]], check=ins[3])
        return None
    if k == "getitem":
        return regs[ins[1]][ins[2]]
    if k == "iteritem":
        return list(iter(regs[ins[1]]))[ins[2]]
    if k == "view":
        return regs[ins[1]].clauses()
    if k == "viewget":
        return regs[ins[1]][ins[2]]
    if k == "viewslice":
        return regs[ins[1]][ins[2]:ins[3]]
    if k == "viewiter":
        return list(iter(regs[ins[1]]))[ins[2]]
    if k == "elem":
        return regs[ins[1]][ins[2]]
    if k == "setitem":
        regs[ins[1]][ins[2]] = ins[3]
        return None
    if k == "append":
        regs[ins[1]].append(ins[2])
        return None
    if k == "hdrset":
        regs[ins[1]].header[ins[2]] = ins[3]
        return None
    if k == "updvar":
        regs[ins[1]].update_variable_number(ins[2])
        return None
    if k == "newvar":
        if ins[2] is None:
            regs[ins[1]].new_variable()
        else:
            regs[ins[1]].new_variable(label=ins[2])
        return None
    if k == "newblock":
        if ins[3] is None:
            regs[ins[1]].new_block(*ins[2])
        else:
            regs[ins[1]].new_block(*ins[2], label=ins[3])
        return None
    if k == "describe":
        add_description(regs[ins[1]], ins[2])
        return None
    if k == "trans":
        return do_trans(regs, ins)
    if k == "mkbip":
        B = G.BipartiteGraph(ins[1], ins[2])
        for u, v in ins[3]:
            B.add_edge(u, v)
        return B
    if k == "addlinear":
        regs[ins[1]].add_linear(regs[ins[2]], ins[3], ins[4], check=ins[5])
        return None
    if k == "newopb":
        return OPB(description=ins[1])
    if k == "mkpbc":
        return [tuple(t) for t in ins[1]] + [ins[2], ins[3]]
    if k == "opbaddclause":
        regs[ins[1]].add_clause(regs[ins[2]], check=ins[3])
        return None
    if k == "opbaddconstraint":
        regs[ins[1]].add_constraint(regs[ins[2]], check=ins[3])
        return None
    if k == "opbcard":
        m = {"<=": "cardinality_leq", ">=": "cardinality_geq", "==": "cardinality_eq", "!=": "cardinality_neq"}[ins[3]]
        getattr(regs[ins[1]], m)(regs[ins[2]], ins[4], check=ins[5])
        return None
    if k == "opbgetitem":
        return regs[ins[1]][ins[2]]
    if k == "opbiteritem":
        return list(iter(regs[ins[1]]))[ins[2]]
    if k == "pbcset":
        c = regs[ins[1]]
        if ins[2] >= len(c) - 2:
            raise IndexError("term index")
        c[ins[2]] = (ins[3], ins[4])
        return None
    if k == "normbip":
        return G.BipartiteGraph.normalize(regs[ins[1]])
    if k == "bipaddedge":
        regs[ins[1]].add_edge(ins[2], ins[3])
        return None
    raise ValueError("unknown instruction " + repr(ins))


def run_real(prog):
    regs, outs = [], []
    for ins in prog:
        try:
            obj = execute(regs, ins)
            regs.append(obj)
            outs.append("-")
        except Exception as e:   # noqa: the class of the exception is the observation
            regs.append(None)
            outs.append(type(e).__name__)
    return outs, regs


# ------------------------------------------------------------------------------------------------ observation
def fmt_str(s):
    return " ".join(str(x) for x in enc_str(s))


def fmt_header(h):
    items = list(h.items())
    return " ".join([str(len(items))] + [fmt_str(k) + " " + fmt_str(v) for k, v in items])


def fmt_names(F):
    try:
        names = list(F.all_variable_labels())
    except Exception as e:   # noqa
        return "E:" + type(e).__name__
    return " ".join([str(len(names))] + ["None" if n is None else fmt_str(n) for n in names])


def fmt_ints(xs):
    return " ".join(str(x) for x in [len(xs)] + list(xs))


def is_intlist(o):
    return isinstance(o, list) and all(isinstance(x, int) and not isinstance(x, bool) for x in o)


def is_pbc(o):
    return isinstance(o, list) and len(o) >= 2 and isinstance(o[-2], str)


def fmt_reg(o):
    if o is None:
        return "U"
    if isinstance(o, BaseCNF):
        return "F {} {} H {} N {}".format(o.number_of_variables(), fmt_clauses(o._clauses), fmt_header(o.header), fmt_names(o))
    if isinstance(o, BaseOPB):
        return "O {} {} H {}".format(o.number_of_variables(), fmt_pbcs(o._constraints), fmt_header(o.header))
    if isinstance(o, ClausesView):
        return "V {}".format(len(o))
    if isinstance(o, G.BipartiteGraph):
        return "G {} {} {}".format(o.left_order(), o.right_order(), " ".join(str(x) for x in enc_pairs(o.edges())))
    if is_pbc(o):
        return "C " + fmt_pbc(o)
    if is_intlist(o):
        return "I " + fmt_ints(o)
    if isinstance(o, list):
        return " ".join(["L {}".format(len(o))] + ["[" + (fmt_ints(x) if is_intlist(x) else "?") + "]" for x in o])
    return "?"


def slots(o):
    if isinstance(o, BaseCNF):
        return [o, o.header, o._clauses, o._groups] + list(o._clauses)
    if isinstance(o, BaseOPB):
        return [o, o.header, o._constraints, o._groups] + list(o._constraints)
    if isinstance(o, ClausesView):
        return [o, o.F, o.data]
    if is_pbc(o) or is_intlist(o):
        return [o]
    if isinstance(o, list):
        return [o] + list(o)
    return [o]


def sharing(regs):
    seen, out = {}, []
    for o in regs:
        if o is None:
            continue
        for x in slots(o):
            if id(x) not in seen:
                seen[id(x)] = len(seen)
            out.append(seen[id(x)])
    return out


def dump(outs, regs):
    return "OK " + " ".join(outs) + " | " + " ; ".join(fmt_reg(o) for o in regs) + " | " + " ".join(str(c) for c in sharing(regs))


def impl_of(prog):
    def impl():
        outs, regs = run_real(prog)
        return dump(outs, regs)
    return impl


# ------------------------------------------------------------------------------------------------ oracle
def deep(o):
    """deep snapshot used by the oracle (independent of the dump above)"""
    if o is None:
        return None
    if isinstance(o, BaseCNF):
        try:
            names = list(o.all_variable_labels())
        except Exception as e:   # noqa
            names = type(e).__name__
        return ("F", o.number_of_variables(), [list(c) for c in o], list(o.header.items()), names)
    if isinstance(o, BaseOPB):
        return ("O", o.number_of_variables(), [list(c) for c in o], list(o.header.items()))
    if isinstance(o, ClausesView):
        return ("V",)           # a view is live by design: not part of the snapshot discipline
    if isinstance(o, G.BipartiteGraph):
        return ("G", o.left_order(), o.right_order(), list(o.edges()), o.name,
                [list(o.right_neighbors(u)) for u in range(1, o.left_order() + 1)],
                [list(o.left_neighbors(v)) for v in range(1, o.right_order() + 1)])
    if isinstance(o, list):
        return ("L", [list(x) if isinstance(x, list) else x for x in o])
    return ("?",)


def is_formula(o):
    return isinstance(o, (BaseCNF, BaseOPB))


def oracle_of(prog):
    def oracle():
        regs = []
        owner = []          # per register: set of formula registers that may change when this object is written to
        elem_owner = []     # per register (lists of lists): owners of the elements
        view_of = {}
        snaps = []
        for pc, ins in enumerate(prog):
            k = ins[0]
            before_objs = list(regs)
            target = None       # the list object written to by this instruction (identity)
            allowed = set()     # formula registers this instruction may change
            own, eown = set(), None
            if k in ("addclause", "addclausegen", "addfrom", "hdrset", "updvar", "newvar", "newblock", "describe",
                     "addlinear", "opbaddclause", "opbaddconstraint", "opbcard"):
                allowed = {ins[1]}
            elif k in ("setitem", "append", "pbcset", "bipaddedge"):
                target = regs[ins[1]]
                allowed = set(owner[ins[1]])
            elif k in ("iteritem", "opbiteritem"):
                own = {ins[1]}
            elif k == "view":
                view_of[pc] = ins[1]
            elif k == "viewiter":
                own = {view_of[ins[1]]}
            elif k == "viewslice":
                eown = "all:" + str(view_of[ins[1]])
            elif k == "mklists":
                eown = [set(owner[i]) for i in ins[1]]
            elif k == "elem":
                eo = elem_owner[ins[1]]
                if isinstance(eo, str):
                    own = {int(eo[4:])}
                elif eo is not None:
                    try:
                        own = set(eo[ins[2]])
                    except IndexError:
                        own = set()
            try:
                obj = execute(regs, ins)
            except Exception:   # noqa: an instruction that raises must also leave everything else alone
                obj = None
            regs.append(obj)
            owner.append(own)
            elem_owner.append(eown)
            # --- the property: nothing else moved
            for j, o in enumerate(before_objs):
                if o is None or isinstance(o, ClausesView):
                    continue
                now = deep(o)
                if now == snaps[j]:
                    continue
                legit = False
                if is_formula(o):
                    legit = j in allowed
                elif target is not None:
                    legit = (o is target) or (isinstance(o, list) and any(x is target for x in o))
                    # O1 (documented by variables.py): a formula built from a graph refers to it; not produced by these suites
                if not legit:
                    return {"program": prog, "at_instruction": pc, "instruction": ins, "register_changed": j,
                            "was": repr(snaps[j])[:300], "now": repr(now)[:300]}
                snaps[j] = now
            snaps.append(deep(obj))
            # --- a transformation returns a new object whose header is the input's plus one numbered entry
            if k == "trans" and obj is not None:
                F = before_objs[ins[1]]
                if obj is F:
                    return {"program": prog, "at_instruction": pc, "returned_the_input_object": True}
                hin, hout = list(F.header.items()), list(obj.header.items())
                exp = [(kk, v + " (reshuffled)" if (kk == "description" and ins[2] == "shuffle") else v) for kk, v in hin]
                if hout[:len(hin)] != exp:
                    return {"program": prog, "at_instruction": pc, "old_header_entries_not_kept": hout[:len(hin) + 1]}
                new = hout[len(hin):]
                i = 1
                while "transformation {}".format(i) in dict(hin):
                    i += 1
                if len(new) != 1 or new[0][0] != "transformation {}".format(i):
                    return {"program": prog, "at_instruction": pc, "new_header_entries": new, "expected_number": i}
                # no object of the result is an object of anything that existed before
                old_ids = set()
                for o in before_objs:
                    if o is not None:
                        old_ids.update(id(x) for x in slots(o))
                shared = [type(x).__name__ for x in slots(obj) if id(x) in old_ids]
                if shared:
                    return {"program": prog, "at_instruction": pc, "result_shares_objects_with_earlier_ones": shared}
        return None
    return oracle


# ------------------------------------------------------------------------------------------------ generation
LABELS_VAR = ["X", "y_{1}", "z", "", "a{b}c", "}{"]
LABELS_BLOCK = ["p({})", "q[{}]", "r_{{{}}}", "w{0}"]
HKEYS = ["note", "transformation 2", "transformation 01", "transformation 7", "description", "transformation 1 ",
         "Transformation 1", "trasformazione è", "transformation 1"]
TRANS_K = ["xor", "or", "maj", "eq", "neq", "one", "lift"]


KIND_OF_INSTR = {"newcnf": "F", "newopb": "O", "mklist": "I", "mklists": "LL", "getitem": "I", "iteritem": "I", "view": "V",
                 "viewget": "I", "viewslice": "LL", "viewiter": "I", "elem": "I", "trans": "F", "mkbip": "G", "mkpbc": "C",
                 "opbgetitem": "C", "opbiteritem": "C", "normbip": "G"}


def kinds_of(prog, regs):
    """kind of the object in every register, by the instruction that made it (an empty list has no type of its own)"""
    out = {"F": [], "O": [], "I": [], "LL": [], "V": [], "G": [], "C": []}
    for i, o in enumerate(regs):
        k = KIND_OF_INSTR.get(prog[i][0])
        if o is not None and k is not None:
            out[k].append(i)
    return out


def small(F):
    return (len(F) <= 8 and F.number_of_variables() <= 6 and all(len(c) <= 3 for c in F))


def rand_lits(rng, maxvar=4, zero=0.05):
    n = rng.choice([0, 1, 1, 2, 2, 3, 3])
    out = []
    for _ in range(n):
        v = rng.randint(1, maxvar)
        out.append(0 if rng.random() < zero else (v if rng.random() < .5 else -v))
    return out


def rand_trans(rng, regs, kd, f):
    F = regs[f]
    n, m = F.number_of_variables(), len(F)
    choice = rng.choice(["flip", "k", "k", "lin", "ite", "lift", "compress", "shuffle", "shuffle"])
    if choice == "flip":
        return ["trans", f, "flip"], []
    if choice == "k":
        return ["trans", f, rng.choice(TRANS_K[:-1]), rng.choice([1, 2, 2, 3, 0, -1])], []
    if choice == "lift":
        return ["trans", f, "lift", rng.choice([1, 2, 2, 0])], []
    if choice == "lin":
        return ["trans", f, "lin", rng.choice([1, 2, 3]), rng.choice(OPS), rng.randint(-1, 3)], []
    if choice == "ite":
        return ["trans", f, "ite"], []
    if choice == "compress":
        left = n if rng.random() < .85 else n + 1
        right = rng.randint(1, 4)
        edges = [(u, v) for u in range(1, left + 1) for v in range(1, right + 1) if rng.random() < .5]
        rng.shuffle(edges)
        pre = [["mkbip", left, right, edges]]
        return ["trans", f, "compress", ("pre", 0), rng.choice([0, 1, 1, 0, 2])], pre
    # shuffle: each argument 'fixed' or an explicit list of the caller (mostly valid)
    pre, args = [], []
    for which in range(3):
        if rng.random() < .35:
            args.append(None)
            continue
        if which == 0:
            l = [rng.choice([1, -1]) for _ in range(n)]
        elif which == 1:
            l = list(range(1, n + 1))
            rng.shuffle(l)
        else:
            l = list(range(m))
            rng.shuffle(l)
        if rng.random() < .12 and l:
            l[rng.randrange(len(l))] = rng.choice([0, 2, -3, 99])
        if rng.random() < .06:
            l = l + [1]
        pre.append(["mklist", l])
        args.append(("pre", len(pre) - 1))
    return ["trans", f, "shuffle"] + args, pre


def gen_prog(rng, length):
    """generates a program while running it on the real objects (so that references are well typed)"""
    prog, regs = [], []

    def emit(ins):
        prog.append(ins)
        try:
            regs.append(execute(regs, ins))
        except Exception:   # noqa
            regs.append(None)
        return len(prog) - 1

    emit(["newcnf", rng.choice([None, "base formula", "", "déjà vu"])])
    for _ in range(rng.randint(1, 3)):
        emit(["addclausegen", 0, rand_lits(rng, zero=0), True, "tuple"])
    if rng.random() < .35:
        emit(["newopb", rng.choice([None, "pb"])])
    emit(["mklist", rand_lits(rng, zero=0)])
    weights = [("newcnf", 2), ("mklist", 6), ("addclause", 7), ("addclausegen", 3), ("mklists", 3), ("addfrom", 3),
               ("getitem", 5), ("iteritem", 8), ("view", 3), ("viewop", 7), ("elem", 4), ("write", 14), ("hdrset", 5),
               ("updvar", 2), ("newgroup", 4), ("describe", 2), ("addlinear", 6), ("trans", 16), ("opb", 10), ("graph", 3)]
    bag = [w for w, k in weights for _ in range(k)]
    while len(prog) < length:
        kd = kinds_of(prog, regs)
        what = rng.choice(bag)
        # a formula: prefer the most recent ones (results of transformations) half of the time
        F = (kd["F"][-1] if rng.random() < .4 else rng.choice(kd["F"])) if kd["F"] else None
        if what == "newcnf" or F is None:
            emit(["newcnf", rng.choice([None, "another"])])
        elif what == "mklist":
            emit(["mklist", rand_lits(rng)])
        elif what == "addclause" and kd["I"]:
            emit(["addclause", F, rng.choice(kd["I"]), rng.random() < .8])
        elif what == "addclausegen":
            emit(["addclausegen", F, rand_lits(rng), rng.random() < .8, rng.choice(["tuple", "gen"])])
        elif what == "mklists" and kd["I"]:
            emit(["mklists", [rng.choice(kd["I"]) for _ in range(rng.randint(0, 3))]])
        elif what == "addfrom" and kd["LL"]:
            emit(["addfrom", F, rng.choice(kd["LL"]), rng.random() < .8])
        elif what == "getitem":
            emit(["getitem", F, rng.randint(-2, max(1, len(regs[F])))])
        elif what == "iteritem":
            emit(["iteritem", F, rng.randint(-1, max(0, len(regs[F]) - 1))])
        elif what == "view":
            emit(["view", F])
        elif what == "viewop" and kd["V"]:
            v = rng.choice(kd["V"])
            c = rng.random()
            if c < .3:
                emit(["viewget", v, rng.randint(-1, len(regs[v]))])
            elif c < .7:
                emit(["viewslice", v, rng.randint(0, 2), rng.randint(0, 4)])
            else:
                emit(["viewiter", v, rng.randint(-1, len(regs[v]))])
        elif what == "elem" and kd["LL"]:
            ll = rng.choice(kd["LL"])
            emit(["elem", ll, rng.randint(-1, len(regs[ll]))])
        elif what == "write" and kd["I"]:
            l = kd["I"][-1] if rng.random() < .5 else rng.choice(kd["I"])
            if rng.random() < .75:
                emit(["setitem", l, rng.randint(-1, max(0, len(regs[l]))), rng.choice([1, -1, 2, -3, 5, 0])])
            else:
                emit(["append", l, rng.choice([1, -2, 4])])
        elif what == "hdrset":
            emit(["hdrset", F, rng.choice(HKEYS), rng.choice(["kept", "", "x y"])])
        elif what == "updvar":
            emit(["updvar", F, rng.choice([0, 3, 5, -1, 7])])
        elif what == "newgroup":
            if rng.random() < .5:
                emit(["newvar", F, rng.choice([None] + LABELS_VAR)])
            else:
                emit(["newblock", F, [rng.choice([1, 2, 2, 3, 0])], rng.choice([None] + LABELS_BLOCK)])
        elif what == "describe":
            emit(["describe", F, rng.choice(["by hand", ""])])
        elif what == "addlinear" and kd["I"]:
            l = rng.choice(kd["I"])
            emit(["addlinear", F, l, rng.choice(OPS + ["!=", "!="]), rng.randint(-1, len(regs[l]) + 1), rng.random() < .8])
        elif what == "trans":
            cand = [f for f in kd["F"] if small(regs[f])]
            if cand:
                f = cand[-1] if rng.random() < .4 else rng.choice(cand)
                ins, pre = rand_trans(rng, regs, kd, f)
                ids = [emit(p) for p in pre]
                emit([ids[x[1]] if isinstance(x, tuple) else x for x in ins])
        elif what == "opb":
            if not kd["O"]:
                emit(["newopb", rng.choice([None, "pb"])])
                continue
            O = rng.choice(kd["O"])
            c = rng.random()
            if c < .2 and kd["I"]:
                emit(["opbaddclause", O, rng.choice(kd["I"]), rng.random() < .8])
            elif c < .45:
                terms = [(rng.choice([1, 2, -1, -3, 0]), rng.choice([1, -2, 3, -4, 0] if rng.random() < .1 else [1, -2, 3, -4]))
                         for _ in range(rng.randint(0, 3))]
                if kd["C"] and rng.random() < .3:
                    cc = rng.choice(kd["C"])
                else:
                    cc = emit(["mkpbc", terms, rng.choice(OPS[:5]), rng.randint(-2, 4)])
                emit(["opbaddconstraint", O, cc, rng.random() < .8])
            elif c < .65 and kd["I"]:
                l = rng.choice(kd["I"])
                emit(["opbcard", O, l, rng.choice(["<=", ">=", "==", "!=", "!="]), rng.randint(-1, len(regs[l]) + 1),
                      rng.random() < .8])
            elif c < .75:
                emit(["opbgetitem", O, rng.randint(-1, len(regs[O]))])
            elif c < .88:
                emit(["opbiteritem", O, rng.randint(-1, len(regs[O]))])
            elif kd["C"]:
                emit(["pbcset", rng.choice(kd["C"]), rng.randint(0, 2), rng.choice([1, 5]), rng.choice([1, -3])])
        elif what == "graph" and kd["G"]:
            g = rng.choice(kd["G"])
            if rng.random() < .4:
                emit(["normbip", g])
            else:
                emit(["bipaddedge", g, rng.randint(0, regs[g].left_order() + 1), rng.randint(1, regs[g].right_order())])
                cand = [f for f in kd["F"] if small(regs[f]) and regs[f].number_of_variables() == regs[g].left_order()]
                if cand:
                    emit(["trans", rng.choice(cand), "compress", g, rng.choice([0, 1])])
    return prog


# ------------------------------------------------------------------------------------------------ scripted scenarios
def scenarios():
    base = [["newcnf", "base"], ["mklist", [1, -2]], ["addclause", 0, 1, True], ["mklist", [2, 3]], ["addclause", 0, 3, True],
            ["hdrset", 0, "transformation 1", "an earlier step"], ["hdrset", 0, "transformation 3", "a later one"],
            ["newvar", 0, "y"], ["newblock", 0, [2], "z_{{{}}}"]]
    b = len(base)
    out = []
    every = [["flip"], ["xor", 2], ["or", 2], ["maj", 3], ["eq", 2], ["neq", 2], ["one", 2], ["lin", 2, "!=", 1],
             ["lin", 2, ">=", 1], ["ite"], ["lift", 2], ["shuffle", None, None, None]]
    for t in every:
        # build, transform, mutate the result (through every door), observe the input; then mutate the input, observe the result
        p = base + [["trans", 0] + t, ["iteritem", b, 0], ["setitem", b + 1, 0, 9], ["hdrset", b, "zzz", "1"],
                    ["mklist", [1]], ["addclause", b, b + 4, True], ["updvar", b, 50], ["newvar", b, "new"],
                    ["iteritem", 0, 0], ["setitem", b + 8, 0, 4], ["hdrset", 0, "description", "changed"],
                    ["addclausegen", 0, [3], True, "tuple"], ["describe", 0, "late"]]
        out.append(("mutate-after/" + t[0], p))
        # the same formula transformed twice; a transformation of the result
        out.append(("twice/" + t[0], base + [["trans", 0] + t, ["trans", 0] + t, ["trans", 0, "flip"], ["iteritem", b, 0],
                                           ["iteritem", b + 1, 0], ["setitem", b + 3, 0, 7]]))
        out.append(("chain/" + t[0], base + [["trans", 0] + t, ["trans", b, "flip"], ["trans", b + 1, "or", 1],
                                           ["hdrset", b, "transformation 9", "x"], ["trans", b, "flip"]]))
    # explicit shuffle lists, mutated afterwards; invalid ones
    sh = [["newcnf", None], ["addclausegen", 0, [1, -2, 3], True, "gen"], ["addclausegen", 0, [-1], True, "tuple"],
          ["addclausegen", 0, [2, 3], True, "tuple"], ["mklist", [1, -1, 1]], ["mklist", [2, 3, 1]], ["mklist", [2, 0, 1]],
          ["trans", 0, "shuffle", 4, 5, 6], ["setitem", 4, 0, -1], ["setitem", 5, 0, 1], ["append", 6, 3],
          ["trans", 0, "shuffle", 4, 5, 6], ["trans", 0, "shuffle", 4, None, None], ["trans", 0, "shuffle", None, 5, None],
          ["mklist", [1, 1, 2]], ["trans", 0, "shuffle", 14, None, None], ["mklist", [1, 0, 2]], ["trans", 0, "shuffle", None, None, 16]]
    out.append(("shuffle/explicit", sh))
    # compression graph: read only, same object afterwards
    cg = [["newcnf", "c"], ["addclausegen", 0, [1, -2], True, "tuple"], ["addclausegen", 0, [2, 3], True, "tuple"],
          ["mkbip", 3, 4, [(1, 1), (1, 2), (2, 2), (2, 3), (3, 4), (3, 1), (1, 4)]], ["trans", 0, "compress", 3, 0],
          ["trans", 0, "compress", 3, 1], ["trans", 0, "compress", 3, 2], ["mkbip", 2, 2, [(1, 1)]], ["trans", 0, "compress", 7, 0],
          ["normbip", 3], ["bipaddedge", 9, 2, 1], ["trans", 0, "compress", 3, 0], ["bipaddedge", 3, 9, 9], ["bipaddedge", 3, 2, 1],
          ["trans", 0, "compress", 9, 1], ["iteritem", 4, 0], ["setitem", 15, 0, 3]]
    out.append(("compress/graph", cg))
    # `!=` on a caller's list: untouched; then written to: the formula does not move
    for k in (0, 1, 2, 3, 4, -1):
        out.append(("neq/cnf", [["newcnf", None], ["mklist", [1, -2, 3]], ["addlinear", 0, 1, "!=", k, True], ["setitem", 1, 0, 7],
                                ["append", 1, 5], ["addlinear", 0, 1, "!=", 1, False], ["iteritem", 0, 0], ["addlinear", 0, 6, "!=", 1, True],
                                ["mklist", [1, 0]], ["addlinear", 0, 8, "!=", 1, True], ["addlinear", 0, 8, "!=", 1, False]]))
        out.append(("neq/opb", [["newopb", None], ["mklist", [1, -2, 3]], ["opbcard", 0, 1, "!=", k, True], ["setitem", 1, 0, 7],
                                ["opbcard", 0, 1, "!=", 2, False], ["mklist", [0, 2]], ["opbcard", 0, 5, "!=", 1, True],
                                ["opbcard", 0, 5, "!=", 1, False]]))
    for op in OPS:
        out.append(("linear/" + op, [["newcnf", None], ["mklist", [1, -2, 3, 4]], ["addlinear", 0, 1, op, 2, True],
                                     ["setitem", 1, 1, 9], ["addlinear", 0, 1, op, 1, True], ["mklist", []],
                                     ["addlinear", 0, 5, op, 0, True]]))
    # OPB storage
    ob = [["newopb", "pb"], ["mkpbc", [(1, 3), (-2, 2), (1, 4)], ">", 3], ["opbaddconstraint", 0, 1, True], ["pbcset", 1, 0, 5, 1],
          ["opbiteritem", 0, 0], ["pbcset", 4, 0, 7, 1], ["opbgetitem", 0, 0], ["pbcset", 6, 0, 9, 2],
          ["mkpbc", [(0, 1), (2, -2)], "<=", 1], ["opbaddconstraint", 0, 8, True], ["mkpbc", [(1, 0)], ">=", 1],
          ["opbaddconstraint", 0, 10, True], ["opbaddconstraint", 0, 10, False], ["mklist", [1, -2]], ["opbaddclause", 0, 13, True],
          ["setitem", 13, 0, 4], ["opbcard", 0, 13, "<=", 1, True], ["opbcard", 0, 13, ">=", 1, True], ["opbcard", 0, 13, "==", 1, True],
          ["mklist", []], ["opbaddclause", 0, 19, True],
          ["mkpbc", [(2, 1), (1, -3)], ">=", 2], ["opbaddconstraint", 0, 21, True], ["pbcset", 21, 0, 6, 2],
          ["mkpbc", [(1, 1), (1, 2)], "==", 1], ["opbaddconstraint", 0, 24, False], ["pbcset", 24, 1, 3, 3]]
    out.append(("opb/storage", ob))
    # live views, slices, copies
    vw = [["newcnf", None], ["addclausegen", 0, [1, 2], True, "tuple"], ["addclausegen", 0, [-1], True, "tuple"], ["view", 0],
          ["viewslice", 3, 0, 2], ["viewget", 3, 0], ["viewiter", 3, 1], ["addclausegen", 0, [3], True, "tuple"], ["viewslice", 3, 1, 9],
          ["elem", 4, 0], ["setitem", 9, 0, 5], ["setitem", 5, 0, 6], ["setitem", 6, 0, 2], ["newcnf", "other"], ["addfrom", 13, 4, True],
          ["addfrom", 13, 8, True], ["iteritem", 13, 0], ["setitem", 16, 0, 3], ["getitem", 0, 5], ["viewget", 3, -4], ["getitem", 0, -1],
          ["mklists", [5, 5, 6]], ["addfrom", 13, 21, True], ["mklist", [0, 1]], ["mklists", [5, 23, 6]], ["addfrom", 13, 24, True]]
    out.append(("views", vw))
    # large and odd
    big = [["newcnf", "big"]]
    for i in range(300):
        big.append(["addclausegen", 0, [(-1) ** i * (1 + i % 37), 1 + (i * 7) % 41], True, "tuple"])
    big += [["addclausegen", 0, list(range(1, 71)), True, "gen"]]
    for i in list(range(1, 31)) + [33, 35]:
        big.append(["hdrset", 0, "transformation {}".format(i), "step"])
    big += [["hdrset", 0, "transformation 031", "odd"], ["hdrset", 0, "clé", "värde"], ["hdrset", 0, "transformation  31", "blanks"]]
    n0 = len(big)
    big += [["trans", 0, "flip"], ["trans", n0, "flip"], ["describe", n0 + 1, "x"], ["describe", n0 + 1, "y"], ["iteritem", n0, 300],
            ["setitem", n0 + 4, 69, -1], ["trans", 0, "shuffle", None, None, None]]
    out.append(("large", big))
    # identifiers beyond the small-integer cache and beyond 2^64 (no transformation: the table would have 2^65 entries)
    out.append(("large-ints", [["newcnf", None], ["mklist", [2 ** 70, -(2 ** 64 + 1), 257, -1000]], ["addclause", 0, 1, False],
                               ["addclausegen", 0, [300, -70000], True, "tuple"], ["setitem", 1, 0, 3], ["iteritem", 0, 0], ["getitem", 0, 1],
                               ["addlinear", 0, 1, "!=", 2, False], ["newopb", None], ["opbaddclause", 8, 1, True],
                               ["opbcard", 8, 1, "!=", 1, True], ["setitem", 1, 1, 5]]))
    return out


def mk_case(suite, cls, prog):
    return Case(suite, enc_prog(prog), impl_of(prog), oracle_of(prog), cls=cls, info={"prog": prog, "cls": cls})


def build(suite, info):
    if suite not in ("heap_scenario", "heap_history"):
        raise ValueError("unknown suite " + suite)
    prog = [list(ins) for ins in info["prog"]]
    return mk_case(suite, info.get("cls", "replay"), prog)


def search(ctx, case):
    """the correspondence broke on this history (e.g. the sharing graph differs): look for a failing INPUT of the property
    among its extensions — after every prefix, write into every list / constraint object a register holds (and into every
    copy a formula hands out), and let the oracle check that nothing else moves"""
    prog = case.info["prog"]
    tried = 0
    for n in range(len(prog), 0, -1):
        prefix = prog[:n]
        _, regs = run_real(prefix)
        kd = kinds_of(prefix, regs)
        exts = []
        for l in kd["I"]:
            if regs[l]:
                exts.append([["setitem", l, 0, 77]])
            exts.append([["append", l, 78]])
        for c in kd["C"]:
            if len(regs[c]) > 2:
                exts.append([["pbcset", c, 0, 79, 80]])
        for f in kd["F"]:
            if len(regs[f]):
                exts.append([["getitem", f, 0], ["setitem", n, 0, 81]])
                exts.append([["view", f], ["viewget", n, 0], ["setitem", n + 1, 0, 82]])
            exts.append([["hdrset", f, "probe", "1"]])
            exts.append([["addclausegen", f, [83], True, "tuple"]])
        for o in kd["O"]:
            if len(regs[o]):
                exts.append([["opbgetitem", o, 0], ["pbcset", n, 0, 84, 85]])
        for e in exts:
            tried += 1
            if tried > 400:
                return None
            r = oracle_of(prefix + e)()
            if r is not None:
                return r
    return None


def cases(ctx):
    tier, seed = ctx["tier"], ctx["seed"]
    out = [mk_case("heap_scenario", cls, prog) for cls, prog in scenarios()]
    rng = common.sub_rng(seed, "C19heap")
    n = 400 if tier == "quick" else 5000
    for i in range(n):
        length = rng.choice([6, 8, 10, 12, 16, 20, 24])
        prog = gen_prog(rng, length)
        cls = "history/" + "+".join(sorted({ins[0] if ins[0] != "trans" else "trans:" + ins[2] for ins in prog
                                            if ins[0] in ("trans", "addlinear", "opbcard", "viewslice", "iteritem")}))[:60]
        out.append(mk_case("heap_history", cls, prog))
    return out
