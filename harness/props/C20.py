"""C20 — solve() and is_satisfiable() report what the SAT solver found.

There is no SAT solver in the sandbox.  The harness installs `harness/fake_solver.py`
(a tiny DPLL that speaks the three conventions and whose output shape is switchable)
under solver names in a private PATH directory (tempfile.mkdtemp(), outside /repo and
this repository, removed at exit), points `tempfile` at a private TMPDIR, and then calls
the REAL `CNF.solve()` / `CNF.is_satisfiable()`.

Suites (every real call is cached in a `run`; several cases may look at one run):
  text, lines : a raw standard output is fed, through the fake solver, to the real parsing
                loop of `_satsolve_stdin_stdout` / `_satsolve_filein_stdout`; the model gets
                the same bytes (`ptext`) or the same lines (`pstdout`).
  file        : the same for the minisat result file (`pfile`).
  e2e         : formula × solver name × output shape; the fake solver really solves.  The
                model is given the raw answer the fake solver produces for `F.to_dimacs()`.
                ORACLE (independent of the model): a truth table decides satisfiability;
                solve() must return (True, A) with |A| = 1..n in order and A satisfying every
                clause exactly then, (False, None) otherwise; is_satisfiable() must agree;
                no-answer / failing solvers must raise RuntimeError.
  nostart     : the solver can be probed but not started (argument list too long).
  select      : installed-subset × cmd × sameas; model `selectInterface` against the
                invocation recorded by the fake solver; oracle: documented exception classes,
                first installed solver in `supported_satsolvers()` order, command line passed on.
  tmp         : (one per run) the private TMPDIR listing is the same before and after.
Process handling and temporary files are OBSERVED here, not proven.  No known finding is left (D24, D28, D28c,
D28d, D35 are fixed in /repo): every class must pass.
"""
import atexit
import json
import os
import shutil
import tempfile

from harness import common
from harness.common import Case, req, enc_list, ok
from harness import fake_solver

from cnfgen import CNF
from cnfgen.utils import solver as real_solver

RULE = ("text/lines/file: solver outputs assembled from comment, status and value lines in every "
        "documented and many malformed spellings (bare `s`, wrong case, leading blanks, tabs, CRLF, "
        "control characters, `+1`, `1_0`, non-integers, non-ASCII), plus character-level mutations of "
        "well-formed answers; e2e: formulas with 0..10 variables incl. zero variables, the empty clause, "
        "unused variables, tautologies, duplicates × every supported solver name × output shapes (literals "
        "per `v` line, comments interleaved, status first/middle/last, order natural/reversed/shuffled, "
        "terminating 0 inline/own line/absent, separators, CRLF, exit status 0/10/20/1, earlier `s UNKNOWN`); "
        "select: every subset of a small set of installed names × cmd (None, blank, each name, name with "
        "options, unsupported name) × sameas (None, every supported name, unknown, empty); distinct = distinct "
        "(suite, request); non-trivial = the solver was actually started or an error class was decided")
ASSUMPTIONS = [
    "the fake solvers emit bytes 0..255; bytes >= 0x80 reach the parsers as U+FFFD (decode('ascii', errors='replace'))",
    "tokens handed to int() have at most 4300 digits in the correspondence runs (the model implements the limit)",
    "`installed` = names for which subprocess.Popen([name,'--help']) does not raise OSError",
]
TRUSTED_EXTRA = [
    "subprocess, tempfile, the OS: process start, pipes, temporary files are observed through fake solver "
    "executables and a private TMPDIR, not modelled",
    "harness/fake_solver.py: the stand-in for real solvers (DPLL cross-checked against a truth table on every e2e case)",
]
NOTES = [
    "process handling (Popen, communicate, exit status, temp files) is observed, not proven; the theorems cover "
    "the parsing of solver answers and the choice of interface/command line",
    "a case labelled with the class of a known finding keeps that label only while the real code shows exactly "
    "the recorded defective behaviour; otherwise it is relabelled `<cls>:deviates`, so a known finding never "
    "masks a different failure",
]

SUPPORTED = list(real_solver.supported_satsolvers())
IFACE_OF_FUNC = {"_satsolve_stdin_stdout": 0, "_satsolve_filein_stdout": 1, "_satsolve_filein_fileout": 2}
IFACE_NAME = ["stdin_stdout", "filein_stdout", "filein_fileout"]
# conventions stated in the docstrings of cnfgen/utils/solver.py (used by the oracle only)
DOC_IFACE = {"lingeling": 0, "cryptominisat": 0, "sat4j": 1, "march": 1, "minisat": 2}
SELECT_NAMES = ["cadical", "march", "minisat", "sat4j"]          # "small set of names" for the subsets


def real_iface(name):
    """what the implementation's own table says (used to predict the fake solver's answer)"""
    return IFACE_OF_FUNC[real_solver._SATSOLVER_INTERFACE[name].__name__]


# ------------------------------------------------------------------ sandbox
# the private temporary directory has a blank, a quote and a glob character in its name: file names handed to a solver
# must survive whatever the interface does to build the command line (seeded change C20-6)
TMPNAME = "my tmp 'dir' *"


class Sandbox:
    """private PATH directories + private TMPDIR, created lazily, removed at exit"""

    def __init__(self):
        self.base = None
        self.bins = {}

    def ensure(self):
        if self.base is None:
            saved = tempfile.tempdir
            tempfile.tempdir = None
            try:
                self.base = tempfile.mkdtemp(prefix="cnfgen-c20-")
            finally:
                tempfile.tempdir = saved
            os.mkdir(os.path.join(self.base, TMPNAME))
            atexit.register(self.cleanup)
        return self.base

    @property
    def tmp(self):
        return os.path.join(self.ensure(), TMPNAME)

    def bindir(self, installed):
        key = tuple(sorted(installed))
        if key not in self.bins:
            d = os.path.join(self.ensure(), "bin{}".format(len(self.bins)))
            os.mkdir(d)
            src = open(fake_solver.__file__).read()
            for name in key:
                p = os.path.join(d, name)
                with open(p, "w") as fh:
                    fh.write(src)
                os.chmod(p, 0o755)
            self.bins[key] = d
        return self.bins[key]

    def cleanup(self):
        if self.base and os.path.isdir(self.base):
            shutil.rmtree(self.base, ignore_errors=True)
        self.base = None
        self.bins = {}


SANDBOX = Sandbox()
RUNS = {}


def make_formula(fd):
    F = CNF([list(c) for c in fd["clauses"]])
    if fd["n"] > F.number_of_variables():
        F.update_variable_number(fd["n"])
    return F


def outcome(call):
    try:
        return ["ok", call()]
    except Exception as e:  # noqa: the class of the exception is the observation
        return ["err", type(e).__name__]


def do_run(spec):
    """spec: formula, cmd, sameas, installed, cfg, issat(bool).  Runs the real code once."""
    key = json.dumps(spec, sort_keys=True)
    if key in RUNS:
        return RUNS[key]
    tmp = SANDBOX.tmp
    bind = SANDBOX.bindir(spec["installed"])
    with open(os.path.join(bind, "config.json"), "w") as fh:
        json.dump(spec.get("cfg", {}), fh)
    logp = os.path.join(bind, "log.jsonl")
    if os.path.exists(logp):
        os.unlink(logp)
    F = make_formula(spec["formula"])
    cmd = spec["cmd"]
    if spec.get("pad"):                       # an argument too long for execve (E2BIG): the solver cannot start
        cmd = cmd + " --" + "a" * spec["pad"]
    saved_path, saved_tmpdir, saved_env_tmp = os.environ.get("PATH"), tempfile.tempdir, os.environ.get("TMPDIR")
    os.environ["PATH"] = bind
    os.environ["TMPDIR"] = tmp
    tempfile.tempdir = tmp
    res = {}
    try:
        before = sorted(os.listdir(tmp))
        res["solve"] = outcome(lambda: F.solve(cmd=cmd, sameas=spec["sameas"]))
        mid = sorted(os.listdir(tmp))
        res["leak_solve"] = [f for f in mid if f not in before]
        if spec.get("issat"):
            res["issat"] = outcome(lambda: F.is_satisfiable(cmd=cmd, sameas=spec["sameas"]))
            after = sorted(os.listdir(tmp))
            res["leak_issat"] = [f for f in after if f not in mid]
        leaked = [f for f in sorted(os.listdir(tmp)) if f not in before]
        res["leak_content_ok"] = True
        for f in leaked:                                  # clean up so that the next listing starts equal
            p = os.path.join(tmp, f)
            try:
                if open(p).read() != F.to_dimacs():
                    res["leak_content_ok"] = False
            except Exception:
                res["leak_content_ok"] = False
            if os.path.isdir(p):
                shutil.rmtree(p, ignore_errors=True)
            else:
                os.unlink(p)
    finally:
        if saved_path is None:
            os.environ.pop("PATH", None)
        else:
            os.environ["PATH"] = saved_path
        if saved_env_tmp is None:
            os.environ.pop("TMPDIR", None)
        else:
            os.environ["TMPDIR"] = saved_env_tmp
        tempfile.tempdir = saved_tmpdir
    log = []
    if os.path.exists(logp):
        for line in open(logp):
            log.append(json.loads(line))
    res["log"] = log
    res["bindir"] = bind
    res["dimacs"] = F.to_dimacs()
    RUNS[key] = res
    return res


# ------------------------------------------------------------------ formatting (same as the driver)
def fmt_verdict(o):
    if o[0] == "err":
        return "ERR " + o[1]
    b, w = o[1]
    if b is not True and b is not False:
        return "OK ?" + repr(b)
    head = "T" if b else "F"
    if w is None:
        return "OK {} N".format(head)
    return "OK {} {}".format(head, " ".join([str(len(w))] + [str(int(l)) for l in w]))


def enc_text(s):
    return enc_list(ord(c) for c in s)


def enc_opt(s):
    return [0] if s is None else [1] + enc_text(s)


def fmt_tokens(iface, toks):
    out = [str(iface), str(len(toks))]
    for t in toks:
        out += [str(x) for x in enc_text(t)]
    return "OK " + " ".join(out)


def select_req(cmd, sameas, installed):
    inst = [len(installed)]
    for n in installed:
        inst += enc_text(n)
    return req("select", enc_opt(cmd), enc_opt(sameas), inst)


def observed_selection(run, which=0):
    """what the fake solver recorded for the `which`-th real start: (iface, tokens of the command line)"""
    if run["solve"][0] == "err" and not run["log"]:
        return "ERR " + run["solve"][1]
    if len(run["log"]) <= which:
        return "OK no-start-recorded"
    rec = run["log"][which]
    nfiles = rec["nfiles"]
    argv = rec["argv"][:len(rec["argv"]) - nfiles] if nfiles else rec["argv"]
    return fmt_tokens(nfiles, [rec["name"]] + argv)


# ------------------------------------------------------------------ independent helpers for the oracles
def truth_table_sat(n, clauses):
    """independent of the fake solver's DPLL"""
    for alpha in common.assignments(n):
        if common.cnf_holds(clauses, alpha):
            return True
    return False


def witness_problem(n, clauses, w):
    """None if `w` is an assignment of 1..n ordered by variable that satisfies every clause"""
    if not isinstance(w, list):
        return "witness is {!r}, not a list of literals".format(w)
    if [abs(l) for l in w] != list(range(1, n + 1)):
        return "witness is not one literal per variable in variable order"
    s = set(w)
    for c in clauses:
        if not any(l in s for l in c):
            return "clause {} is not satisfied by the witness".format(list(c))
    return None


def raw_literals(text_lines):
    """all integers on `v` lines (independent re-reading of a well-formed answer)"""
    out = []
    for line in text_lines:
        if line[:1] == "v":
            for el in line.split():
                if el not in ("v", "0"):
                    out.append(int(el))
    return out


def replaced(text):
    """what .decode('ascii', errors='replace') makes of the solver's bytes"""
    return "".join(c if ord(c) < 128 else "\ufffd" for c in text)


def classify_stdout(text):
    """input class of a raw standard output (a label for the evidence and for known findings);
    several status lines that do not all say the same are `ambiguous-status`: the property does not
    say which of them counts (the code takes the last one; that is compared with the model only)"""
    text = replaced(text)
    verdicts = []
    nlits = 0
    for line in text.splitlines():
        if not line:
            continue
        if line[0] == "s":
            w = line.split()
            verdicts.append({"SATISFIABLE": True, "UNSATISFIABLE": False}.get(w[1]) if len(w) > 1 else None)
        if line[0] == "v":
            for el in line.split():
                if el in ("v", "0"):
                    continue
                try:
                    int(el)
                except ValueError:
                    return "garbage-token"
                nlits += 1
    if len(set(verdicts)) > 1:
        return "ambiguous-status"
    if not verdicts or verdicts[0] is None:
        return "no-answer"
    if verdicts[0] is False:
        return "unsat"
    return "sat" if nlits else "sat-no-literals"


def classify_file(text):
    text = replaced(text)
    w = text.split()
    if not w:
        return "no-answer"
    if w[0] == "SAT":
        n = 0
        for el in w[1:]:
            if el == "0":
                continue
            try:
                int(el)
            except ValueError:
                return "garbage-token"
            n += 1
        return "sat" if n else "sat-no-literals"
    return "unsat" if w[0] == "UNSAT" else "no-answer"


# recorded behaviour of the known findings: class label -> predicate on the observed outcome
# (none at present: D24, D28, D28c, D28d, D35 are fixed in /repo)
KNOWN_BEHAVIOUR = {}


def relabel(case, label, observed):
    chk = KNOWN_BEHAVIOUR.get(label)
    if chk is not None and not chk(observed):
        case.cls = label + ":deviates"


def documented_failure(o, what):
    """a failing / silent solver must raise RuntimeError (docstrings of solve / sat_solve)"""
    if o == ["err", "RuntimeError"]:
        return None
    return {"expected": "RuntimeError (documented: 'if it is not possible to correctly invoke the solver needed')",
            "observed": o, "situation": what}


# ------------------------------------------------------------------ case builders
FORMULA_FOR_RAW = {"n": 3, "clauses": [[1, -2], [2, 3]]}


def tmp_case(spec, label, nostart=None):
    """the temporary-directory aspect of a run + the selection correspondence for that run
    (`nostart`: the solver cannot be started, so no selection is recorded: the companion request is
    the model of the interface function without a process)"""
    info = {"spec": spec}
    if nostart is not None:
        info["nostart"] = nostart
    inst = spec["installed"]

    def impl():
        run = do_run(spec)
        if nostart is not None:
            return fmt_verdict(run["solve"])
        return observed_selection(run)

    def oracle():
        run = do_run(spec)
        leaked = run["leak_solve"] + run.get("leak_issat", [])
        if leaked:
            return {"temporary_files_left_behind": leaked, "cmd": spec["cmd"], "sameas": spec["sameas"],
                    "outcome": run["solve"]}
        return None
    r = req("nostart", nostart) if nostart is not None else select_req(spec["cmd"], spec["sameas"], inst)
    case = Case("tmp", r, impl, oracle, cls=label, nontrivial=True, info=info)
    return case


def iface_label(spec):
    cmd, sameas = spec["cmd"], spec["sameas"]
    try:
        if sameas is not None and cmd and cmd.split():
            return IFACE_NAME[real_iface(sameas)]
        if cmd and cmd.split():
            return IFACE_NAME[real_iface(cmd.split()[0])]
    except KeyError:
        return "none"
    for n in SUPPORTED:
        if n in spec["installed"]:
            return IFACE_NAME[real_iface(n)]
    return "none"


def raw_spec(via, cfg):
    return {"formula": FORMULA_FOR_RAW, "cmd": via, "sameas": None, "installed": [via], "cfg": cfg, "issat": False}


def build(suite, info):
    if suite in ("text", "lines"):
        via = info.get("via", "lingeling")
        if suite == "lines":
            lines = info["lines"]
            text = "".join(l + "\n" for l in lines)
            r = req("pstdout", [len(lines)] + [x for l in lines for x in enc_text(l)])
        else:
            text = info["text"]
            r = req("ptext", enc_text(text))
        spec = raw_spec(via, {"mode": "raw", "stdout": text})
        label = classify_stdout(text)

        def impl():
            run = do_run(spec)
            relabel(case, label, run["solve"])
            return fmt_verdict(run["solve"])

        def oracle():
            o = do_run(spec)["solve"]
            if label in ("garbage-token", "no-answer"):
                return documented_failure(o, "solver output without a usable answer ({})".format(label))
            if label == "ambiguous-status":
                if o[0] == "ok" and o[1][0] in (True, False) or o == ["err", "RuntimeError"]:
                    return None
                return {"expected": "a verdict or RuntimeError", "observed": o, "class": label}
            if o[0] != "ok":
                return {"expected": "a verdict", "observed": o, "class": label}
            b, w = o[1]
            if label == "unsat":
                return None if (b, w) == (False, None) else {"expected": [False, None], "observed": [b, w]}
            if b is not True:
                return {"expected_verdict": True, "observed": [b, w]}
            lits = raw_literals(replaced(text).splitlines())
            if not isinstance(w, list) or sorted(w) != sorted(lits) or [abs(l) for l in w] != sorted(abs(l) for l in lits):
                return {"expected": "the literals of the v lines ordered by variable", "literals": lits, "observed": w}
            return None
        case = Case(suite, r, impl, oracle, cls=label, nontrivial=True, info=info)
        return case
    if suite == "file":
        text = info["text"]
        spec = raw_spec("minisat", {"mode": "raw", "stdout": info.get("stdout", "c chatter\n"), "file": text})
        label = classify_file(text)

        def impl():
            run = do_run(spec)
            relabel(case, label, run["solve"])
            return fmt_verdict(run["solve"])

        def oracle():
            o = do_run(spec)["solve"]
            if label in ("garbage-token", "no-answer"):
                return documented_failure(o, "result file without a usable answer ({})".format(label))
            if o[0] != "ok":
                return {"expected": "a verdict", "observed": o, "class": label}
            b, w = o[1]
            if label == "unsat":
                return None if (b, w) == (False, None) else {"expected": [False, None], "observed": [b, w]}
            if b is not True:
                return {"expected_verdict": True, "observed": [b, w]}
            lits = [int(x) for x in replaced(text).split()[1:] if x != "0"]
            if not isinstance(w, list) or sorted(w) != sorted(lits) or [abs(l) for l in w] != sorted(abs(l) for l in lits):
                return {"expected": "the literals of the file ordered by variable", "literals": lits, "observed": w}
            return None
        case = Case("file", req("pfile", enc_text(text)), impl, oracle, cls=label, nontrivial=True, info=info)
        return case
    if suite == "e2e":
        fd, name, cfg = info["formula"], info["solver"], info.get("cfg", {})
        cmd = name + ("" if not info.get("opts") else " " + info["opts"])
        spec = {"formula": fd, "cmd": cmd, "sameas": None, "installed": [name], "cfg": cfg, "issat": True}
        n, clauses = fd["n"], fd["clauses"]
        F = make_formula(fd)
        iface = real_iface(name)
        out, ftext = fake_solver.answer(F.to_dimacs(), cfg, iface)
        r = req("pfile", enc_text(ftext)) if iface == 2 else req("ptext", enc_text(out))
        ans = cfg.get("answer", "normal")
        sat = truth_table_sat(n, clauses)
        if ans == "normal":
            label = ("sat-zero-vars" if n == 0 else "sat") if sat else "unsat"
        elif ans == "bare_s":
            label = "no-answer"
        elif ans == "garbage":
            label = "garbage-token"
        else:
            label = "no-answer"

        def impl():
            run = do_run(spec)
            relabel(case, label, run["solve"])
            return fmt_verdict(run["solve"])

        def oracle():
            run = do_run(spec)
            o, o2 = run["solve"], run["issat"]
            dsat, _ = fake_solver.solve(run["dimacs"])
            if dsat != sat:
                return {"harness_error": "fake solver DPLL and truth table disagree", "formula": fd}
            if not run["log"] or any(rec["input"] != run["dimacs"] for rec in run["log"]):
                return {"solver_did_not_receive_the_formula": [rec["input"] for rec in run["log"]][:2],
                        "expected": run["dimacs"]}
            if name in DOC_IFACE and any(rec["nfiles"] != DOC_IFACE[name] for rec in run["log"]):
                return {"documented_convention_of": name, "expected_file_arguments": DOC_IFACE[name],
                        "observed": [rec["nfiles"] for rec in run["log"]]}
            if ans != "normal":
                return documented_failure(o, "solver gives no usable answer ({})".format(ans)) or \
                    documented_failure(o2, "is_satisfiable, solver gives no usable answer ({})".format(ans))
            if o[0] != "ok":
                return {"expected": "a verdict", "observed": o}
            b, w = o[1]
            if sat:
                if b is not True:
                    return {"formula_is": "satisfiable", "solve_returned": [b, w]}
                p = witness_problem(n, clauses, w)
                if p is not None:
                    return {"formula_is": "satisfiable", "problem": p, "solve_returned": [b, w]}
            elif (b, w) != (False, None):
                return {"formula_is": "unsatisfiable", "solve_returned": [b, w]}
            if o2 != ["ok", sat]:
                return {"is_satisfiable_returned": o2, "expected": sat}
            return None
        case = Case("e2e", r, impl, oracle, cls=label, nontrivial=True, info=info)
        return case
    if suite == "nostart":
        name = info["solver"]
        iface = real_iface(name)
        spec = spec_of(suite, info)
        label = "cannot-start"

        def impl():
            run = do_run(spec)
            relabel(case, label, run["solve"])
            return fmt_verdict(run["solve"])

        def oracle():
            run = do_run(spec)
            if run["log"]:
                return {"harness_error": "the solver was started although the argument list is too long"}
            return documented_failure(run["solve"], "the solver answers --help but cannot be started (E2BIG)")
        case = Case("nostart", req("nostart", iface), impl, oracle, cls=label, nontrivial=True, info=info)
        return case
    if suite == "select":
        cmd, sameas, inst = info["cmd"], info["sameas"], list(info["installed"])
        fd = info.get("formula", {"n": 2, "clauses": [[1, 2], [-1]]})
        spec = {"formula": fd, "cmd": cmd, "sameas": sameas, "installed": inst, "cfg": {}, "issat": False}
        first = cmd.split()[0] if cmd is not None and cmd.split() else None
        if sameas is not None and sameas not in SUPPORTED:
            label, want = "unknown-sameas", "ValueError"
        elif first is None:
            label, want = ("auto", None) if any(n in inst for n in SUPPORTED) else ("none-installed", "RuntimeError")
        elif first not in SUPPORTED and sameas is None:
            label, want = "unsupported", "RuntimeError"
        elif first not in inst:
            label, want = "not-installed", "RuntimeError"
        else:
            label, want = ("sameas" if sameas is not None else "named"), None

        def impl():
            return observed_selection(do_run(spec))

        def oracle():
            run = do_run(spec)
            o = run["solve"]
            if info.get("also_typeerror"):
                t = outcome(lambda: real_solver.sat_solve([[1, 2], [-1]]))
                if t != ["err", "TypeError"]:
                    return {"sat_solve_on_a_non_formula": t, "expected": "TypeError"}
            if want is not None:
                if o != ["err", want]:
                    return {"expected": want, "observed": o, "class": label}
                if run["log"]:
                    return {"a_solver_was_started_although": label}
                return None
            if o[0] != "ok":
                return {"expected": "a verdict", "observed": o, "class": label}
            sat = truth_table_sat(fd["n"], fd["clauses"])
            b, w = o[1]
            if b != sat or (sat and witness_problem(fd["n"], fd["clauses"], w)) or (not sat and w is not None):
                return {"wrong_answer": [b, w], "formula": fd}
            if len(run["log"]) != 1:
                return {"solver_starts": len(run["log"]), "expected": 1}
            rec = run["log"][0]
            args = rec["argv"][:len(rec["argv"]) - rec["nfiles"]] if rec["nfiles"] else rec["argv"]
            if first is None:
                expect = [n for n in SUPPORTED if n in inst][0]
                if rec["name"] != expect or args:
                    return {"expected_solver": expect, "started": [rec["name"]] + args}
                conv = expect
            else:
                if [rec["name"]] + args != cmd.split():
                    return {"expected_command": cmd.split(), "started": [rec["name"]] + args}
                conv = sameas if sameas is not None else first
            if conv in DOC_IFACE and rec["nfiles"] != DOC_IFACE[conv]:
                return {"documented_convention_of": conv, "expected_file_arguments": DOC_IFACE[conv],
                        "observed": rec["nfiles"]}
            return None
        case = Case("select", select_req(cmd, sameas, inst), impl, oracle, cls=label,
                    nontrivial=True, info=info)
        return case
    if suite == "tmp":
        spec = info["spec"]
        return tmp_case(spec, iface_label(spec), info.get("nostart"))
    raise ValueError("unknown suite " + suite)


def spec_of(suite, info):
    """the run behind a case (for its `tmp` companion)"""
    if suite in ("text", "lines"):
        text = "".join(l + "\n" for l in info["lines"]) if suite == "lines" else info["text"]
        return raw_spec(info.get("via", "lingeling"), {"mode": "raw", "stdout": text})
    if suite == "file":
        return raw_spec("minisat", {"mode": "raw", "stdout": info.get("stdout", "c chatter\n"), "file": info["text"]})
    if suite == "e2e":
        name = info["solver"]
        cmd = name + ("" if not info.get("opts") else " " + info["opts"])
        return {"formula": info["formula"], "cmd": cmd, "sameas": None, "installed": [name],
                "cfg": info.get("cfg", {}), "issat": True}
    if suite == "nostart":
        return {"formula": FORMULA_FOR_RAW, "cmd": info["solver"], "pad": 200000, "sameas": None,
                "installed": [info["solver"]], "cfg": {}, "issat": False}
    if suite == "select":
        return {"formula": info.get("formula", {"n": 2, "clauses": [[1, 2], [-1]]}), "cmd": info["cmd"],
                "sameas": info["sameas"], "installed": list(info["installed"]), "cfg": {}, "issat": False}
    return None


# ------------------------------------------------------------------ generators
S_LINES = ["s SATISFIABLE", "s UNSATISFIABLE", "s UNKNOWN", "s", "s ", "s\t", "sSATISFIABLE", "s  SATISFIABLE  now",
           "s\tUNSATISFIABLE", "solution SATISFIABLE", " s SATISFIABLE", "S SATISFIABLE", "s satisfiable",
           "s SATISFIABLE_", "s SATISFIABLE\x0bx", "s UNSATISFIABLE 0", "s INDETERMINATE", "s SAT", "sv SATISFIABLE"]
V_LINES = ["v", "v 0", "v 1 2 0", "v -1 -2", "v 1 0 2 0", "v\t3\t-4", "v  5   -6  ", "v +7", "v 1_0", "v -0", "v 00",
           "v 08", "v1 2", "v x", "v 1.5", "v --1", "v 1_", "v _1", "values 1", "v 9 v 0 8", "v 0x1", "v -", " v 1",
           "V 1", "v 1\x1f2", "v 3\x002", "vs 4", "v 11 -12 13", "v -3 2 -1 0", "v 2 2 -2"]
C_LINES = ["c", "c comment", "", "c s SATISFIABLE", "c v 1 2", "C", "cv", "  ", "\t", "o 12", "c\x1cd"]
BREAKS = ["\n", "\n", "\n", "\r\n", "\r", "\n\n", "\x0b", "\x0c", "\x1c", "\x1d", "\x1e", "\n\r"]


def gen_lines(rng):
    out = []
    if rng.random() < .45:
        # an answer as real solvers print it: comments, one status line, value lines
        sat = rng.random() < .6
        m = rng.randint(0, 9)
        lits = [rng.choice([1, -1]) * v for v in range(1, m + 1)]
        if rng.random() < .3:
            rng.shuffle(lits)
        per = rng.choice([1, 2, 3, 10])
        vl = ["v " + " ".join(str(l) for l in lits[i:i + per]) for i in range(0, len(lits), per)] if sat else []
        if sat:
            z = rng.randrange(3)
            if z == 0 and vl:
                vl[-1] += " 0"
            elif z == 1:
                vl.append("v 0")
        body = ["s SATISFIABLE" if sat else "s UNSATISFIABLE"]
        pos = rng.choice([0, len(vl), rng.randint(0, len(vl))])
        body = vl[:pos] + body + vl[pos:]
        for b in body:
            while rng.random() < .3:
                out.append(rng.choice(C_LINES))
            out.append(b)
        return out
    k = rng.choice([0, 1, 2, 3, 4, 5, 6, 8])
    for _ in range(k):
        x = rng.random()
        if x < .3:
            out.append(rng.choice(S_LINES[:3]) if rng.random() < .7 else rng.choice(S_LINES))
        elif x < .7:
            if rng.random() < .6:
                m = rng.randint(0, 5)
                lits = [rng.choice([1, -1]) * rng.randint(1, 15) for _ in range(m)]
                out.append("v " + " ".join(str(l) for l in lits) + rng.choice(["", " 0", "  0 "]))
            else:
                out.append(rng.choice(V_LINES))
        else:
            out.append(rng.choice(C_LINES))
    return out


NON_ASCII = ["c caf\xe9", "v 1 \xe9 0", "s SATISFIABLE\xa0", "\x85", "v 2\xa03"]


def gen_text(rng):
    lines = gen_lines(rng)
    if rng.random() < .06:
        lines.insert(rng.randrange(len(lines) + 1), rng.choice(NON_ASCII))
    if rng.random() < .5:
        return "".join(l + "\n" for l in lines)
    text = "".join(l + rng.choice(BREAKS) for l in lines)
    if lines and rng.random() < .3:
        text = text.rstrip("\n\r")
    return text


def mutate(rng, text):
    if not text:
        return text
    alphabet = "sv c0123456789-+_\t\n\r\x0b\x0c\x1c\x1fxSATUNIFBLE"
    t = list(text)
    for _ in range(rng.choice([1, 1, 2, 3])):
        i = rng.randrange(len(t))
        op = rng.randrange(3)
        if op == 0:
            t[i] = rng.choice(alphabet)
        elif op == 1:
            del t[i]
            if not t:
                break
        else:
            t.insert(i, rng.choice(alphabet))
    return "".join(t)


def gen_file_text(rng):
    x = rng.random()
    if x < .15:
        return rng.choice(["", "\n", "UNSAT\n", "UNSAT", "INDET\n", "SAT", "SAT\n", "SAT 0", "sat\n1 2 0", "SATISFIABLE\n1 0",
                           "UNSATISFIABLE", " SAT\n1 -2 0\n", "SAT\n\n1\n-2\n0\n", "SAT 1 x 0", "SAT\n1_0 +2 -0 00 0",
                           "UNSAT 1 2", "SAT\n1 0 2 0\n", "SAT\t3\x0b-4\x1c5", "0 SAT", "SAT\n--1"])
    if x < .27:
        return rng.choice(["UNSAT\n", "UNSAT", "UNSAT\r\n", "\nUNSAT\n", "UNSAT \n"])
    m = rng.randint(0, 8)
    lits = [rng.choice([1, -1]) * rng.randint(1, 15) for _ in range(m)]
    if rng.random() < .5:
        lits = [s * v for v, s in zip(range(1, m + 1), [rng.choice([1, -1]) for _ in range(m)])]
        if rng.random() < .5:
            rng.shuffle(lits)
    sep = rng.choice([" ", "\n", "\t", "  "])
    text = "SAT\n" + sep.join(str(l) for l in lits) + rng.choice([" 0\n", "\n", " 0", ""])
    if rng.random() < .25:
        text = mutate(rng, text)
    return text


def gen_formula(rng, maxn):
    style = rng.randrange(8)
    if style == 0:
        return {"n": 0, "clauses": rng.choice([[], [[]], [[], []]])}
    n = rng.choice([1, 1, 2, 2, 3, 3, 4, 5, 6, 7, 8, 9, 10])
    n = min(n, maxn)
    if style == 1:      # no clauses at all: every variable unused
        return {"n": n, "clauses": []}
    used = n if style != 2 else max(1, n - rng.randint(1, 3))        # style 2: unused top variables
    k = rng.choice([1, 2, 2, 3, 3, 3])
    m = rng.randint(1, max(2, int(used * rng.choice([1.5, 3, 4.3, 5.5]))))
    clauses = []
    for _ in range(m):
        w = min(used, rng.choice([k, k, rng.randint(1, 3)]))
        vs = rng.sample(range(1, used + 1), w)
        clauses.append([v if rng.random() < .5 else -v for v in vs])
    if style == 3:
        clauses.insert(rng.randrange(len(clauses) + 1), [])                       # the empty clause
    if style == 4 and clauses:
        clauses.append(list(clauses[0]))                                          # duplicate clause
        clauses.append([1, -1])                                                   # tautology
    if style == 5:      # forced unsatisfiable core on few variables
        clauses += [[1], [-1]] if used == 1 else [[1, 2], [1, -2], [-1, 2], [-1, -2]]
    return {"n": n, "clauses": clauses}


def gen_cfg(rng):
    cfg = {}
    if rng.random() < .7:
        cfg["per_line"] = rng.choice([1, 1, 2, 3, 4, 7])
    if rng.random() < .5:
        cfg["comments"] = True
        cfg["shape_seed"] = rng.randrange(1000)
    cfg["s_at"] = rng.choice(["first", "first", "middle", "last"])
    cfg["order"] = rng.choice(["natural", "natural", "reversed", "shuffled"])
    if cfg["order"] == "shuffled":
        cfg["shape_seed"] = rng.randrange(1000)
    cfg["zero"] = rng.choice(["inline", "inline", "own", "none"])
    cfg["sep"] = rng.choice([" ", " ", "\t", "  "])
    if rng.random() < .2:
        cfg["newline"] = "\r\n"
    cfg["exit"] = rng.choice([0, 0, 10, 20, 1])
    if rng.random() < .3:
        cfg["free_polarity"] = True
    if rng.random() < .12:
        cfg["answer"] = rng.choice(["none", "unknown", "bare_s", "garbage"])
    return cfg


def corpus_infos():
    d = os.path.join(common.VERIF, "corpus", "C20")
    out = []
    if os.path.isdir(d):
        for f in sorted(os.listdir(d)):
            if f.endswith(".json"):
                for e in json.load(open(os.path.join(d, f))):
                    out.append((e["suite"], e["info"]))
    return out


def cases(ctx):
    tier, seed = ctx["tier"], ctx["seed"]
    quick = tier == "quick"
    rng = common.sub_rng(seed, "C20")
    infos = list(corpus_infos())
    stdout_names = [n for n in SUPPORTED if real_iface(n) != 2] or ["lingeling"]
    via_pool = [n for n in ("lingeling", "sat4j", "cadical", "march") if n in stdout_names] or stdout_names

    # ---- raw outputs
    for i, s in enumerate(S_LINES):
        infos.append(("lines", {"lines": ["c x", s, "v 1 -2 3 0"], "via": via_pool[i % len(via_pool)]}))
    for i, v in enumerate(V_LINES):
        infos.append(("lines", {"lines": ["s SATISFIABLE", v], "via": via_pool[i % len(via_pool)]}))
    for _ in range(60 if quick else 900):
        infos.append(("lines", {"lines": gen_lines(rng), "via": rng.choice(via_pool)}))
    for _ in range(110 if quick else 1600):
        t = gen_text(rng)
        if rng.random() < .35:
            t = mutate(rng, t)
        infos.append(("text", {"text": t, "via": rng.choice(via_pool)}))
    for _ in range(70 if quick else 900):
        infos.append(("file", {"text": gen_file_text(rng)}))

    # ---- end to end
    maxn = 10 if quick else 12
    for name in SUPPORTED:                                   # every supported name, plain shape, both verdicts
        infos.append(("e2e", {"formula": {"n": 3, "clauses": [[1, -2], [2, 3], [-1, -3]]}, "solver": name, "cfg": {}}))
        infos.append(("e2e", {"formula": {"n": 2, "clauses": [[1, 2], [1, -2], [-1, 2], [-1, -2]]}, "solver": name,
                              "cfg": {"comments": True, "per_line": 1}}))
    for _ in range(120 if quick else 1500):
        info = {"formula": gen_formula(rng, maxn), "solver": rng.choice(SUPPORTED), "cfg": gen_cfg(rng)}
        if rng.random() < .2:
            info["opts"] = rng.choice(["--plain", "-no-pre  --verb=0", "--a --b --c"])
        infos.append(("e2e", info))
    for name in SUPPORTED if not quick else ["lingeling", "sat4j", "minisat"]:
        infos.append(("nostart", {"solver": name}))

    # ---- selection
    subsets = [[n for i, n in enumerate(SELECT_NAMES) if (mask >> i) & 1] for mask in range(1 << len(SELECT_NAMES))]
    cmds = [None, "", " \t ", "glucose", "nosuchsolver", "nosuchsolver --x"] + SELECT_NAMES + \
           [SELECT_NAMES[0] + " --opt -k", "\t" + SELECT_NAMES[-1] + "  --q "]
    sames = [None, "nosuch", "", "Minisat"] + SUPPORTED
    sel = []
    for inst in subsets:
        sel.append({"cmd": None, "sameas": None, "installed": inst})
        for c in cmds:
            for s in sames:
                sel.append({"cmd": c, "sameas": s, "installed": inst})
    sel.append({"cmd": None, "sameas": None, "installed": list(SUPPORTED), "also_typeerror": True})
    sel.append({"cmd": None, "sameas": None, "installed": [SUPPORTED[-1]]})
    sel.append({"cmd": None, "sameas": "minisat", "installed": [SUPPORTED[-1], "glucose"]})
    sel.append({"cmd": "mysolver --fast", "sameas": "minisat", "installed": ["mysolver"]})
    sel.append({"cmd": "mysolver", "sameas": "sat4j", "installed": ["mysolver", "sat4j"]})
    sel.append({"cmd": "mysolver", "sameas": "lingeling", "installed": ["mysolver"]})
    sel.append({"cmd": "mysolver", "sameas": None, "installed": ["mysolver"]})
    fixed, pool = sel[-7:], sel[:-7]
    auto = [x for x in pool if x["cmd"] is None and x["sameas"] is None]
    rest = [x for x in pool if not (x["cmd"] is None and x["sameas"] is None)]
    if quick:                                   # stratified by outcome class
        rng.shuffle(rest)
        per_label = {}
        kept = []
        for x in rest:
            lab = build("select", x).cls
            if per_label.get(lab, 0) < 38:
                per_label[lab] = per_label.get(lab, 0) + 1
                kept.append(x)
        rest = kept
    for x in auto + fixed + rest:
        infos.append(("select", x))

    seen = set()
    for suite, info in infos:
        k = (suite, json.dumps(info, sort_keys=True))
        if k in seen:
            continue
        seen.add(k)
        yield build(suite, info)
        spec = spec_of(suite, info)
        if spec is not None and suite != "tmp":
            ks = ("tmp", json.dumps(spec, sort_keys=True))
            if ks not in seen:
                seen.add(ks)
                tinfo = {"spec": spec}
                if suite == "nostart":
                    tinfo["nostart"] = real_iface(info["solver"])
                yield build("tmp", tinfo)


# ------------------------------------------------------------------ failing-input search
def _grid(names, rng, count):
    shapes = [{}, {"per_line": 1}, {"per_line": 2, "comments": True}, {"order": "reversed"},
              {"order": "shuffled", "shape_seed": 3, "per_line": 3}, {"s_at": "last", "per_line": 2},
              {"zero": "own"}, {"zero": "none", "sep": "\t"}, {"newline": "\r\n", "comments": True}, {"exit": 10},
              {"answer": "bare_s"}, {"answer": "none"}, {"answer": "unknown"}]
    forms = [{"n": 0, "clauses": [[]]}, {"n": 1, "clauses": [[1], [-1]]}, {"n": 1, "clauses": [[-1]]},
             {"n": 3, "clauses": [[1, -2], [2, 3], [-1, -3]]}, {"n": 4, "clauses": [[2], [-2, 3]]},
             {"n": 2, "clauses": [[1, 2], [1, -2], [-1, 2], [-1, -2]]}, {"n": 5, "clauses": []},
             {"n": 12, "clauses": [[v, -(v % 12 + 1)] for v in range(1, 13)] + [[-12], [7, 8, 9]]},
             {"n": 2, "clauses": [[1], []]}]
    out = []
    for name in names:
        for fd in forms:
            for cfg in shapes:
                out.append(("e2e", {"formula": fd, "solver": name, "cfg": cfg}))
    rng.shuffle(out)
    return out[:count]


def _first_failure(cands):
    for suite, info in cands:
        for c in (build(suite, info), build("tmp", {"spec": spec_of(suite, info)})):  # e2e only
            common.run_impl(c)
            r = common.run_oracle(c)
            if r is not None:
                return {"suite": c.suite, "info": c.info, "cls": c.cls, "failure": r}
    return None


def search(ctx, case):
    """the correspondence broke on `case`: look for an input on which the PROPERTY fails, on the
    interface(s) involved, with well-behaved fake solvers (shape grid × small formulas)"""
    rng = common.sub_rng(ctx["seed"], "C20-search")
    names = []
    spec = spec_of(case.suite, case.info) if case.suite != "tmp" else case.info["spec"]
    if spec and spec.get("cmd") and spec["cmd"].split() and spec["cmd"].split()[0] in SUPPORTED:
        names.append(spec["cmd"].split()[0])
    for n in ("lingeling", "sat4j", "minisat"):
        if n in SUPPORTED and n not in names:
            names.append(n)
    return _first_failure(_grid(names[:2], rng, 160))


def search_global(ctx):
    rng = common.sub_rng(ctx["seed"], "C20-search-global")
    return _first_failure(_grid(SUPPORTED, rng, 250))
