"""C11 — variable groups map indices to identifiers bijectively, with names aligned.
(also the shared machinery of C10's history suite and of C04_map's mapping suites)

Correspondence (model vs real code, exact):
  group    : one group created after update_variable_number(off); every index, every wildcard
             pattern, illegal indices / patterns / literals (exception class compared),
             ids, indices, labels
  hist     : manager histories interleaving group creation, add_clause(check True/False) and
             update_variable_number; after each op (numvar, max mentioned variable, outcome),
             finally all_variable_labels()

Oracles (independent of the model, on the real objects):
  group    : ids contiguous and fresh, indices() enumerated in identifier order, index -> id -> index
             round trip for +v and -v, rejection of out-of-domain indices / literals, wildcard
             patterns = the matching indices in id order, labels = format of the index
  hist     : all_variable_labels()[v-1] is the owning group's label of v, or the default name
"""
import collections
import itertools

from harness import common
from harness.common import Case, req, enc_list, enc_pairs, ok, fmt_formula

from cnfgen.formula.cnf import CNF
from cnfgen.formula.opb import OPB
from cnfgen.formula.variables import SingletonVariableGroup
from cnfgen.graphs import Graph, DirectedGraph, BipartiteGraph

RULE = ("group: every group class x shapes (empty ranges / graphs, isolated vertices, >= 10 vertices, k = 0, k > n) "
        "x offsets {0,1,7,100} x all indices, wildcard patterns, illegal indices/arity/literals, label formats "
        "(default, custom, too few / too many placeholders, malformed); hist: random histories of 1..14 operations "
        "(group creation of every kind, add_clause with check True/False incl. 0 literals and empty clauses, "
        "update_variable_number incl. negative); slot histories: ONE graph object kept by the author of the formula, edge-variable "
        "groups made over it repeatedly with in-place edits of the object in between (simple graphs: edge rewired, degree-preserving "
        "switch, labels exchanged, net-zero runs -- vertex and edge counts unchanged; directed / bipartite objects grow), in one "
        "formula (`edit` operations in hist) and across formulas (graph_reuse: group / hist cases over the same live object); distinct = distinct request line; non-trivial = the group / history is non-empty")
ASSUMPTIONS = [
    "label format strings are within the modelled fragment of str.format: literal text, {{, }}, {} and {N}",
    "indices, pattern entries and literals are Python ints or None; graphs are cnfgen graph objects",
    "binary mappings: range size m <= 2^20 (int(ceil(log(m,2))) is exact there; the float computation is not modelled)",
]
TRUSTED_EXTRA = [
    "bisect.bisect_right on the offset list [None, s1, s2, ...]: never compares with the None entry when var >= s1",
    "str.format for the label strings (the model has its own transcription of the {} / {N} fragment)",
]
NOTES = [
    "D22 (new_combinations_with_replacement UnboundLocalError) and D23 (single variable after anonymous variables, "
    "unnamed variable labelled None) were fixed in /repo (9191303, 321a67a); their replays stay in the corpus",
]

OFFSETS = [0, 1, 7, 100, 255, 256, 257, 1000, 70000, 2 ** 32 + 5, 2 ** 64]
KINDS = ["variable", "block", "combinations", "combinations_with_replacement", "permutations", "words",
         "bipartite", "graph", "digraph", "mapping", "sparse_mapping", "binary_mapping"]
KINDCODE = {k: i for i, k in enumerate(KINDS)}
DEFAULT_LABEL = {"combinations": "p_{{{}}}", "combinations_with_replacement": "p_{{{}}}", "permutations": "p_{{{}}}",
                 "words": "p_{{{}}}", "bipartite": "e({},{})", "graph": "e({},{})", "digraph": "e({},{})",
                 "mapping": "f({})={}", "sparse_mapping": "f({})={}", "binary_mapping": "v({},{})"}
SORTBY = ["pred", "succ", "other"]


# ------------------------------------------------------------------ encodings
def enc_label(l):
    return [-1] if l is None else [len(l)] + [ord(c) for c in l]


def enc_optint(x):
    return [0] if x is None else [1, int(x)]


def enc_pattern(p):
    out = [len(p)]
    for x in p:
        out += enc_optint(x)
    return out


def mk_graph(g):
    G = Graph(g["n"])
    for u, v in g["edges"]:
        G.add_edge(u, v)
    return G


def mk_digraph(g):
    G = DirectedGraph(g["n"])
    for u, v in g["edges"]:
        G.add_edge(u, v)
    return G


def mk_bipartite(g):
    B = BipartiteGraph(g["l"], g["r"])
    for u, v in g["edges"]:
        B.add_edge(u, v)
    return B


def spec_value(spec):
    """the graph of a graph-based group specification as a value of common's reuse histories"""
    g = spec["G"]
    if spec["kind"] in ("bipartite", "sparse_mapping"):
        return common.gvalue("bipartite", (g["l"], g["r"]), g["edges"])
    return common.gvalue("simple" if spec["kind"] == "graph" else "digraph", g["n"], g["edges"])


def spec_graph(_, value):
    """the "G" entry of a specification of the same kind for the graph `value`"""
    if value["kind"] == "bipartite":
        return {"l": value["l"], "r": value["r"], "edges": value["edges"]}
    return {"n": value["n"], "edges": value["edges"]}


def documented_indices(spec):
    """the legal indices of a graph-based group: the edges of the graph it was given (simple graphs: u < v)"""
    es = {tuple(e) for e in spec["G"]["edges"]}
    if spec["kind"] == "graph":
        es = {(min(e), max(e)) for e in es}
    return sorted(es)


def enc_spec(spec):
    k = spec["kind"]
    out = [KINDCODE[k]]
    lab = enc_label(spec.get("label"))
    if k == "variable":
        return out + lab
    if k == "block":
        return out + enc_list(spec["ranges"]) + lab
    if k in ("combinations", "combinations_with_replacement", "words"):
        return out + [spec["n"], spec["k"]] + lab
    if k == "permutations":
        return out + [spec["n"]] + enc_optint(spec.get("k")) + lab
    if k in ("bipartite", "sparse_mapping"):
        return out + common.enc_bipartite(mk_bipartite(spec["G"])) + lab
    if k == "graph":
        return out + common.enc_graph(mk_graph(spec["G"])) + lab
    if k == "digraph":
        return out + common.enc_graph(mk_digraph(spec["G"])) + lab + [SORTBY.index(spec.get("sortby", "pred"))]
    if k in ("mapping", "binary_mapping"):
        return out + [spec["n"], spec["m"]] + lab
    raise ValueError(k)


def create(F, spec, pool=None):
    """calls the new_* method of the real formula; returns the group object.  With a `pool` (one per history) a graph
    that was already given to an earlier group of the history is passed again as the SAME object"""
    k = spec["kind"]
    kw = {} if spec.get("label") is None else {"label": spec["label"]}
    if pool is not None and "G" in spec:
        maker = {"bipartite": mk_bipartite, "sparse_mapping": mk_bipartite, "graph": mk_graph, "digraph": mk_digraph}[k]
        if spec.get("slot") is not None:
            # a graph object that the author of the formula keeps (and edits in place between two groups, `edit` ops)
            key = ("slot", spec["slot"])
            if key not in pool:
                pool[key] = common.LiveArg(spec_value(spec), "cnfgen", spec["slot"])
            G = pool[key].obj
        else:
            key = (maker.__name__, repr(spec["G"]))
            if key not in pool:
                pool[key] = maker(spec["G"])
            G = pool[key]
        if k == "bipartite":
            return F.new_bipartite_edges(G, **kw)
        if k == "sparse_mapping":
            return F.new_sparse_mapping(G, **kw)
        if k == "graph":
            return F.new_graph_edges(G, **kw)
        sb = spec.get("sortby", "pred")
        if sb == "pred" and not spec.get("explicit_sortby"):
            return F.new_digraph_edges(G, **kw)
        return F.new_digraph_edges(G, sortby={"other": "foo"}.get(sb, sb), **kw)
    if k == "variable":
        F.new_variable(**kw)
        return F._groups[-1]
    if k == "block":
        return F.new_block(*spec["ranges"], **kw)
    if k == "combinations":
        return F.new_combinations(spec["n"], spec["k"], **kw)
    if k == "combinations_with_replacement":
        return F.new_combinations_with_replacement(spec["n"], spec["k"], **kw)
    if k == "permutations":
        if spec.get("k") is None:
            return F.new_permutations(spec["n"], **kw)
        return F.new_permutations(spec["n"], spec["k"], **kw)
    if k == "words":
        return F.new_words(spec["n"], spec["k"], **kw)
    if k == "bipartite":
        return F.new_bipartite_edges(mk_bipartite(spec["G"]), **kw)
    if k == "graph":
        return F.new_graph_edges(mk_graph(spec["G"]), **kw)
    if k == "digraph":
        sb = spec.get("sortby", "pred")
        if sb == "pred" and not spec.get("explicit_sortby"):
            return F.new_digraph_edges(mk_digraph(spec["G"]), **kw)
        return F.new_digraph_edges(mk_digraph(spec["G"]), sortby={"other": "foo"}.get(sb, sb), **kw)
    if k == "mapping":
        return F.new_mapping(spec["n"], spec["m"], **kw)
    if k == "sparse_mapping":
        return F.new_sparse_mapping(mk_bipartite(spec["G"]), **kw)
    if k == "binary_mapping":
        return F.new_binary_mapping(spec["n"], spec["m"], **kw)
    raise ValueError(k)


# ------------------------------------------------------------------ formatting (mirror of Driver/Vars.lean)
def fmt_list(xs):
    return "[" + ",".join(xs) + "]"


def fmt_natlist(t):
    return fmt_list(str(int(x)) for x in t)


def fmt_label(s):
    if s is None:
        return "None"
    return "'" + ".".join(str(ord(c)) for c in s) + "'"


def exc(e):
    return "E:" + type(e).__name__


def is_scalar(x):
    return x is None or isinstance(x, (int, str))


def fmt_res(x, f):
    if is_scalar(x):
        return "one " + f(x)
    return "many " + fmt_list(f(y) for y in x)


def answer(g, q):
    kind, arg = q
    try:
        if kind == "call":
            return fmt_res(g(*arg), lambda v: str(int(v)))
        if kind == "indices":
            return fmt_list(fmt_natlist(t) for t in g.indices(*arg))
        if kind == "label":
            return fmt_res(g.label(*arg), fmt_label)
        if kind == "to_index":
            return fmt_natlist(g.to_index(arg))
        if kind == "contains":
            return "True" if arg in g else "False"
    except Exception as e:  # the class of the exception is the observation
        return exc(e)
    raise ValueError(kind)


def enc_query(q):
    kind, arg = q
    code = ["call", "indices", "label", "to_index", "contains"].index(kind)
    if code < 3:
        return [code] + enc_pattern(arg)
    return [code, int(arg)]


# ------------------------------------------------------------------ queries for one group
def _pairs_domain(spec):
    """(L, R) bounds of the two coordinates for pair-indexed groups"""
    k = spec["kind"]
    if k in ("bipartite", "sparse_mapping"):
        return spec["G"]["l"], spec["G"]["r"]
    if k in ("graph", "digraph"):
        return spec["G"]["n"], spec["G"]["n"]
    if k == "mapping":
        return max(spec["n"], 0), max(spec["m"], 0)
    if k == "binary_mapping":
        return max(spec["n"], 0), max((max(spec["m"], 1) - 1).bit_length(), 0)
    return None


def coordinate_windows(idxs):
    """per coordinate of the legal indices: the values just outside the occupied interval [lo, hi] in both directions,
    their mirror images below zero (Python sequences accept negative positions: -1 .. -hi must NOT be taken for hi .. 1),
    zero, and the interior values (which are outside the domain of sparse groups when combined with the other coordinates)"""
    if not idxs or not idxs[0]:
        return []
    out = []
    for j in range(len(idxs[0])):
        col = [t[j] for t in idxs]
        lo, hi = min(col), max(col)
        w = {lo - 2, lo - 1, hi + 1, hi + 2, 0, -1, -2, -lo, -hi, -hi - 1, -hi - 2, -(hi // 2) if hi > 1 else -1}
        w.update(range(lo, min(hi, lo + 6) + 1))
        w.update(range(max(lo, hi - 2), hi + 1))
        out.append(sorted(w))
    return out


def outside_neighbours(spec, idxs, rng, cap):
    """indices that differ from a legal index in ONE coordinate, pushed out of the domain in every direction, plus a few
    that are outside in all coordinates at once and the legal indices with the wrong number of coordinates;
    only the ones that are not legal are returned, no repetitions, at most `cap`"""
    if not idxs or not idxs[0]:
        return []
    known = set(idxs)
    if spec["kind"] == "graph":
        known |= {tuple(reversed(t)) for t in idxs}
    wins = coordinate_windows(idxs)
    base = idxs if len(idxs) <= 6 else [idxs[0], idxs[-1]] + rng.sample(idxs, 4)
    out = []
    for t in base:
        for j, w in enumerate(wins):
            for x in w:
                c = tuple(x if i == j else y for i, y in enumerate(t))
                if c not in known:
                    out.append(c)
    for _ in range(6):
        c = tuple(rng.choice(w) for w in wins)
        if c not in known:
            out.append(c)
    t = rng.choice(idxs)
    out += [tuple(-x for x in t), t + (t[-1],), t[:-1]]
    out = [c for c in dict.fromkeys(out) if c not in known and c != ()]
    if len(out) > cap:
        # keep every direction of every coordinate represented: sample, but never drop the negative mirrors
        neg = [c for c in out if any(x < 0 for x in c)]
        rest = [c for c in out if not any(x < 0 for x in c)]
        rng.shuffle(neg)
        rng.shuffle(rest)
        out = neg[:cap // 2] + rest[:cap - min(len(neg), cap // 2)]
    return out


# values of the wrong type put in place of a coordinate (oracle only: the model speaks about integers and None)
WRONG_TYPE = [1.5, -0.5, "1", "", (1,), [1], b"1", float("nan"), float("inf"), 1 + 1j, True, 1.0, 2.0, False]


def queries_for(spec, off, g, rng, cap=60):
    """the query list for a created group (g is the real object, used only to enumerate its
    legal indices; the same list is sent to the model)"""
    k = spec["kind"]
    qs = [("call", []), ("indices", []), ("label", [])]
    try:
        idxs = [tuple(t) for t in g.indices()]
    except Exception:
        idxs = []
    n = len(g)
    start = off + 1
    sample = idxs if len(idxs) <= cap else rng.sample(idxs, cap)
    for t in sample:
        qs.append(("call", list(t)))
        qs.append(("label", list(t)))
        qs.append(("indices", list(t)))
    vs = list(range(start, start + n))
    vsample = vs if n <= cap else rng.sample(vs, cap)
    for v in vsample:
        qs.append(("to_index", v))
        qs.append(("to_index", -v))
    for v in (0, start - 1, -(start - 1), start + n, -(start + n), start + n + 5, start, -start,
              start - 2, -(start + n + 1), 2 * start + n, -(2 * start + n), n, -n, 2 ** 31, -2 ** 63, 2 ** 64 + start):
        qs.append(("to_index", v))
        qs.append(("contains", v))
    # out of the domain in every direction, one coordinate at a time, through every access path
    for t in outside_neighbours(spec, idxs, rng, 40):
        qs += [("call", list(t)), ("indices", list(t)), ("label", list(t))]
    # illegal / wildcard patterns
    if k == "variable":
        qs += [("call", [1]), ("label", [1]), ("indices", [1]), ("indices", [None])]
    elif k == "block":
        ranges = spec["ranges"]
        d = len(ranges)
        pats = []
        for _ in range(min(40, 3 ** d + 4)):
            p = []
            for r in ranges:
                c = rng.random()
                if c < .4:
                    p.append(None)
                elif c < .85:
                    p.append(rng.randint(1, max(r, 1)))
                else:
                    p.append(rng.choice([0, r + 1, -1, r]))
            pats.append(p)
        pats += [[None] * d, [None] * (d + 1), [1] * (d + 1), [1] * max(d - 1, 1), [None] * max(d - 1, 1)]
        for j in range(d):
            p = [None] * d
            p[j] = 1
            pats.append(p)
            p = [1] * d
            p[j] = None
            pats.append(p)
            p = [1] * d
            p[j] = ranges[j] + 1 if ranges[j] >= 0 else 1
            pats.append(p)
            p = [1] * d
            p[j] = 0
            pats.append(p)
        for p in pats:
            qs += [("indices", p), ("call", p), ("label", p)]
    elif k in ("combinations", "combinations_with_replacement", "permutations", "words"):
        kk = spec.get("k")
        if kk is None:
            kk = spec["n"]
        kk = max(kk, 0)
        nn = max(spec["n"], 0)
        pats = []
        for _ in range(25):
            ln = rng.choice([kk, kk, kk, kk + 1, max(kk - 1, 0)])
            pats.append([rng.randint(0, nn + 1) for _ in range(ln)])
        if idxs:
            t = list(rng.choice(idxs))
            pats.append(t[::-1])
            if t:
                pats.append([None] + t[1:])
                pats.append(t[:-1] + [None])
                pats.append(t + [1])
                pats.append([-x for x in t])
        pats += [[None], [None] * kk, [0] * kk]
        for p in pats:
            qs += [("indices", p), ("call", p), ("label", p)]
    else:
        L, R = _pairs_domain(spec)
        lo2 = -1 if k == "binary_mapping" else 0
        pats = []
        us = list(range(0, L + 2)) if L <= 12 else [0, 1, 2, L - 1, L, L + 1] + [rng.randint(1, L) for _ in range(6)]
        ws = list(range(lo2, R + 2)) if R <= 12 else [0, 1, 2, R - 1, R, R + 1] + [rng.randint(1, R) for _ in range(6)]
        for u in us:
            pats.append([u, None])
        for v in ws:
            pats.append([None, v])
        pats += [[None, None], [None], [1], [1, 1, 1], [None, None, None], [-1, None], [None, -1]]
        allpairs = [(u, v) for u in us for v in ws]
        for (u, v) in (allpairs if len(allpairs) <= 50 else rng.sample(allpairs, 50)):
            pats.append([u, v])
        for t in sample[:20]:
            pats.append([t[1], t[0]])
        for p in pats:
            qs += [("indices", p), ("call", p), ("label", p)]
    return qs


# ------------------------------------------------------------------ oracle for one group
def plainly_legal(spec):
    """specifications every documented precondition of which holds: creation must succeed"""
    k = spec["kind"]
    if spec.get("label") is not None and spec["label"] not in GOOD_LABELS.get(k, ()):
        return False
    if k == "variable":
        return True
    if k == "block":
        return len(spec["ranges"]) >= 1 and all(r >= 0 for r in spec["ranges"]) and \
            (spec.get("label") is None or spec["label"].count("{}") == len(spec["ranges"]))
    if k in ("combinations", "combinations_with_replacement", "words"):
        return spec["n"] >= 0 and spec["k"] >= 0
    if k == "permutations":
        return spec["n"] >= 0 and (spec.get("k") is None or spec["k"] >= 0)
    if k == "digraph":
        return spec.get("sortby", "pred") in ("pred", "succ")
    if k == "mapping":
        return spec["n"] >= 0 and spec["m"] >= 0
    if k == "binary_mapping":
        return spec["n"] >= 1 and spec["m"] >= 1
    return True


GOOD_LABELS = {
    "variable": ("X", "y_{1}", "z", ""),
    "block": ("p({})", "p({},{})", "q[{}][{}]", "r_{{{},{},{}}}", "s({},{},{},{})"),
    "combinations": ("c({})", "S_{{{}}}"), "combinations_with_replacement": ("c({})", "S_{{{}}}"),
    "permutations": ("c({})", "S_{{{}}}"), "words": ("c({})", "S_{{{}}}"),
    "bipartite": ("E[{},{}]", "x_{{{},{}}}"), "graph": ("E[{},{}]", "x_{{{},{}}}"),
    "digraph": ("E[{},{}]", "x_{{{},{}}}"), "mapping": ("E[{},{}]", "x_{{{},{}}}"),
    "sparse_mapping": ("E[{},{}]", "x_{{{},{}}}"), "binary_mapping": ("E[{},{}]", "x_{{{},{}}}"),
}


def expected_label(spec, idx):
    k = spec["kind"]
    lab = spec.get("label")
    if k == "variable":
        return lab
    if k == "block":
        if lab is None:
            lab = "X(" + ",".join(["{}"] * len(spec["ranges"])) + ")"
        return lab.format(*idx)
    if lab is None:
        lab = DEFAULT_LABEL[k]
    if k in ("combinations", "combinations_with_replacement", "permutations", "words"):
        return lab.format(",".join(str(x) for x in idx))
    return lab.format(*idx)


def matches(spec, pat, idx):
    if spec["kind"] == "graph":
        fixed = [p for p in pat if p is not None]
        if len(fixed) == 2:
            return sorted(fixed) == sorted(idx)
        return all(p in idx for p in fixed)
    return all(p is None or p == i for p, i in zip(pat, idx))


def raises_value_error(fn):
    try:
        r = fn()
        if not is_scalar(r):
            list(r)
    except ValueError:
        return True
    except Exception as e:
        return type(e).__name__
    return False


def group_oracle(spec, off, rng_seed, pool=None):
    def oracle():
        F = CNF()
        F.update_variable_number(off)
        legal = plainly_legal(spec)
        try:
            g = create(F, spec, pool=pool() if pool else None)
        except Exception as e:
            if legal:
                return {"creation_raised_on_a_legal_specification": type(e).__name__}
            return None
        n = len(g)
        start = off + 1
        # 1. a contiguous range of new identifiers
        if list(g.ids) != list(range(start, start + n)):
            return {"ids_not_contiguous_or_not_new": [g.ids.start, g.ids.stop], "expected_start": start, "len": n}
        if F.number_of_variables() != off + n:
            return {"number_of_variables": F.number_of_variables(), "expected": off + n}
        # 2. legal indices in identifier order
        idxs = [tuple(t) for t in g.indices()]
        if len(idxs) != n:
            return {"number_of_indices": len(idxs), "len": n}
        if len(set(idxs)) != n:
            return {"repeated_index": True}
        if "G" in spec and sorted(idxs) != documented_indices(spec):
            return {"legal_indices": [list(t) for t in idxs[:40]], "edges_of_the_graph_given": [list(t) for t in documented_indices(spec)[:40]]}
        is_word0 = spec["kind"] in ("combinations", "permutations", "words", "combinations_with_replacement")
        for pos, t in enumerate(idxs):
            v = g(*t)
            if not isinstance(v, int):
                if is_word0 and t == ():
                    continue   # k = 0: the index () is "no pattern" (DESIGN section 8, not a defect)
                return {"call_on_full_index_is_not_an_int": list(t)}
            if v != start + pos:
                return {"index": list(t), "id": v, "expected_id": start + pos}
            # 3. round trip, both polarities
            for lit in (v, -v):
                try:
                    back = tuple(g.to_index(lit))
                except Exception as e:
                    return {"index": list(t), "lit": lit, "to_index_raised": type(e).__name__}
                if back != t:
                    return {"index": list(t), "lit": lit, "to_index": list(back)}
            if (v in g) is not True or (-v in g) is not True:
                return {"lit_not_in_group": v}
            # 6. label of the index
            try:
                want = expected_label(spec, t)
            except Exception:
                want = None
            if want is not None or spec["kind"] == "variable":
                got = g.label(*t) if spec["kind"] != "variable" else g.label()
                if not is_scalar(got):     # word group with k = 0: label() is the whole sequence
                    got = list(got)[0]
                if got != want:
                    return {"index": list(t), "label": got, "expected_label": want}
        allids = g() if spec["kind"] != "variable" else [g()]
        if not isinstance(allids, int) and list(allids) != list(range(start, start + n)):
            return {"call_without_arguments": "not the identifier range in order"}
        # 4. out-of-domain literals and indices are rejected
        for lit in (0, start - 1, start + n, -(start + n), -(start - 1)):
            if abs(lit) in range(start, start + n):
                continue
            r = raises_value_error(lambda: g.to_index(lit))
            if r is not True:
                return {"to_index_accepts_foreign_literal": lit, "outcome": r}
            if lit in g:
                return {"contains_foreign_literal": lit}
        known = set(idxs)
        outside = foreign_indices(spec, known, common.sub_rng(rng_seed, "foreign")) + \
            outside_neighbours(spec, idxs, common.sub_rng(rng_seed, "outside"), 120)
        for t in outside:
            if spec["kind"] == "graph" and tuple(sorted(t)) in known:
                continue
            for path, fn in (("call", g), ("indices", g.indices), ("label", g.label)):
                r = raises_value_error(lambda: fn(*t))
                if r is not True:
                    return {path + "_accepts_index_outside_domain": list(t), "outcome": r,
                            "legal_indices": [list(x) for x in idxs[:12]]}
        # 4b. far away literals, and literals / coordinates of the wrong type: never silently an identifier or an index
        for lit in (2 ** 31, -2 ** 31, 2 ** 64 + start, -(2 ** 64) - start, 2 * start + n + 1, -(2 * start + n + 1)):
            if abs(lit) in range(start, start + n):
                continue
            r = raises_value_error(lambda: g.to_index(lit))
            if r is not True:
                return {"to_index_accepts_foreign_literal": lit, "outcome": r}
            if lit in g:
                return {"contains_foreign_literal": lit}
        r = wrong_type_probe(spec, g, idxs, start)
        if r is not None:
            return r
        # 5. wildcard patterns
        if spec["kind"] == "block" or _pairs_domain(spec) is not None:
            arity = len(spec["ranges"]) if spec["kind"] == "block" else 2
            for pat in wildcard_patterns(spec, arity, idxs, common.sub_rng(rng_seed, "wild")):
                want = [t for t in idxs if matches(spec, pat, t)]
                try:
                    got = [tuple(t) for t in g.indices(*pat)]
                    gotids = list(g(*pat))
                except ValueError:
                    if not pattern_in_domain(spec, pat):
                        continue
                    return {"legal_pattern_rejected": pat}
                if got != want:
                    return {"pattern": pat, "indices": [list(t) for t in got], "expected": [list(t) for t in want]}
                if gotids != [start + idxs.index(t) for t in want]:
                    return {"pattern": pat, "ids": gotids}
        return None
    return oracle


def same_index(a, b):
    try:
        return len(a) == len(b) and all(type(x) in (int, bool, float, complex) and x == y for x, y in zip(a, b))
    except Exception:
        return False


def wrong_type_probe(spec, g, idxs, start):
    """coordinates / literals that are not integers.  Python compares numbers by value (True == 1 == 1.0), so a value EQUAL
    to a legal coordinate may be taken for it; anything else must not be converted into an identifier (resp. an index):
    the call either raises or — never — answers.  Only `__call__` and `to_index`/`in` are judged: `indices()` and `label()`
    echo their arguments (block / mapping groups accept 1.5 there; recorded in notes/C11.md, outside the typed domain)."""
    if not idxs or not idxs[0] or spec["kind"] == "variable":
        return None
    ids = {t: start + pos for pos, t in enumerate(idxs)}
    for t in (idxs[0], idxs[-1]):
        for j in range(len(t)):
            for w in WRONG_TYPE:
                c = tuple(w if i == j else y for i, y in enumerate(t))
                try:
                    v = g(*c)
                    if not is_scalar(v):
                        v = list(v)
                except Exception:
                    continue          # rejected
                twins = [x for x in idxs if same_index(c, x)]
                if spec["kind"] == "graph":
                    twins += [x for x in idxs if same_index(tuple(reversed(c)), x)]
                if not twins:
                    return {"call_accepts_coordinate_of_wrong_type": repr(c), "answer": repr(v)[:80]}
                if v != ids[twins[0]]:
                    return {"call_with_equal_valued_coordinate": repr(c), "answer": repr(v)[:80], "identifier_of_the_index": ids[twins[0]]}
    n = len(idxs)
    for w in [1.5, "1", None, (start,), float(start), start + 0.5, float("nan"), b"1", -float(start), [start]]:
        try:
            t = g.to_index(w)
            t = tuple(t)
        except Exception:
            t = None
        if t is not None:
            ok_ = type(w) is float and w == int(w) and abs(int(w)) in range(start, start + n) and t == idxs[abs(int(w)) - start]
            if not ok_:
                return {"to_index_accepts_literal_of_wrong_type": repr(w), "answer": repr(t)}
        try:
            inside = w in g
        except Exception:
            inside = False
        if inside and not (type(w) is float and w == int(w) and abs(int(w)) in range(start, start + n)):
            return {"contains_literal_of_wrong_type": repr(w)}
    return None


def pattern_in_domain(spec, pat):
    """every fixed entry of the pattern is a legal value of its coordinate"""
    if spec["kind"] == "block":
        return all(p is None or 1 <= p <= r for p, r in zip(pat, spec["ranges"]))
    L, R = _pairs_domain(spec)
    lo2, hi2 = (0, R - 1) if spec["kind"] == "binary_mapping" else (1, R)
    return (pat[0] is None or 1 <= pat[0] <= L) and (pat[1] is None or lo2 <= pat[1] <= hi2)


def wildcard_patterns(spec, arity, idxs, rng):
    pats = [[None] * arity]
    vals = [sorted({t[j] for t in idxs}) for j in range(arity)]
    for j in range(arity):
        for x in vals[j][:8]:
            p = [None] * arity
            p[j] = x
            pats.append(p)
    for _ in range(12):
        if not idxs:
            break
        t = rng.choice(idxs)
        pats.append([x if rng.random() < .5 else None for x in t])
    if spec["kind"] != "block":
        L, R = _pairs_domain(spec)
        pats += [[u, None] for u in range(1, min(L, 12) + 1)]
        lo = 0 if spec["kind"] == "binary_mapping" else 1
        hi = R - 1 if spec["kind"] == "binary_mapping" else R
        pats += [[None, v] for v in range(lo, min(hi, 12) + 1)]
    return [p for p in pats if None in p]


def foreign_indices(spec, known, rng):
    k = spec["kind"]
    out = []
    if k == "variable":
        return out
    if k == "block":
        rs = spec["ranges"]
        d = len(rs)
        for j in range(d):
            for bad in (0, rs[j] + 1, -1):
                t = [rng.randint(1, max(r, 1)) for r in rs]
                t[j] = bad
                out.append(tuple(t))
        out.append(tuple([1] * (d + 1)))
        if d > 1:
            out.append(tuple([1] * (d - 1)))
    elif k in ("combinations", "combinations_with_replacement", "permutations", "words"):
        n = max(spec["n"], 0)
        kk = spec.get("k")
        kk = n if kk is None else max(kk, 0)
        for _ in range(20):
            t = tuple(rng.randint(0, n + 1) for _ in range(rng.choice([kk, kk, kk + 1, max(kk - 1, 0)])))
            if t != ():
                out.append(t)
    else:
        L, R = _pairs_domain(spec)
        lo = -1 if k == "binary_mapping" else 0
        for _ in range(25):
            out.append((rng.randint(0, L + 1), rng.randint(lo, R + 1)))
        out += [(1, 1, 1), (1,)]
    return [t for t in out if t not in known]


def live_pool(args):
    """the pool of a history whose slot graphs are the caller's live objects (common.reuse_cases)"""
    import types
    if args is None:
        return None
    return lambda: {("slot", s): types.SimpleNamespace(obj=thunk()) for s, thunk in args.items()}


def build_group(info, args=None):
    spec, off, qseed = info["spec"], info["off"], info.get("qseed", 0)
    state = {}
    pool = live_pool(args)

    def queries():
        # (the query list is made with a group over a FRESH graph: it is part of the request, fixed before anything runs)
        if "qs" not in state:
            F = CNF()
            F.update_variable_number(off)
            try:
                g = create(F, spec)
                state["qs"] = queries_for(spec, off, g, common.sub_rng(qseed, "q"))
            except Exception:
                state["qs"] = []
        return state["qs"]

    def impl():
        F = CNF()
        F.update_variable_number(off)
        g = create(F, spec, pool=pool() if pool else None)
        parts = ["{} {}".format(g.ids.start, len(g))]
        for q in queries():
            parts.append(answer(g, q))
        return ok(" ; ".join(parts))

    qs = queries()
    enc = []
    for q in qs:
        enc += enc_query(q)
    r = req("vg_q", off, enc_spec(spec), len(qs), enc)
    k = spec["kind"]
    cls = k
    nontrivial = len(qs) > 3
    return Case("group", r, impl, group_oracle(spec, off, qseed, pool), cls=cls, nontrivial=nontrivial, info=info)


# ------------------------------------------------------------------ histories
def enc_op(op):
    if op["op"] == "edit":
        return None              # the author edits his own graph object: not an operation of the formula
    if op["op"] == "clause":
        return [0, 1 if op["check"] else 0] + enc_list(op["lits"])
    if op["op"] == "update":
        return [1, op["n"]]
    if op["op"] == "use":
        out = [3, 1 if op["check"] else 0, len(op["picks"])]
        for gi, pos, sign in op["picks"]:
            out += [gi, pos, sign]
        return out
    return [2] + enc_spec(op["spec"])


def fmt_outcome(g):
    return "{}+{}".format(g.ids.start, len(g))


def max_mentioned(F):
    m = 0
    for c in F.clauses():
        for l in c:
            m = max(m, abs(l))
    return m


def handed_out(created, picks):
    """the literals of a `use` operation: sign * (the identifier that the gi-th group created so far gives to its pos-th
    legal index), looked up the way a formula author does it: `g(*index)` for an index enumerated by `g.indices()`.
    Returns [(group, index, identifier or None if the lookup failed)]"""
    out = []
    for gi, pos, sign in picks:
        if not created:
            continue
        g = created[gi % len(created)]
        try:
            idxs = [tuple(t) for t in g.indices()]
        except Exception:
            continue
        if not idxs:
            continue
        t = idxs[pos % len(idxs)]
        try:
            v = g(*t)
            if not is_scalar(v):
                v = list(v)[0]        # word group with k = 0: g() is the whole (one element) sequence
            out.append((g, t, sign * v))
        except Exception:
            out.append((g, t, None))
    return out


class Created(list):
    """the groups returned by the successful new_* calls of one history, plus the graph objects given to them"""

    def __init__(self, pool=None):
        list.__init__(self)
        self.pool = {} if pool is None else pool


def apply_op(F, op, created=None):
    """returns the outcome string; `created` collects the groups returned by the successful new_* calls"""
    try:
        if op["op"] == "edit":
            live = getattr(created, "pool", {}).get(("slot", op["slot"]))
            if live is not None:
                for o in op["ops"]:
                    live.apply(o)
            return None
        if op["op"] == "clause":
            F.add_clause(list(op["lits"]), check=op["check"])
            return "-"
        if op["op"] == "update":
            F.update_variable_number(op["n"])
            return "-"
        if op["op"] == "use":
            lits = [l for _, _, l in handed_out(created or [], op["picks"]) if l is not None]
            F.add_clause(lits, check=op["check"])
            return "-"
        # histories that collect their groups also hand the same graph object to every group made from the same graph
        g = create(F, op["spec"], pool=getattr(created, "pool", None))
        if created is not None:
            created.append(g)
        return fmt_outcome(g)
    except Exception as e:
        return exc(e)


def uncovered(F):
    owned = set()
    for g in F._groups:
        owned.update(g.ids)
    return [v for v in range(1, F.number_of_variables() + 1) if v not in owned]


ITER_KINDS = {
    "list": lambda c: [list(x) for x in c],
    "tuple": lambda c: tuple(tuple(x) for x in c),
    "gen": lambda c: (list(x) for x in c),
    "iter": lambda c: iter([list(x) for x in c]),
    "map": lambda c: map(list, c),
    "lgen": lambda c: [(l for l in x) for x in c],
    "chain": lambda c: itertools.chain([list(x) for x in c[:1]], (list(x) for x in c[1:])),
    "deque": lambda c: collections.deque(list(x) for x in c),
    "gengen": lambda c: ((l for l in x) for x in c),
}


def initial_formula(init, upto=None):
    """the formula built by the constructor from the clauses of `init` (given as the iterable kind it names)"""
    if not init:
        return CNF()
    cl = init["clauses"] if upto is None else init["clauses"][:upto]
    return CNF(ITER_KINDS[init["kind"]](cl))


def build_hist(info, prop="C11", args=None):
    ops, dfmt = info["ops"], info.get("dfmt", "x{}")
    init = info.get("init")
    case = None
    state = {}
    pool = live_pool(args)

    def impl():
        parts = []
        # a formula constructed from clauses c1..cn is the empty formula after add_clause(c1) .. add_clause(cn):
        # the model is sent those operations, the code is observed on every prefix
        for i in range(1, len(init["clauses"]) if init else 0):
            Fi = initial_formula(init, i)
            parts.append("{}:{}:-".format(Fi.number_of_variables(), max_mentioned(Fi)))
        F = initial_formula(init)
        if init and init["clauses"]:
            parts.append("{}:{}:-".format(F.number_of_variables(), max_mentioned(F)))
        gap_single = False
        unnamed = False
        zero_kept = False
        unchecked_beyond = False
        created = Created(pool() if pool else None)
        for op in ops:
            if op["op"] == "group" and op["spec"]["kind"] == "variable":
                if uncovered(F):
                    gap_single = True
                if op["spec"].get("label") is None:
                    unnamed = True
            if op["op"] == "clause":
                if op["check"] and 0 in op["lits"] and any(l != 0 for l in op["lits"]):
                    zero_kept = True
                if not op["check"] and any(abs(l) > F.number_of_variables() for l in op["lits"]):
                    unchecked_beyond = True
            out = apply_op(F, op, created)
            if op["op"] == "edit":
                continue
            parts.append("{}:{}:{}".format(F.number_of_variables(), max_mentioned(F), out))
        state.update(gap_single=gap_single, unnamed=unnamed, zero_kept=zero_kept, unchecked_beyond=unchecked_beyond)
        if prop == "C11":
            case.cls = "single-after-gap" if gap_single else ("unnamed-variable" if unnamed else "hist")
        else:
            case.cls = "unchecked-beyond-numvar" if unchecked_beyond else (
                "rejected-clause" if zero_kept else "hist")
        try:
            labels = fmt_list(fmt_label(s) for s in F.all_variable_labels(dfmt))
        except Exception as e:
            labels = exc(e)
        parts.append(labels)
        return ok(" ; ".join(parts))

    def oracle_c11():
        F = initial_formula(init)
        created = Created(pool() if pool else None)
        for op in ops:
            if op["op"] == "use":
                # index -> identifier -> index on the groups as they are in the MIDDLE of a history
                for g, t, lit in handed_out(created, op["picks"]):
                    if lit is None:
                        return {"group": type(g).__name__, "legal_index_rejected": list(t)}
                    pos = [tuple(x) for x in g.indices()].index(t)
                    if abs(lit) != g.ids.start + pos:
                        return {"group": type(g).__name__, "ids": [g.ids.start, g.ids.stop - 1], "index": list(t),
                                "position_in_indices": pos, "identifier": abs(lit)}
                    try:
                        back = tuple(g.to_index(lit))
                    except Exception as e:
                        return {"group": type(g).__name__, "index": list(t), "identifier": lit, "to_index_raised": type(e).__name__}
                    if back != t:
                        return {"group": type(g).__name__, "index": list(t), "identifier": lit, "to_index": list(back)}
            ncreated = len(created)
            apply_op(F, op, created)
            if len(created) > ncreated and "G" in op["spec"]:
                # a group over a graph enumerates the edges the graph has when the group is made
                got = sorted(tuple(t) for t in created[-1].indices())
                if got != documented_indices(op["spec"]):
                    return {"group": type(created[-1]).__name__, "legal_indices": [list(t) for t in got[:40]],
                            "edges_of_the_graph_given": [list(t) for t in documented_indices(op["spec"])[:40]],
                            "graph_object": "kept by the caller, edited in place between two groups" if op["spec"].get("slot") else "fresh"}
        try:
            names = list(F.all_variable_labels(dfmt))
        except Exception as e:
            try:
                dfmt.format(1)
            except Exception:
                return None            # the caller's default format is broken
            for g in F._groups:
                try:
                    list(g.label()) if not isinstance(g, SingletonVariableGroup) else g.label()
                except Exception:
                    return None        # a label that cannot be formatted (only binary mappings accept one)
            return {"all_variable_labels_raised": type(e).__name__}
        nv = F.number_of_variables()
        if len(names) != nv:
            return {"number_of_names": len(names), "number_of_variables": nv}
        for v in range(1, nv + 1):
            owners = [g for g in F._groups if v in g]
            if len(owners) > 1:
                return {"variable_in_two_groups": v}
            if owners:
                g = owners[0]
                want = g.label(*g.to_index(v))
                if not is_scalar(want):      # word group with k = 0: label() is the whole sequence
                    want = list(want)[v - g.ids.start]
                if want is None:             # a variable created without a name has the default name
                    want = dfmt.format(v)
            else:
                want = dfmt.format(v)
            if names[v - 1] != want:
                return {"variable": v, "reported_name": names[v - 1], "name_of_the_variable": want}
        for v, s in enumerate(names, 1):
            if not isinstance(s, str):
                return {"variable": v, "reported_name_is_not_a_string": repr(s)}
        return None

    def oracle_c10():
        """freshness, observed by wrapping add_clause / _add_variable_group of this one formula"""
        F = initial_formula(init)
        mentioned = set()
        if init:
            want = [list(c) for c in init["clauses"]]
            if [list(c) for c in F.clauses()] != want:
                return {"constructor_given": want, "as": init["kind"], "stores": [list(c) for c in F.clauses()]}
            mentioned.update(abs(l) for c in want for l in c)
            if max(mentioned | {0}) > F.number_of_variables():
                return {"constructor_given": want, "as": init["kind"], "declares": F.number_of_variables()}
        bad = []
        precondition_broken = []
        orig_add = F.add_clause
        orig_grp = F._add_variable_group

        def add_clause(clause, check=True):
            data = list(clause)
            if not check and any(not isinstance(l, int) or l == 0 or abs(l) > F.number_of_variables() for l in data):
                precondition_broken.append(data)
            try:
                return orig_add(data, check=check)
            finally:
                # what the formula stores is what it mentions (also when the call raised)
                stored = list(F.clauses())
                if stored and stored[-1] == data:
                    mentioned.update(abs(l) for l in data if isinstance(l, int))

        def add_group(vg):
            reused = sorted(set(vg.ids) & mentioned)
            if reused:
                bad.append({"group_ids": [vg.ids.start, vg.ids.stop - 1], "already_mentioned": reused[:5]})
            return orig_grp(vg)

        F.add_clause = add_clause
        F._add_variable_group = add_group
        created = Created(pool() if pool else None)
        at_creation = {}
        for op in ops:
            before = F.number_of_variables()
            if op["op"] == "use":
                # the identifiers a group HANDS OUT are the ones it allocated: inside its own range, hence fresh
                for g, t, lit in handed_out(created, op["picks"]):
                    if lit is None:
                        continue
                    # (after an unchecked clause beyond the count the caller, not the group, is responsible for a clash)
                    old = at_creation.get(id(g), frozenset()) if not precondition_broken else frozenset()
                    if abs(lit) not in g.ids or abs(lit) in old or abs(lit) > F.number_of_variables():
                        return {"group": type(g).__name__, "allocated": [g.ids.start, g.ids.stop - 1], "index": list(t),
                                "hands_out_identifier": abs(lit), "mentioned_before_the_group_was_created": abs(lit) in old,
                                "declared_variables": F.number_of_variables()}
            ncreated = len(created)
            apply_op(F, op, created)
            if len(created) > ncreated:
                at_creation[id(created[-1])] = frozenset(mentioned)
            if F.number_of_variables() < before:
                return {"number_of_variables_decreased": [before, F.number_of_variables()]}
        if precondition_broken:
            return None     # check=False trusts the caller: the caller broke the contract
        if bad:
            return {"fresh_group_reuses_mentioned_identifier": bad[0]}
        if max_mentioned(F) > F.number_of_variables():
            return {"mentioned_beyond_number_of_variables": [max_mentioned(F), F.number_of_variables()]}
        return None

    enc = []
    allops = [{"op": "clause", "lits": list(c), "check": True} for c in (init["clauses"] if init else [])] + \
        [op for op in ops if op["op"] != "edit"]
    for op in allops:
        enc += enc_op(op)
    r = req("vg_hist", common.enc_str(dfmt), len(allops), enc)
    case = Case("hist", r, impl, oracle_c11 if prop == "C11" else oracle_c10, cls="hist",
                nontrivial=len(ops) > 1, info=info)
    return case


# ------------------------------------------------------------------ build / generators
REUSE_SUITE = "graph_reuse"   # groups made over ONE graph object that its owner edits in place between them, across formulas


def build(suite, info, args=None):
    if suite == "group":
        return build_group(info, args)
    if suite == "hist":
        return build_hist(info, "C11", args)
    if suite == REUSE_SUITE:
        return common.reuse_cases(info["hist"], build, REUSE_SUITE)[info["step"]]
    raise ValueError("unknown suite " + suite)


FMT_TOKENS = ["{}", "{}", "{}", "{0}", "{1}", "{2}", "{{", "}}", "a", "_", "(", ")", ",", "[", "é", "{a}", "}"]


def gen_format(rng):
    toks = [rng.choice(FMT_TOKENS) for _ in range(rng.randint(0, 6))]
    s = "".join(toks)
    if rng.random() < .1:
        s += "{"
    return s


def gen_label(rng, kind):
    c = rng.random()
    if c < .45:
        return None
    if c < .8:
        return rng.choice(GOOD_LABELS[kind])
    return gen_format(rng)


def gen_bip(rng, big=False):
    shape = rng.choice(["empty00", "l0", "0r", "noedges", "complete", "random", "random", "sparse", "isolated", "big"])
    if shape == "empty00":
        return {"l": 0, "r": 0, "edges": []}
    if shape == "l0":
        return {"l": rng.randint(1, 4), "r": 0, "edges": []}
    if shape == "0r":
        return {"l": 0, "r": rng.randint(1, 4), "edges": []}
    l, r = rng.randint(1, 5), rng.randint(1, 5)
    if shape == "big" or big:
        l, r = rng.randint(10, 13), rng.randint(10, 12)
    if shape == "noedges":
        return {"l": l, "r": r, "edges": []}
    pairs = [(u, v) for u in range(1, l + 1) for v in range(1, r + 1)]
    if shape == "complete":
        es = pairs
    elif shape == "isolated":
        es = [p for p in pairs if p[0] % 2 == 0 and p[1] != 1 and rng.random() < .6]
    else:
        p = rng.choice([.2, .5, .8]) if shape != "big" else .15
        es = [e for e in pairs if rng.random() < p]
    es = list(es)
    rng.shuffle(es)
    if es and rng.random() < .3:
        es.append(es[0])            # repeated insertion
    return {"l": l, "r": r, "edges": [list(e) for e in es]}


def gen_graph(rng, directed):
    shape = rng.choice(["n0", "n1", "noedges", "path", "complete", "random", "random", "isolated", "big"])
    if shape == "n0":
        return {"n": 0, "edges": []}
    if shape == "n1":
        return {"n": 1, "edges": [[1, 1]] if directed and rng.random() < .5 else []}
    n = rng.randint(2, 6)
    if shape == "big":
        n = rng.randint(10, 13)
    pairs = [(u, v) for u in range(1, n + 1) for v in range(1, n + 1) if (directed or u < v)]
    if shape == "noedges":
        es = []
    elif shape == "path":
        es = [(i, i + 1) for i in range(1, n)]
    elif shape == "complete":
        es = [p for p in pairs if p[0] != p[1]]
    elif shape == "isolated":
        es = [p for p in pairs if p[0] > 1 and p[1] > 1 and p[0] != p[1] and rng.random() < .5]
    else:
        p = .15 if shape == "big" else rng.choice([.3, .6])
        es = [e for e in pairs if rng.random() < p]
    es = [e if directed or rng.random() < .5 else (e[1], e[0]) for e in es]
    rng.shuffle(es)
    return {"n": n, "edges": [list(e) for e in es]}


def gen_spec(rng, kind=None, small=False):
    kind = kind or rng.choice(KINDS)
    lab = gen_label(rng, kind)
    if kind == "variable":
        return {"kind": kind, "label": lab}
    if kind == "block":
        c = rng.random()
        if c < .05:
            ranges = []
        elif c < .12:
            ranges = [rng.choice([-1, 2, 3]) for _ in range(rng.randint(1, 3))]
        else:
            d = rng.choice([1, 1, 2, 2, 2, 3, 3, 4])
            ranges = [rng.choice([0, 1, 1, 2, 2, 3, 3, 4, 5] if d > 1 else [0, 1, 2, 5, 11]) for _ in range(d)]
            if small:
                ranges = [min(r, 3) for r in ranges[:3]]
        if lab is not None and lab in GOOD_LABELS[kind] and rng.random() < .7:
            good = [l for l in GOOD_LABELS[kind] if l.count("{}") == len(ranges)]
            lab = good[0] if good else None
        return {"kind": kind, "ranges": ranges, "label": lab}
    if kind in ("combinations", "combinations_with_replacement", "words"):
        n = rng.choice([-1, 0, 1, 2, 3, 3, 4, 4, 5, 6])
        k = rng.choice([-1, 0, 1, 1, 2, 2, 3, 4])
        if kind == "words" and n >= 0 and k >= 0 and n ** k > 300:
            k = 2
        if small:
            n, k = min(n, 4), min(k, 2)
        return {"kind": kind, "n": n, "k": k, "label": lab}
    if kind == "permutations":
        n = rng.choice([-1, 0, 1, 2, 3, 3, 4, 4, 5])
        k = rng.choice([None, None, -1, 0, 1, 2, 2, 3, 6])
        if small:
            n = min(n, 3)
        return {"kind": kind, "n": n, "k": k, "label": lab}
    if kind in ("bipartite", "sparse_mapping"):
        return {"kind": kind, "G": gen_bip(rng), "label": lab}
    if kind == "graph":
        return {"kind": kind, "G": gen_graph(rng, False), "label": lab}
    if kind == "digraph":
        sb = rng.choice(["pred", "pred", "succ", "succ", "succ", "other"])
        return {"kind": kind, "G": gen_graph(rng, True), "label": lab, "sortby": sb,
                "explicit_sortby": rng.random() < .5}
    if kind == "mapping":
        return {"kind": kind, "n": rng.choice([-1, 0, 1, 2, 3, 4, 11]), "m": rng.choice([-2, 0, 1, 2, 3, 5, 10]), "label": lab}
    if kind == "binary_mapping":
        return {"kind": kind, "n": rng.choice([-1, 0, 1, 2, 3, 4]),
                # 2**20 exercises the float ceil(log2) far from small values, but every such group keeps a table of
                # 2**20 sign tuples (~200 MB) alive as long as its case is: keep it rare
                "m": (2 ** 20 if rng.random() < 0.004 else
                      rng.choice([-1, 0, 1, 2, 3, 4, 5, 7, 8, 9, 16, 17, 33, 1000, 2 ** 12])), "label": lab}
    raise ValueError(kind)


def known_nonempty(spec):
    k = spec["kind"]
    if not plainly_legal(spec) or k == "variable":
        return False
    if k == "block":
        return all(r >= 1 for r in spec["ranges"])
    if k == "mapping":
        return spec["n"] >= 1 and spec["m"] >= 1
    if k == "binary_mapping":
        return spec["m"] >= 2
    if k in ("words", "combinations_with_replacement"):
        return spec["n"] >= 1
    return False


def gen_hist(rng, clean):
    """clean: single variables are created only where all_variable_labels has no gap to skip,
    always with a name; no checked clause contains 0"""
    nops = rng.randint(1, 14)
    ops = []
    dirty = False
    ngroups = 0
    for _ in range(nops):
        c = rng.random()
        if c < .5:
            kind = rng.choice(KINDS)
            if clean and kind == "variable" and dirty:
                kind = "block"
            spec = gen_spec(rng, kind, small=True)
            earlier = [o["spec"] for o in ops if o["op"] == "group" and o["spec"]["kind"] != "variable"]
            if earlier and rng.random() < .35:
                # the same kind of group with the same shape once more, further up in the same formula
                spec = dict(rng.choice(earlier))
                kind = spec["kind"]
            if clean and kind == "variable":
                spec["label"] = rng.choice(["X", "y_{1}", "z"])
            ops.append({"op": "group", "spec": spec})
            ngroups += 1
            if known_nonempty(spec):
                dirty = False
        elif c < .68 and ngroups:
            # a clause written with the variables of the groups made so far (looked up through the groups)
            ops.append({"op": "use", "check": rng.random() < .5,
                        "picks": [[rng.randrange(ngroups) if rng.random() < .5 else ngroups - 1, rng.randrange(40),
                                   rng.choice([1, -1])] for _ in range(rng.randint(1, 4))]})
        elif c < .8:
            n = rng.choice([0, 1, 1, 2, 3, 4])
            lits = [rng.choice([1, -1]) * rng.choice([1, 2, 3, 5, 8, 13, 30]) for _ in range(n)]
            check = rng.random() < .6
            if not clean and rng.random() < .12 and lits:
                lits[rng.randrange(len(lits))] = 0
            ops.append({"op": "clause", "lits": lits, "check": check})
            if lits:
                dirty = True
        else:
            ops.append({"op": "update", "n": rng.choice([-1, 0, 1, 2, 5, 9, 20, 40])})
            dirty = True
    dfmt = rng.choice(["x{}", "x{}", "x{}", "v_{{{}}}", "y{0}", "{}{}", "w"])
    if rng.random() < .08:
        # identifiers beyond the small-integer cache of CPython (seeded change C11-6)
        ops.insert(0, {"op": "update", "n": rng.choice([255, 256, 257, 300])})
    info = {"ops": ops, "dfmt": dfmt}
    if rng.random() < .25:
        # the formula starts from clauses handed to the constructor, as one of several kinds of iterable
        cl = [[rng.choice([1, -1]) * rng.choice([1, 2, 3, 5, 8, 13]) for _ in range(rng.choice([0, 1, 2, 3]))]
              for _ in range(rng.randint(1, 4))]
        info["init"] = {"kind": rng.choice(sorted(ITER_KINDS)), "clauses": cl}
    return info


def _slot_value(rng, kind):
    if kind == "bipartite":
        l, r = rng.randint(2, 4), rng.randint(2, 4)
        es = [(u, v) for u in range(1, l + 1) for v in range(1, r + 1) if rng.random() < .5] or [(1, 1)]
        return common.gvalue(kind, (l, r), es)
    n = rng.randint(3, 6)
    es = [(u, v) for u in range(1, n + 1) for v in range(1, n + 1)
          if (u < v or (kind == "digraph" and u != v and rng.random() < .3)) and rng.random() < .45] or [(1, 2)]
    return common.gvalue(kind, n, es)


def _slot_spec(rng, value, slot):
    kind = {"simple": "graph", "digraph": "digraph", "bipartite": rng.choice(["bipartite", "sparse_mapping"])}[value["kind"]]
    spec = {"kind": kind, "G": spec_graph(None, value), "slot": slot,
            "label": rng.choice([None, None] + list(GOOD_LABELS[kind]))}
    if kind == "digraph":
        spec.update(sortby=rng.choice(["pred", "succ"]), explicit_sortby=rng.random() < .5)
    return spec


def gen_slot_hist(rng):
    """ONE formula whose author keeps a graph object, makes edge-variable groups over it repeatedly and edits the object in
    place between two groups (`edit` operations: the facility of harness/common.py; simple graphs: edge rewired, switch,
    labels exchanged -- counts unchanged; directed / bipartite objects can only grow), with clauses over the groups
    and raises of the variable count in between"""
    # (not bipartite objects: a bipartite-edge / sparse-mapping group keeps a reference to the caller's graph instead of an
    # index of its own -- observation O1 of notes/C19.md -- so what it answers after the caller edited the graph is not covered
    # by the property; over a bipartite object the groups are made in SEPARATE formulas, see reuse_histories)
    value = _slot_value(rng, rng.choice(["simple", "simple", "simple", "digraph"]))
    ops, ngroups = [], 0
    if rng.random() < .3:
        ops.append({"op": "update", "n": rng.choice([1, 2, 5, 9])})
    for j in range(rng.randint(2, 4)):
        if j > 0:
            eops, names = [], []
            for _ in range(rng.choice([1, 1, 2])):
                name, e = common.gen_reuse_edit(rng, value, "cnfgen")
                names.append(name)
                for o in e:
                    value = common.value_after(value, o)
                    eops.append(o)
            ops.append({"op": "edit", "slot": "s", "ops": eops, "moves": names})
        ops.append({"op": "group", "spec": _slot_spec(rng, value, "s")})
        ngroups += 1
        x = rng.random()
        if x < .5:
            ops.append({"op": "use", "check": rng.random() < .5,
                        "picks": [[rng.randrange(ngroups), rng.randrange(40), rng.choice([1, -1])] for _ in range(rng.randint(1, 3))]})
        elif x < .65:
            ops.append({"op": "group", "spec": gen_spec(rng, rng.choice(["block", "mapping", "words"]), small=True)})
            ngroups += 1
        elif x < .8:
            ops.append({"op": "update", "n": rng.choice([0, 3, 20, 40])})
    return {"ops": ops, "dfmt": "x{}"}


def reuse_histories(rng, tier):
    """ACROSS formulas: one graph object (cnfgen Graph / DirectedGraph / BipartiteGraph) kept by its owner, who makes a group
    over it in a new formula (a `group` case with its queries, or a short `hist` case), edits it in place, makes the next ..."""
    out = []
    offsets = [0, 0, 1, 7, 100]
    for i in range(40 if tier == "quick" else 400):
        value = _slot_value(rng, ["simple", "simple", "simple", "digraph", "bipartite"][i % 5])

        def pick(rng, values, prev):
            v = values["g"]
            if rng.random() < .6:
                return ["group", {"spec": _slot_spec(rng, v, "g"), "off": rng.choice(offsets), "qseed": rng.randrange(10 ** 6)}]
            ops = [{"op": "group", "spec": _slot_spec(rng, v, "g")},
                   {"op": "use", "check": True, "picks": [[0, rng.randrange(40), rng.choice([1, -1])] for _ in range(2)]},
                   {"op": "group", "spec": _slot_spec(rng, v, "g")}]
            if rng.random() < .5:
                ops.insert(0, {"op": "update", "n": rng.choice([1, 3, 8])})
            return ["hist", {"ops": ops, "dfmt": "x{}"}]
        slots = {"g": {"value": value, "form": "cnfgen", "salt": rng.randint(0, 10 ** 6)}}
        out.append(common.gen_reuse_history(rng, slots, rng.randint(3, 5), pick))
    return out


CORPUS_GROUPS = [
    {"spec": {"kind": "combinations_with_replacement", "n": 3, "k": 2, "label": None}, "off": 0},      # D22
    {"spec": {"kind": "block", "ranges": [3, 5, 4, 3], "label": None}, "off": 3},
    {"spec": {"kind": "block", "ranges": [2, 0, 3], "label": None}, "off": 5},
    {"spec": {"kind": "block", "ranges": [0], "label": None}, "off": 0},
    {"spec": {"kind": "block", "ranges": [2, 3], "label": "z_{{{},{}}}"}, "off": 2},
    {"spec": {"kind": "block", "ranges": [2, 3], "label": "z{}{}{}"}, "off": 2},
    {"spec": {"kind": "combinations", "n": 5, "k": 3, "label": "p({})"}, "off": 0},
    {"spec": {"kind": "combinations", "n": 3, "k": 0, "label": None}, "off": 4},
    {"spec": {"kind": "combinations", "n": 2, "k": 3, "label": None}, "off": 4},
    {"spec": {"kind": "permutations", "n": 3, "k": None, "label": None}, "off": 1},
    {"spec": {"kind": "words", "n": 2, "k": 3, "label": None}, "off": 1},
    {"spec": {"kind": "words", "n": 0, "k": 2, "label": None}, "off": 1},
    {"spec": {"kind": "bipartite", "G": {"l": 2, "r": 3, "edges": [[2, 1], [1, 3], [2, 2]]}, "label": "E[{},{}]"}, "off": 11},
    {"spec": {"kind": "bipartite", "G": {"l": 5, "r": 3, "edges": [[4, 3], [4, 2], [2, 1]]}, "label": None}, "off": 0},
    {"spec": {"kind": "graph", "G": {"n": 4, "edges": [[2, 1], [3, 2], [1, 3], [4, 2]]}, "label": "E[{},{}]"}, "off": 0},
    {"spec": {"kind": "graph", "G": {"n": 12, "edges": [[12, 1], [10, 11], [2, 10], [3, 2]]}, "label": None}, "off": 100},
    {"spec": {"kind": "digraph", "G": {"n": 5, "edges": [[1, 2], [1, 3], [2, 3], [2, 4], [5, 1]]}, "label": "b({},{})",
              "sortby": "succ", "explicit_sortby": True}, "off": 11},
    {"spec": {"kind": "digraph", "G": {"n": 3, "edges": [[1, 1], [2, 1], [1, 2], [3, 3]]}, "label": None,
              "sortby": "pred"}, "off": 0},
    {"spec": {"kind": "mapping", "n": 4, "m": 10, "label": None}, "off": 0},
    {"spec": {"kind": "mapping", "n": 0, "m": 3, "label": None}, "off": 2},
    {"spec": {"kind": "sparse_mapping", "G": {"l": 5, "r": 3, "edges": [[2, 1], [1, 3], [2, 2], [3, 3], [4, 3], [4, 2], [5, 1]]},
              "label": None}, "off": 0},
    {"spec": {"kind": "binary_mapping", "n": 4, "m": 6, "label": "f({},{})"}, "off": 0},
    {"spec": {"kind": "binary_mapping", "n": 10, "m": 13, "label": None}, "off": 10},
    {"spec": {"kind": "binary_mapping", "n": 3, "m": 1, "label": None}, "off": 10},
    {"spec": {"kind": "binary_mapping", "n": 2, "m": 4, "label": "{}{}{}"}, "off": 0},
    {"spec": {"kind": "variable", "label": "X"}, "off": 11},
    {"spec": {"kind": "variable", "label": None}, "off": 0},
]

CORPUS_HIST = [
    # D23: a single variable after anonymous variables
    {"ops": [{"op": "update", "n": 3}, {"op": "group", "spec": {"kind": "variable", "label": "X"}}]},
    {"ops": [{"op": "clause", "lits": [1, -2], "check": True}, {"op": "group", "spec": {"kind": "variable", "label": "X"}}]},
    # D23: unnamed variable
    {"ops": [{"op": "group", "spec": {"kind": "variable", "label": None}}]},
    # the doctest of VariablesManager
    {"ops": [{"op": "group", "spec": {"kind": "variable", "label": "X"}},
             {"op": "group", "spec": {"kind": "variable", "label": "Y"}},
             {"op": "group", "spec": {"kind": "block", "ranges": [2, 3], "label": "z_{{{},{}}}"}}]},
    {"ops": [{"op": "update", "n": 2}, {"op": "group", "spec": {"kind": "block", "ranges": [2, 2], "label": None}},
             {"op": "clause", "lits": [9], "check": True},
             {"op": "group", "spec": {"kind": "mapping", "n": 2, "m": 2, "label": None}},
             {"op": "group", "spec": {"kind": "block", "ranges": [0, 2], "label": None}},
             {"op": "update", "n": 20}]},
    # the guard is necessary (C10 witness): unchecked clause beyond numvar, then a new variable
    {"ops": [{"op": "clause", "lits": [9], "check": False}, {"op": "group", "spec": {"kind": "variable", "label": "X"}}]},
    # D32 (fixed in /repo 11d5d7d): a rejected clause used to stay in the formula
    {"ops": [{"op": "clause", "lits": [0, 1], "check": True}, {"op": "group", "spec": {"kind": "variable", "label": "X"}}]},
]


def group_infos(ctx):
    tier, seed = ctx["tier"], ctx["seed"]
    rng = common.sub_rng(seed, "C11", "group")
    infos = [dict(c, qseed=0) for c in CORPUS_GROUPS]
    reps = 22 if tier == "quick" else 260
    # offsets: the fixed list plus the neighbourhood of the integer constants of the current source (thresholds, cache sizes)
    offsets = OFFSETS + common.probe_sizes(["formula/variables.py", "formula/basecnf.py"], 2, 10 ** 6)[:12]
    for kind in KINDS:
        for i in range(reps):
            infos.append({"spec": gen_spec(rng, kind), "off": rng.choice(offsets), "qseed": rng.randrange(10 ** 6)})
    return infos


def hist_infos(ctx):
    tier, seed = ctx["tier"], ctx["seed"]
    rng = common.sub_rng(seed, "C11", "hist")
    infos = [dict(c) for c in CORPUS_HIST]
    reps = 260 if tier == "quick" else 4000
    for i in range(reps):
        infos.append(gen_hist(rng, clean=(i % 5 != 0)))
    return infos


def cases(ctx):
    for info in group_infos(ctx):
        yield build_group(info)
    for info in hist_infos(ctx):
        yield build_hist(info, "C11")
    # edge-variable groups made repeatedly over ONE graph object that its owner edits in place: in one formula ...
    rng = common.sub_rng(ctx["seed"], "C11", "slots")
    for i in range(60 if ctx["tier"] == "quick" else 800):
        yield build_hist(gen_slot_hist(rng), "C11")
    # ... and across formulas
    for hist in reuse_histories(common.sub_rng(ctx["seed"], "C11", "reuse"), ctx["tier"]):
        yield from common.reuse_cases(hist, build, REUSE_SUITE)


def search(ctx, case):
    """the correspondence broke on `case`: look for an input on which the PROPERTY fails, on the
    case itself and on its neighbourhood (other offsets, other query samples)"""
    r = common.run_oracle(case)
    if r is not None and not case.cls.startswith("D"):
        return {"suite": case.suite, "info": case.info, "failure": r}
    if case.suite == REUSE_SUITE:
        return None
    if case.suite == "group":
        for off in OFFSETS + [2, 13]:
            for qseed in range(3):
                c = build_group(dict(case.info, off=off, qseed=qseed))
                r = common.run_oracle(c)
                if r is not None and not c.cls.startswith("D"):
                    return {"suite": "group", "info": c.info, "failure": r}
    if case.suite == "hist":
        ops = case.info["ops"]
        for cut in range(1, len(ops) + 1):
            c = build_hist(dict(case.info, ops=ops[:cut]), ctx.get("prop", "C11"))
            common.run_impl(c)
            r = common.run_oracle(c)
            if r is not None and not c.cls.startswith("D"):
                return {"suite": "hist", "info": c.info, "failure": r}
    return None


def search_global(ctx):
    """a proof obligation no longer checks: run the oracles of the quick suites"""
    for c in cases(dict(ctx, tier="quick")):
        common.run_impl(c)
        r = common.run_oracle(c)
        if r is not None and not c.cls.startswith("D"):     # "D…" classes are the recorded defects
            return {"suite": c.suite, "info": c.info, "failure": r}
    return None
