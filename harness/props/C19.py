"""C19 — transformations leave their inputs untouched and record provenance.

Correspondence (model vs code): the header suites of C05 (substitutions: `sub.hdr`) and C09 (shuffle) — the
header the real transformation produces equals the model's; builder requests (`lin`) for the cases below.
Oracle (independent of the model; object aliasing cannot be modelled, so it is observed here): every argument
(formula clauses / variable count / names / header, graphs, literal / pattern / charge lists) is deep-snapshotted
before the call and compared afterwards; the result is then mutated (clause appended, header entry added,
literal flipped in place) and the input must still equal its snapshot (no shared sub-objects); the result's
header = input header (+ " (reshuffled)" on the description for Shuffle) + exactly one new numbered entry.
"""
import copy
import random

from harness import common
from harness.common import Case, req, enc_list, ok, OPCODE, fmt_clauses
from harness.props import C05 as H05
from harness.props import C09 as H09
from harness.props import C17 as H17

import cnfgen
from cnfgen.formula.linear import CNFLinear
from cnfgen.formula.baseopb import BaseOPB
from cnfgen import graphs as G

RULE = ("header suites of C05/C09; every transformation of the command-line table on structured formulas with "
        "non-trivial headers; every builder x container; generators with list / graph arguments; "
        "distinct = distinct request + transformation; all non-trivial")
ASSUMPTIONS = ["aliasing between Python objects is observed by snapshot / mutate-after, not proven"]


def snap_formula(F):
    return (F.number_of_variables(), [list(c) for c in F], list(F.all_variable_labels()), list(F.header.items()))


def snap_graph(g):
    if isinstance(g, G.BipartiteGraph):
        return ("b", g.left_order(), g.right_order(), sorted(g.edges()), g.name)
    return ("g", g.number_of_vertices(), list(g.edges()), g.name)


def base_formula(rng):
    F = cnfgen.CNF(description="base formula")
    k = rng.randint(1, 3)
    x = F.new_block(k, rng.randint(1, 2), label="x_{{{},{}}}")
    n = F.number_of_variables()
    for _ in range(rng.randint(1, 4)):
        F.add_clause([rng.choice([1, -1]) * rng.randint(1, n) for _ in range(rng.randint(0, 3))])
    F.header["note"] = "kept"
    if rng.random() < .5:
        F.header["transformation 1"] = "an earlier step"
    if rng.random() < .3:
        F.header["transformation 3"] = "a later one"
    return F


def _explicit_shuffle(F):
    n, m = F.number_of_variables(), len(list(F))
    return cnfgen.Shuffle(F, [(-1) ** i for i in range(n)], list(range(n, 0, -1)), list(range(m - 1, -1, -1)))


# transformations reachable from the library only (explicit arguments)
EXTRA_TRANS = [(["shuffle", "explicit-lists"], _explicit_shuffle),
               (["shuffle", "explicit-flips-only"], lambda F: cnfgen.Shuffle(F, [1] * F.number_of_variables(), "fixed", "fixed")),
               (["xorcomp", "graph"], lambda F: cnfgen.VariableCompression(
                   F, G.bipartite_shift(F.number_of_variables(), max(2, F.number_of_variables()), [0, 1]), "xor"))]
ALL_TRANS = list(H17.TRANS) + EXTRA_TRANS


def trans_case(rng, idx):
    targv, f = ALL_TRANS[idx]
    seed = rng.randint(0, 10 ** 6)

    def oracle():
        r = random.Random(seed)
        F = base_formula(r)
        before = snap_formula(F)
        random.seed(seed)
        try:
            R = f(F)
        except Exception as e:
            return {"transformation": targv, "raised": type(e).__name__}
        if snap_formula(F) != before:
            return {"transformation": targv, "input_changed_by_call": True}
        if targv[0] == "none":
            return None   # documented exception: returns the same object, no header entry
        if R is F:
            return {"transformation": targv, "returned_the_input_object": True}
        # provenance
        hin, hout = before[3], list(R.header.items())
        exp = [(k, v + " (reshuffled)" if (k == "description" and targv[0] == "shuffle") else v) for k, v in hin]
        if hout[:len(hin)] != exp:
            return {"transformation": targv, "old_header_entries_not_kept": hout[:len(hin) + 1], "expected_prefix": exp}
        new = hout[len(hin):]
        if len(new) != 1 or not new[0][0].startswith("transformation "):
            return {"transformation": targv, "new_entries": new}
        used = {k for k, _ in hin}
        i = 1
        while "transformation {}".format(i) in used:
            i += 1
        if new[0][0] != "transformation {}".format(i):
            return {"transformation": targv, "entry_number": new[0][0], "expected": i}
        # aliasing: mutate the result, the input must not move
        R.header["zzz"] = "1"
        R.add_clause([1])
        for c in R._clauses[:3]:
            if c:
                c[0] = -c[0]
        if snap_formula(F) != before:
            return {"transformation": targv, "result_shares_objects_with_input": True}
        return None
    lits = [1, -2, 3]
    return Case("untouched_trans", req("lin", 1, 1, enc_list(lits)),
                lambda: ok(fmt_clauses((lambda A: (A.add_linear(list(lits), ">=", 1), A)[1])(CNFLinear()))),
                oracle, cls=targv[0], info={"t": idx, "seed": seed})


def builder_case(rng):
    n = rng.randint(1, 6)
    lits = rng.lits(n, maxvar=n + 1)
    op = rng.choice(["<=", ">=", "<", ">", "==", "!="])
    k = rng.randint(-1, n + 1)
    opb = rng.random() < .4

    def impl():
        A = CNFLinear()
        A.add_linear(list(lits), op, k)
        return ok(fmt_clauses(A))

    def oracle():
        for cls in (CNFLinear, BaseOPB):
            for name in ("lin", "parity", "loose_majority", "strict_minority"):
                arg = list(lits)
                A = cls()
                if name == "lin":
                    if cls is CNFLinear:
                        A.add_linear(arg, op, k)
                    elif op in ("<=", ">=", "==", "!="):
                        getattr(A, {"<=": "cardinality_leq", ">=": "cardinality_geq", "==": "cardinality_eq",
                                    "!=": "cardinality_neq"}[op])(arg, k)
                elif name == "parity":
                    A.add_parity(arg, k % 2)
                else:
                    getattr(A, "add_" + name)(arg)
                if arg != lits:
                    return {"builder": cls.__name__ + "." + name, "caller_list_changed": arg, "was": lits}
                stored = [list(c) for c in A]
                arg[0] = 99
                if [list(c) for c in A] != stored:
                    return {"builder": cls.__name__ + "." + name, "formula_shares_the_callers_list": True}
        return None
    return Case("untouched_builder", req("lin", OPCODE[op], k, enc_list(lits)), impl, oracle, cls=op,
                info={"lits": lits, "op": op, "k": k})


def generator_case(rng):
    def oracle():
        g = G.Graph(5)
        for e in ((1, 2), (2, 3), (3, 4), (4, 5), (1, 5)):
            g.add_edge(*e)
        d = G.DirectedGraph(4)
        for e in ((1, 2), (1, 3), (2, 4), (3, 4)):
            d.add_edge(*e)
        b = G.BipartiteGraph(3, 3)
        for e in ((1, 1), (1, 2), (2, 2), (3, 3), (3, 1)):
            b.add_edge(*e)
        charges = [1, 0, 0, 1, 1]
        short_bools = [True]
        short_bools2 = [True, False]
        empty_charges = []
        ks = [2, 3]
        pattern = [2, 0, 1]
        flips, vperm, cperm = [1, -1, 1], [2, 3, 1], [1, 0]
        small = cnfgen.CNF([[1, -2], [3]])
        calls = [
            ("TseitinFormula/short-bools", lambda: cnfgen.TseitinFormula(g, short_bools), [g], [short_bools]),
            ("TseitinFormula/short-bools2", lambda: cnfgen.TseitinFormula(g, short_bools2), [g], [short_bools2]),
            ("TseitinFormula/empty", lambda: cnfgen.TseitinFormula(g, empty_charges), [g], [empty_charges]),
            ("TseitinFormula/tuple", lambda: cnfgen.TseitinFormula(g, (True, False)), [g], []),
            ("VanDerWaerden", lambda: cnfgen.VanDerWaerden(5, 2, 2, *ks), [], [ks]),
            ("Shuffle/explicit", lambda: cnfgen.Shuffle(small, flips, vperm, cperm), [], [flips, vperm, cperm]),
            ("TseitinFormula", lambda: cnfgen.TseitinFormula(g, charges), [g], [charges]),
            ("GraphColoringFormula", lambda: cnfgen.GraphColoringFormula(g, 3), [g], []),
            ("DominatingSet", lambda: cnfgen.DominatingSet(g, 2), [g], []),
            ("CliqueFormula", lambda: cnfgen.CliqueFormula(g, 3), [g], []),
            ("GraphIsomorphism", lambda: cnfgen.GraphIsomorphism(g, g), [g], []),
            ("GraphOrderingPrinciple", lambda: cnfgen.GraphOrderingPrinciple(g), [g], []),
            ("PerfectMatchingPrinciple", lambda: cnfgen.PerfectMatchingPrinciple(g), [g], []),
            ("PebblingFormula", lambda: cnfgen.PebblingFormula(d), [d], []),
            ("StoneFormula", lambda: cnfgen.StoneFormula(d, 2), [d], []),
            ("GraphPigeonholePrinciple", lambda: cnfgen.GraphPigeonholePrinciple(b), [b], []),
            ("SubsetCardinalityFormula", lambda: cnfgen.SubsetCardinalityFormula(b), [b], []),
            ("bipartite_shift", lambda: G.bipartite_shift(4, 4, pattern), [], [pattern]),
            ("VariableCompression", lambda: cnfgen.VariableCompression(cnfgen.PigeonholePrinciple(3, 1), b, "xor"), [b], []),
        ]
        import networkx
        nxg = [networkx.path_graph(4), networkx.relabel_nodes(networkx.cycle_graph(4), {0: "a", 1: "b", 2: "c", 3: "d"}),
               networkx.grid_2d_graph(2, 2), networkx.DiGraph([(0, 1), (1, 2), (0, 2)])]

        def nxsnap(h):
            return (sorted(map(repr, h.nodes(data=True))), sorted(map(repr, h.edges(data=True))), repr(sorted(h.graph.items())),
                    list(map(repr, h.nodes())), list(map(repr, h.edges())))
        # networkx bipartite graphs: the side of a node is 0 / 1 as int, as bool, or as the strings a parsed file gives;
        # nodes inserted in an order that makes networkx report some edges as (right, left); extra node / edge data
        bips = []
        for zero, one in ((0, 1), (False, True), ("0", "1")):
            h = networkx.Graph(name="caller's graph")
            for node, side in (("r1", one), ("l1", zero), ("l2", zero), ("r2", one), ("r3", one), ("l3", zero)):
                h.add_node(node, bipartite=side, tag=[node])
            for e in (("r1", "l1"), ("l1", "r2"), ("l2", "r2"), ("r3", "l3"), ("l3", "r1"), ("l2", "r3")):
                h.add_edge(*e, weight=[1, 2])
            bips.append(h)
        for h in bips:
            for fn in ("GraphPigeonholePrinciple", "SubsetCardinalityFormula", "VariableCompression", "BipartiteGraph.normalize",
                       "SparseStoneFormula"):
                before = nxsnap(h)
                try:
                    if fn == "VariableCompression":
                        cnfgen.VariableCompression(cnfgen.PigeonholePrinciple(3, 1), h, "xor")
                    elif fn == "BipartiteGraph.normalize":
                        G.BipartiteGraph.normalize(h)
                    elif fn == "SparseStoneFormula":
                        dd = G.DirectedGraph(3)
                        dd.add_edge(1, 2)
                        dd.add_edge(2, 3)
                        cnfgen.SparseStoneFormula(dd, h)
                    else:
                        getattr(cnfgen, fn)(h)
                except Exception as e:
                    return {"generator": fn, "networkx_argument": True, "raised": type(e).__name__, "msg": str(e)[:100]}
                if nxsnap(h) != before:
                    return {"generator": fn, "networkx_graph_argument_changed": nxsnap(h)[0], "was": before[0]}
        for h, fns in ((nxg[0], ("TseitinFormula", "GraphColoringFormula", "Tiling", "PerfectMatchingPrinciple")),
                       (nxg[1], ("TseitinFormula", "DominatingSet")), (nxg[2], ("GraphColoringFormula", "CliqueFormula")),
                       (nxg[3], ("PebblingFormula",))):
            for fn in fns:
                before = nxsnap(h)
                try:
                    if fn in ("GraphColoringFormula", "DominatingSet", "CliqueFormula"):
                        getattr(cnfgen, fn)(h, 2)
                    else:
                        getattr(cnfgen, fn)(h)
                except Exception as e:
                    return {"generator": fn, "networkx_argument": True, "raised": type(e).__name__, "msg": str(e)[:100]}
                if nxsnap(h) != before:
                    return {"generator": fn, "networkx_graph_argument_changed": nxsnap(h)[0], "was": before[0]}
        for name, call, graphs, lists in calls:
            gs = [snap_graph(x) for x in graphs]
            ls = [list(x) for x in lists]
            try:
                call()
            except Exception as e:
                return {"generator": name, "raised": type(e).__name__, "msg": str(e)[:100]}
            if [snap_graph(x) for x in graphs] != gs:
                return {"generator": name, "graph_argument_changed": True}
            if [list(x) for x in lists] != ls:
                return {"generator": name, "list_argument_changed": [list(x) for x in lists], "was": ls}
        return None
    lits = [1, 2]
    return Case("untouched_generator", req("lin", 1, 1, enc_list(lits)),
                lambda: ok(fmt_clauses((lambda A: (A.add_linear(list(lits), ">=", 1), A)[1])(CNFLinear()))),
                oracle, cls="generators", info={})


def build(suite, info):
    if suite == "untouched_trans":
        return trans_case(common.sub_rng(info["seed"], "replay"), info["t"])
    if suite == "header":
        try:
            return H05.build(suite, info)
        except Exception:
            return H09.build(suite, info)
    raise ValueError("unknown suite " + suite)


def cases(ctx):
    tier, seed = ctx["tier"], ctx["seed"]
    rng = common.sub_rng(seed, "C19")
    out = [c for c in H05.cases(ctx) if c.suite == "header"]
    out += [c for c in H09.cases(ctx) if c.suite == "header"]
    reps = 6 if tier == "quick" else 60
    for idx in range(len(ALL_TRANS)):
        for _ in range(reps):
            out.append(trans_case(rng, idx))
    for _ in range(100 if tier == "quick" else 2000):
        out.append(builder_case(rng))
    out.append(generator_case(rng))
    return out
