"""C18 — any command line ends in a usable formula or a clean, shielded error.

Correspondence (model vs code): the token validators of clitools/cmdline.py against the Lean `validate`
(accept/reject and converted value), Python's int() against `pyInt?`.
Oracle (the property itself on the real tools, independent of the model): argv fuzzing — in-process for
volume, real processes for exit status / streams: the outcome is
  ok      : a complete formula that an independent strict reader of the chosen format accepts
            (header counts = body, only comments around it)
  help    : SystemExit(0) with a help text
  cliError: CLIError (message lines carry the comment marker when printed by main(); non-zero exit)
and never another exception (InternalBug counts as an internal failure too), never a partial formula.
"""
import contextlib
import io
import os
import shutil
import subprocess
import sys
import tempfile
from concurrent.futures import ThreadPoolExecutor

from harness import common
from harness.common import Case, req, enc_str, ok

from cnfgen.clitools import cmdline
from cnfgen.clitools.cmdline import CLIError
from cnfgen.clitools.msg import InternalBug
from cnfgen.clitools.cnfgen import cli as cli_cnfgen
from cnfgen.clitools.pbgen import cli as cli_pbgen
from cnfgen.clitools.cnfshuffle import cli as cli_shuffle
from cnfgen.clitools.kthlist2pebbling import cli as cli_k2p
import cnfgen.clitools.msg as msgmod

RULE = ("validators: tokens from a grammar of Python integer literals (signs, underscores, blanks, floats, garbage); "
        "argv fuzz: every sub-command with numbers inside / at / just beyond each bound (from the helper tables), "
        "missing and extra arguments, unknown options, malformed graph specs, unreadable / malformed / empty files; "
        "distinct = distinct argv or token")
ASSUMPTIONS = ["argparse, the OS and process exit are third party: observed, not modelled"]
VALIDATORS = {"positive_int": cmdline.positive_int, "nonnegative_int": cmdline.nonnegative_int,
              "positive_even_int": cmdline.positive_even_int}
TOKENS = ["0", "1", "2", "3", "-1", "-2", "+5", " 7", "8 ", "\t9\n", "1_0", "1__0", "_1", "1_", "0x10", "1e3", "1.0",
          "", " ", "abc", "٣", "--", "-", "+", "10", "007", "-0", "+0", "1 0", "99999999999999999999", "2_4_6"]


def build(suite, info):
    if suite == "validate":
        name, tok = info["name"], info["tok"]

        def impl():
            try:
                return ok(str(VALIDATORS[name](tok)))
            except Exception as e:  # argparse.ArgumentTypeError
                if type(e).__name__ == "ArgumentTypeError":
                    return "REJECT"
                raise
        return Case(suite, req("validate", enc_str(name), enc_str(tok)), impl, None, cls=name,
                    nontrivial=True, info=info)
    if suite == "pyint":
        tok = info["tok"]

        def impl():
            return ok(str(int(tok)))
        return Case(suite, req("pyint", enc_str(tok)), impl, None, cls="pyint", info=info)
    if suite in ("argv", "dashdash"):
        return argv_case(info)
    raise ValueError("unknown suite " + suite)


# ---------------------------------------------------------------- strict readers (independent)
def strict_dimacs(text):
    lines = text.split("\n")
    if lines and lines[-1] == "":
        lines.pop()
    n = m = None
    clauses = []
    for l in lines:
        if l.startswith("c"):
            if n is not None:
                return "comment after the problem line"
            continue
        if l.startswith("p"):
            parts = l.split()
            if n is not None or len(parts) != 4 or parts[:2] != ["p", "cnf"]:
                return "bad problem line " + l
            n, m = int(parts[2]), int(parts[3])
            continue
        if n is None:
            return "clause before problem line: " + l[:40]
        toks = l.split()
        if not toks or toks[-1] != "0":
            return "clause line without terminating 0: " + l[:40]
        lits = [int(t) for t in toks[:-1]]
        if any(x == 0 or abs(x) > n for x in lits):
            return "literal out of range in " + l[:40]
        clauses.append(lits)
    if n is None:
        return "no problem line"
    if len(clauses) != m:
        return "clause count {} != {}".format(len(clauses), m)
    return None


def strict_opb(text):
    lines = text.split("\n")
    if lines and lines[-1] == "":
        lines.pop()
    if not lines or not lines[0].startswith("* #variable= "):
        return "first line is not the OPB declaration"
    p = lines[0].split()
    n, m = int(p[2]), int(p[4])
    cnt = 0
    for l in lines[1:]:
        if l.startswith("*"):
            continue
        toks = l.split()
        if len(toks) < 2 or toks[-2] not in (">=", "="):
            return "bad constraint line " + l[:40]
        int(toks[-1])
        body = toks[:-2]
        if len(body) % 2:
            return "odd term list " + l[:40]
        for c, v in zip(body[0::2], body[1::2]):
            int(c)
            v = v.lstrip("~")
            if not v.startswith("x") or not (1 <= int(v[1:]) <= n):
                return "variable out of range " + l[:40]
        cnt += 1
    if cnt != m:
        return "constraint count {} != {}".format(cnt, m)
    return None


# ---------------------------------------------------------------- argv fuzz
TOOLS = {"cnfgen": cli_cnfgen, "pbgen": cli_pbgen, "cnfshuffle": cli_shuffle, "kthlist2pebbling": cli_k2p}


def run_inprocess(tool, argv, stdin_text=""):
    out, err = io.StringIO(), io.StringIO()
    old_in = sys.stdin
    sys.stdin = io.StringIO(stdin_text)
    msgmod._prefix = ""   # the prefix leaks across calls by design of msg_prefix; reset like a fresh process
    try:
        with contextlib.redirect_stdout(out), contextlib.redirect_stderr(err):
            try:
                TOOLS[tool]([tool] + argv, mode="output")
                kind = "ok"
            except SystemExit as e:
                kind = "help" if e.code in (0, None) else "exit:" + str(e.code)
            except CLIError:
                kind = "cliError"
            except InternalBug as e:
                kind = "InternalBug"
            except ValueError as e:
                # cnfshuffle / kthlist2pebbling report malformed input through ValueError (caught by their main())
                kind = "cliError" if tool in ("cnfshuffle", "kthlist2pebbling") else "escaped:ValueError"
            except BaseException as e:  # noqa: this is the observation
                kind = "escaped:" + type(e).__name__
    finally:
        sys.stdin = old_in
        msgmod._prefix = ""
    return kind, out.getvalue(), err.getvalue()


def argv_case(info):
    tool, argv, stdin_text = info["tool"], [str(a) for a in info["argv"]], info.get("stdin", "")

    def oracle():
        kind, out, err = run_inprocess(tool, argv, stdin_text)
        if kind.startswith("escaped") or kind == "InternalBug" or kind.startswith("exit:"):
            return {"outcome": kind, "tool": tool, "argv": argv, "stderr": err[-300:]}
        if kind == "cliError" and out.strip():
            return {"outcome": "error after partial output", "tool": tool, "argv": argv, "stdout": out[:200]}
        if kind == "ok":
            fmt = "dimacs"
            if tool == "pbgen":
                fmt = "opb"
            for i, a in enumerate(argv):
                if a in ("-of", "--output-format") and i + 1 < len(argv):
                    fmt = argv[i + 1]
                if a in ("-l", "--latex"):
                    fmt = "latex"
            if any(a in ("-o", "--output") for a in argv):
                return None
            try:
                bad = strict_dimacs(out) if fmt == "dimacs" else strict_opb(out) if fmt == "opb" else None
            except Exception as e:
                bad = "strict reader failed: " + repr(e)
            if bad:
                return {"outcome": "output not accepted by a strict reader", "why": bad, "tool": tool, "argv": argv,
                        "stdout": out[:300]}
        return None
    # model side: the correspondence for argv cases is the validator of the first numeric-looking token
    tok = next((a for a in argv if a and a.isascii() and (a[0].isdigit() or a[0] in "+-") and not a.startswith("--")), "0")
    name = "nonnegative_int"

    def impl():
        try:
            return ok(str(VALIDATORS[name](tok)))
        except Exception as e:
            if type(e).__name__ == "ArgumentTypeError":
                return "REJECT"
            raise
    return Case(info.get("suite", "argv"), req("validate", enc_str(name), enc_str(tok)), impl, oracle,
                cls=info.get("cls") or (tool + ":" + (argv[0] if argv else "")), info=info)


GRAPH_OK = {"simple": [["complete", "4"], ["grid", "2", "3"], ["gnp", "5", ".5"], ["gnm", "5", "4"], ["gnd", "6", "3"],
                       ["empty", "3"], ["torus", "3", "3"], ["gnm", "5", "4", "addedges", "2"],
                       ["gnp", "6", ".3", "plantclique", "3"]],
            "bipartite": [["complete", "3", "2"], ["glrd", "4", "5", "2"], ["glrm", "3", "3", "7"], ["glrp", "3", "3", ".5"],
                          ["regular", "4", "4", "2"], ["shift", "4", "4", "0", "1"], ["empty", "2", "2"]],
            "dag": [["pyramid", "2"], ["tree", "2"], ["path", "4"]]}
GRAPH_BAD = [["gnd", "4", "4"], ["gnd", "5", "3"], ["gnm", "3", "9"], ["complete"], ["complete", "x"], ["grid"],
             ["nosuchfile.gml"], ["kthlist", "/"], ["gnp", "5", "2"], ["glrd", "3", "2", "5"], ["regular", "3", "2", "1"],
             ["regular", "2", "1", "2"], ["glrm", "2", "2", "9"], ["pyramid", "-1"], ["tree", "x"], ["shift", "3", "3", "7"],
             ["complete", "4", "plantclique", "9"], ["complete", "4", "addedges", "99"], ["complete", "4", "save"],
             ["complete", "4", "save", "kthlist", "/nonexistent-dir/x"], ["gnd", "0", "0"], ["gnm", "0", "0"]]


ODD_NAMES = ["brace{x}", "brace{1}", "b{}", "{0}{1}", "pc%s%d", "a b", "q'uo\"te", "\u00e9\u03bb", "$HOME", "back\\slash", "c{x!r:>{w}}", "star*"]
_ODD = {}


def odd_graph_files():
    """one small graph file per graph type and odd name, in the scratch directory of this run"""
    if not _ODD:
        d = iolib_tmpdir()
        texts = {"simple": ("kthlist", "4\n1 : 2 3 0\n2 : 1 3 4 0\n3 : 1 2 0\n4 : 2 0\n"),
                 "dag": ("kthlist", "4\n1 : 0\n2 : 1 0\n3 : 1 2 0\n4 : 3 0\n"),
                 "bipartite": ("matrix", "3 4\n1 1 0 0\n0 1 1 0\n1 0 1 1\n")}
        for gt, (ext, text) in texts.items():
            _ODD[gt] = []
            for nm in ODD_NAMES:
                pth = os.path.join(d, gt + "-" + nm + "." + ext)
                with open(pth, "w") as fh:
                    fh.write(text)
                _ODD[gt].append(pth)
    return _ODD


def iolib_tmpdir():
    from harness import iolib
    return iolib.tmpdir()


def gen_argv(rng, helpers_spec, tier):
    """argv lists from the shape of each sub-command: numeric arguments at and around their bounds"""
    out = []
    nums = ["0", "1", "2", "3", "4", "5", "-1", "x", "1.5", "", "7", "inf", "-inf", "nan", "1e999", "1e1", "Infinity",
            "0x3", "3.0", "٣"]
    shapes = {
        "php": [[n1, n2] for n1 in ("0", "1", "3", "-1", "x", "inf", "1e999", "3.5", "nan", "1e1") for n2 in ("0", "2", "4", "inf")] + [["inf"], ["-inf"], ["1E400"], ["3", "2", "inf"], ["3"], [], ["3", "2", "1"],
                ["3", "2", "3"], ["3", "2", "1", "0"], ["3", "4", "2"], ["5", "4", "0"]],
        "bphp": 2, "rphp": 3, "cliquecoloring": 3, "count": 2, "parity": 1, "cpls": 3, "ram": 3, "ptn": 1,
        "vdw": [["5", "2", "2"], ["5", "1", "2"], ["0", "1", "1"], ["5", "2"], ["5"], ["5", "0", "2"], ["4", "2", "2", "2"],
                ["4", "2", "2", "0"]],
        "pitfall": [["4", "3", "2", "2", "2"], ["4", "3", "2", "1", "2"], ["2", "2", "2", "2", "2"], ["4", "3", "2", "2", "3"],
                    ["3", "3", "2", "2", "2"], ["5", "3", "2", "2", "2"], ["4", "2", "1", "2", "2"], ["4", "5", "2", "2", "2"]],
        "randkcnf": [["3", "5", "4"], ["3", "2", "1"], ["2", "3", "13"], ["2", "3", "12"], ["1", "1", "3"], ["3", "5", "4", "--plant"]],
        "randkxor": [["3", "5", "4"], ["3", "2", "1"], ["2", "3", "7"], ["2", "3", "6"], ["3", "5", "4", "--plant"]],
        "and": 2, "or": 2, "true": 0, "false": 0,
        "op": [["3"], ["0"], ["1"], ["-1"], ["3", "2"], ["4", "4"], ["5", "3"], ["4", "2", "--total"], ["--smart", "3"],
               ["--knuth2", "--knuth3", "3"], ["--plant", "3"], ["complete", "3"], ["x"]],
        "tseitin": [["4"], ["5", "3"], ["4", "4"], ["6", "3"], ["first", "complete", "4"], ["random", "grid", "2", "2"],
                    ["bogus", "complete", "4"], ["first"], ["randomodd", "gnd", "6", "3"], ["1"], ["2", "1"]],
        "subsetcard": [["4"], ["4", "3"], ["1"], ["2", "3"], ["complete", "3", "3"], ["--equal", "4"]],
    }
    for name, shp in shapes.items():
        if isinstance(shp, int):
            combos = []
            for _ in range(5 if tier == "quick" else 40):
                combos.append([rng.choice(nums) for _ in range(shp + rng.choice([0, 0, 0, 1, -1]) if shp else 0)])
            shp = combos + [[], ["-h"]]
        for a in shp:
            out.append([name] + list(a))
    # graph-taking sub-commands
    gcmd = {"kcolor": ("simple", ["3"]), "ec": ("simple", []), "domset": ("simple", ["2"]), "tiling": ("simple", []),
            "matching": ("simple", []), "kclique": ("simple", ["3"]), "kcliquebin": ("simple", ["2"]),
            "ramlb": ("simple", ["2", "2"]), "iso": ("simple", []), "peb": ("dag", []), "stone": ("dag", ["2"]),
            "php": ("bipartite", [])}
    for name, (gt, pre) in gcmd.items():
        for g in GRAPH_OK[gt]:
            out.append([name] + pre + g)
        for g in rng.sample(GRAPH_BAD, 3 if tier == "quick" else len(GRAPH_BAD)):
            out.append([name] + pre + g)
        # unreadable input / unwritable output, for every kind of graph argument (always)
        for g in (["kthlist", "/"], ["/.gml"], ["dimacs", "/nonexistent-dir/g"], GRAPH_OK[gt][0] + ["save", "kthlist", "/"],
                  GRAPH_OK[gt][0] + ["save", "/nonexistent-dir/x.kthlist"]):
            out.append([name] + pre + g)
        out.append([name] + pre)
        out.append([name] + ["x"] + GRAPH_OK[gt][0])
    # readable graph files whose names contain characters with a meaning for str.format / % / the shell (always;
    # seeded change C18-6): every graph-taking sub-command, with and without an explicit format
    odd = odd_graph_files()
    gcmd2 = dict(gcmd, op=("simple", []), tseitin=("simple", ["random"]), subsetcard=("bipartite", []))
    for name, (gt, pre) in gcmd2.items():
        paths = odd[gt] if tier != "quick" else rng.sample(odd[gt], 3)
        for pth in paths:
            out.append([name] + pre + [pth])
        out.append([name] + pre + [{"simple": "kthlist", "dag": "kthlist", "bipartite": "matrix"}[gt], odd[gt][0]])
    out.append(["iso", odd["simple"][0], "-e", odd["simple"][1]])
    out.append(["op", odd["simple"][0], "--knuth2"])
    out.append(["op", odd["simple"][2], "--knuth3"])
    out.append(["stone", "2", odd["dag"][0], "--sparse", "2"])
    out += [["iso", "complete", "3", "-e", "complete", "3"], ["iso", "complete", "3", "-e"], ["subgraph", "-G", "complete", "4", "-H", "complete", "2"],
            ["subgraph", "-G", "complete", "4"], ["stone", "2", "pyramid", "1", "--sparse", "1"], ["stone", "2", "pyramid", "1", "--sparse", "3"],
            ["stone", "0", "pyramid", "1"]]
    # global options, transformations, junk
    res = []
    for a in out:
        res.append(a)
    extra = [[], ["-h"], ["--help"], ["-V"], ["--tutorial"], ["--help-graph"], ["--help-dag"], ["--help-bipartite"],
             ["nosuch"], ["--nosuch", "php", "3"], ["-of", "bogus", "php", "3"], ["-of", "opb", "php", "3", "2"],
             ["-of", "latex", "php", "2", "1"], ["-l", "php", "2", "1"], ["-q", "-v", "php", "2"], ["--seed", "x", "php", "2"],
             ["--seed", "0", "randkcnf", "2", "3", "2"], ["--seed", "-5", "randkcnf", "2", "3", "2"], ["php", "3", "-T"],
             ["php", "3", "-T", "nosuch"], ["php", "3", "-T", "xor"], ["php", "3", "-T", "xor", "0"], ["php", "3", "-T", "xor", "2", "3"],
             ["php", "3", "2", "-T", "lift", "2", "-T", "flip"], ["php", "2", "1", "-T", "exact", "2", "5"],
             ["php", "2", "1", "-T", "atleast", "2", "0"], ["php", "3", "2", "-T", "xorcomp", "3"],
             ["php", "3", "2", "-T", "xorcomp", "3", "2"], ["php", "3", "2", "-T", "majcomp", "9", "2"],
             ["php", "3", "2", "-T", "xorcomp", "glrd", "6", "3", "2"], ["php", "3", "2", "-T", "xorcomp", "glrd", "5", "3", "2"],
             ["php", "3", "2", "-T", "shuffle", "-p", "-v", "-c"], ["-o"], ["-o", "/nonexistent-dir/x", "php", "2"],
             ["dimacs", "/nonexistent-file.cnf"], ["-T", "xor", "2"], ["--varnames", "php", "2", "1"], ["-S", "7", "op", "3"]]
    res += extra
    return res


def cases(ctx):
    tier, seed = ctx["tier"], ctx["seed"]
    rng = common.sub_rng(seed, "C18")
    out = []
    # validators
    toks = list(TOKENS)
    for _ in range(150 if tier == "quick" else 3000):
        body = "".join(rng.choice("0123456789_+- x.") for _ in range(rng.randint(0, 5)))
        toks.append(body)
    for t in toks:
        try:
            t.encode("ascii")
        except UnicodeEncodeError:
            continue   # the model of int() is ASCII-only (stated in DESIGN §9)
        for name in VALIDATORS:
            out.append(build("validate", {"name": name, "tok": t}))
        out.append(build("pyint", {"tok": t}))
    # argv fuzz, in process
    for argv in gen_argv(rng, None, tier):
        for tool in ("cnfgen", "pbgen"):
            if tool == "pbgen" and "-T" in argv:
                continue
            if tool == "pbgen" and tier == "quick" and rng.random() > 0.12:
                continue
            out.append(argv_case({"tool": tool, "argv": argv}))
    # mutational fuzz: valid command lines with one or two random edits (token deleted / duplicated / inserted /
    # two tokens swapped); every outcome must still be one of the three clean ones
    vocab = ["-T", "-q", "-v", "--seed", "0", "-1", "x", "php", "xor", "2", "--varnames", "-of", "opb", "latex", "-o", "-",
             "-e", "complete", "3", "save", "gnp", ".5", "--plant", "-T", "-T"]
    seeds_argv = [["php", "3", "2", "-T", "xor", "2"], ["php", "3", "2", "-T", "xor", "2", "-T", "flip"],
                  ["kcolor", "3", "gnp", "5", ".5", "-T", "shuffle"], ["iso", "complete", "3", "-e", "complete", "3"],
                  ["--seed", "3", "randkcnf", "3", "5", "4", "-T", "lift", "2"], ["op", "4", "--total", "-T", "or", "2"],
                  ["peb", "pyramid", "2", "-T", "xorcomp", "3", "2"], ["-of", "opb", "--varnames", "count", "4", "2"],
                  ["subgraph", "-G", "complete", "4", "-H", "complete", "2"], ["stone", "2", "path", "3", "--sparse", "1"]]
    for _ in range(50 if tier == "quick" else 2500):
        a = list(rng.choice(seeds_argv))
        for _e in range(rng.choice([1, 1, 2])):
            k = rng.randrange(4)
            i = rng.randrange(len(a)) if a else 0
            if k == 0 and a:
                del a[i]
            elif k == 1 and a:
                a.insert(i, a[i])
            elif k == 2:
                a.insert(i, rng.choice(vocab))
            elif len(a) > 1:
                j = rng.randrange(len(a))
                a[i], a[j] = a[j], a[i]
        if "-o" in a or "--output" in a:
            continue
        out.append(argv_case({"tool": "cnfgen", "argv": a}))
    dimacs = "p cnf 3 2\n1 -2 0\n2 3 0\n"
    for argv, txt in ([[], dimacs], [["-q"], dimacs], [["-p", "-v", "-c"], dimacs], [[], ""], [[], "p cnf 1 1\n2 0\n"],
                      [[], "garbage"], [["--seed", "3"], dimacs], [["-i", "/nonexistent"], ""], [["--bogus"], dimacs]):
        out.append(argv_case({"tool": "cnfshuffle", "argv": argv, "stdin": txt}))
    kth = "3\n1 : 0\n2 : 0\n3 : 1 2 0\n"
    for argv, txt in ([[], kth], [["-q"], kth], [["xor", "2"], kth], [[], ""], [[], "2\n1 : 2 0\n2 : 0\n"], [[], "x"],
                      [["nosuch"], kth], [["lift", "0"], kth]):
        out.append(argv_case({"tool": "kthlist2pebbling", "argv": argv, "stdin": txt}))
    # finding C18-F1 (reported by the argparse model of C17): under CPython 3.12.1 `_get_values` drops a `--` from the
    # strings of EVERY action, so an argument whose only string is a second `--` receives the empty LIST; the
    # generator raises TypeError, which cli() does not shield.  Always exercised; recorded as a known finding.
    for tool in ("cnfgen", "pbgen"):
        for a in (["bphp", "--", "3", "--"], ["cpls", "--", "2", "--", "2"], ["stone", "2", "pyramid", "2", "--sparse=--"],
                  ["php", "--", "3"], ["bphp", "3", "--", "2"]):
            out.append(argv_case({"tool": tool, "argv": a, "suite": "dashdash", "cls": "dashdash:second-double-dash"}))
    # real processes: exit status and error stream (the part a model cannot exhibit)
    out.append(process_case(rng, tier))
    return out


def process_case(rng, tier):
    cmds = [(["cnfgen", "php", "3", "2"], 0), (["cnfgen", "php", "x"], 255), (["cnfgen", "-of", "opb", "php", "x"], 255),
            (["cnfgen", "kcolor", "3", "gnd", "4", "4"], 255), (["cnfgen", "tseitin", "first", "kthlist", "/"], 255),
            (["cnfgen", "pitfall", "2", "2", "2", "2", "2"], 255), (["cnfgen", "vdw", "5", "1", "3"], 0),
            (["cnfgen", "php", "glrm", "3", "3", "7"], 0), (["pbgen", "parity", "4"], 0), (["cnfgen", "nosuch"], 255),
            (["cnfgen", "-h"], 0), (["cnfgen", "php", "3", "2", "-T", "nosuch"], 255), (["pbgen", "php"], 255),
            (["cnfgen", "-of", "latex", "op", "x"], 255), (["cnfgen", "peb", "kthlist", "/"], 255),
            (["cnfgen", "php", "kthlist", "/"], 255), (["cnfgen", "peb", "pyramid", "2", "save", "kthlist", "/"], 255)]
    dim = b"p cnf 3 2\n1 -2 0\n2 3 0\n"
    # the `dimacs` sub-command reading a PIPE (not seekable), for every output format, alone and transformed
    piped = [(["cnfgen"] + fmt + ["dimacs"] + t, dim) for fmt in ([], ["-of", "opb"], ["-of", "latex"], ["-l"], ["-q"])
             for t in ([], ["-T", "xor", "2"])]
    piped += [(["pbgen", "dimacs"], dim), (["pbgen", "-of", "latex", "dimacs"], dim)]
    kth = b"3\n1 : 0\n2 : 0\n3 : 1 2 0\n"
    # the two small tools, as processes: (argv, stdin, expected exit status)
    small = [(["cnfshuffle"], dim, 0), (["cnfshuffle", "-q", "--seed", "3"], dim, 0), (["cnfshuffle"], b"garbage", 255),
             (["cnfshuffle"], b"", 255), (["cnfshuffle"], b"p cnf 1 1\n2 0\n", 255), (["cnfshuffle", "-o", "/nonexistent-dir/x"], dim, 255),
             (["cnfshuffle", "--bogus"], dim, 255), (["cnfshuffle", "-i", "/nonexistent-file"], b"", 255),
             (["kthlist2pebbling"], kth, 0), (["kthlist2pebbling", "-q", "xor", "2"], kth, 0), (["kthlist2pebbling"], b"x", 255),
             (["kthlist2pebbling"], b"", 255), (["kthlist2pebbling", "nosuch"], kth, 255), (["kthlist2pebbling", "lift", "0"], kth, 255),
             (["kthlist2pebbling"], b"2\n1 : 2 0\n2 : 0\n", 255), (["kthlist2pebbling", "-i", "/"], b"", 255)]

    def run(c, data=None):
        argv, want = c
        mod = {"cnfgen": "cnfgen.clitools.cnfgen", "pbgen": "cnfgen.clitools.pbgen",
               "cnfshuffle": "cnfgen.clitools.cnfshuffle", "kthlist2pebbling": "cnfgen.clitools.kthlist2pebbling"}[argv[0]]
        env = dict(os.environ, PYTHONPATH=common.REPO, PYTHONWARNINGS="ignore")
        if data is None:
            p = subprocess.run([sys.executable, "-m", mod] + argv[1:], stdin=subprocess.DEVNULL, stdout=subprocess.PIPE,
                               stderr=subprocess.PIPE, env=env, timeout=120)
        else:
            p = subprocess.run([sys.executable, "-m", mod] + argv[1:], input=data, stdout=subprocess.PIPE,
                               stderr=subprocess.PIPE, env=env, timeout=120)
        return argv, want, p.returncode, p.stdout.decode(errors="replace"), p.stderr.decode(errors="replace")

    def oracle():
        with ThreadPoolExecutor(8) as ex:
            results = list(ex.map(run, cmds))
            piped_results = list(ex.map(lambda a: run((a[0], 0), a[1]), piped))
            small_results = list(ex.map(lambda a: run((a[0], a[2]), a[1]), small))
        for argv, want, rc, out, err in small_results:
            if "Traceback" in err:
                return {"process": argv, "traceback": err[-400:]}
            if rc != want:
                return {"process": argv, "exit_status": rc, "expected": want, "stderr": err[-300:]}
            if rc == 0:
                bad = strict_dimacs(out)
                if bad:
                    return {"process": argv, "why": bad, "stdout": out[:200]}
            elif out.strip() or not err.strip():
                return {"process": argv, "why": "error without a message, or with output on stdout", "stdout": out[:100], "stderr": err[:100]}
        for argv, want, rc, out, err in piped_results:
            if "Traceback" in err:
                return {"process": argv, "stdin": "piped DIMACS", "traceback": err[-400:]}
            if rc != 0 or not out.strip():
                return {"process": argv, "stdin": "piped DIMACS", "exit_status": rc, "stdout_empty": not out.strip(),
                        "why": "a legal request ended without a formula", "stderr": err[-300:]}
            if "latex" not in argv and "-l" not in argv:
                bad = strict_opb(out) if ("opb" in argv or argv[0] == "pbgen") else strict_dimacs(out)
                if bad:
                    return {"process": argv, "stdin": "piped DIMACS", "why": bad, "stdout": out[:200]}
        for argv, want, rc, out, err in results:
            if "Traceback" in err:
                return {"process": argv, "traceback": err[-400:]}
            if rc != want:
                return {"process": argv, "exit_status": rc, "expected": want, "stderr": err[-300:]}
            if rc != 0:
                if out.strip():
                    return {"process": argv, "why": "error with output on stdout", "stdout": out[:200]}
                marker = "c "
                lines = [l for l in err.split("\n") if l]
                if not lines or not all(l.startswith(("c", "*", "%")) for l in lines):
                    return {"process": argv, "why": "error message lines are not shielded by a comment marker", "stderr": err[:300]}
        return None
    return Case("process", req("validate", enc_str("positive_int"), enc_str("1")), lambda: ok("1"), oracle,
                cls="process", info={"n": len(cmds)})
