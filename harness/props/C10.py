"""C10 (manager part) — a newly created variable or variable group never reuses an identifier
that an earlier clause already mentioned.

Correspondence: the same manager histories as C11 (`vg_hist`): after each operation the model and
the real formula agree on (number of variables, largest mentioned variable, outcome / new range).
Oracle (independent of the model): `add_clause` and `_add_variable_group` of the formula under
test are wrapped (monkeypatch on the instance, no source change); every stored clause adds to the
set of mentioned variables, every group creation is checked to be disjoint from it; the number
of variables never decreases.  Histories in which the caller inserts an out-of-range clause with
check=False are outside the contract (the API documents that it trusts the caller); they are still
compared with the model, which reproduces the reuse (see `C10.unguarded_history_reuses`).
"""
from harness import common
from harness.props import C11

RULE = ("random manager histories of 1..14 operations: group creation of every kind (legal and illegal), "
        "add_clause with check True/False (empty clauses, 0 literals, literals beyond the variable count), "
        "update_variable_number (incl. negative); distinct = distinct request line; non-trivial = more than one operation")
ASSUMPTIONS = ["check=False insertions are within the declared number of variables (the caller's documented obligation); "
               "histories violating it are compared with the model but not judged by the oracle"]
NOTES = ["D32 (fixed in /repo 11d5d7d): add_clause(check=True) used to store the clause before validating it; a clause "
         "rejected for containing 0 stayed in the formula and a later group reused its variables; replay kept in the corpus"]


def build(suite, info):
    if suite == "hist":
        return C11.build_hist(info, "C10")
    raise ValueError("unknown suite " + suite)


def cases(ctx):
    tier, seed = ctx["tier"], ctx["seed"]
    rng = common.sub_rng(seed, "C10", "hist")
    infos = [dict(c) for c in C11.CORPUS_HIST]
    reps = 500 if tier == "quick" else 8000
    for i in range(reps):
        infos.append(C11.gen_hist(rng, clean=(i % 4 != 0)))
    for info in infos:
        yield C11.build_hist(info, "C10")


def search(ctx, case):
    return C11.search(dict(ctx, prop="C10"), case)


def search_global(ctx):
    for c in cases(dict(ctx, tier="quick")):
        common.run_impl(c)
        r = common.run_oracle(c)
        if r is not None and not c.cls.startswith("D"):
            return {"suite": c.suite, "info": c.info, "failure": r}
    return None
