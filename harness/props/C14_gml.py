"""C14 (GML) — the gml branch of writeGraph / readGraph, networkx's GML code included.

Correspondence (model `lean/CnfgenModel/IO/Gml.lean` vs the real code, networkx 3.6.1 in /venv)
  gml_w    text written by `writeGraph(G, f, ty, 'gml')` = the model's text, byte for byte (every type, graph names
           over the whole alphabet: quotes, ampersands, control characters, line breaks, non-ASCII)
  gml_esc  networkx's `escape` and `unescape(escape(s))` = the model's
  gml_p    `networkx.read_gml(<ascii lines>, label='id')` as cnfgen calls it: exception class (raw: NetworkXError,
           TypeError, IndexError, ValueError, UnicodeEncodeError, AttributeError) or the parsed graph (directed flag,
           node ids in order, `bipartite` attribute classes, `G.edges()` in order, graph name) = the model's `parseGml`
  gml_r    `readGraph(f, ty, 'gml')` (io.StringIO, or a real text-mode file: universal newlines): outcome class and
           the resulting cnfgen object (every view) and its name = the model's `readGml`
  gml_rt   read(write(G)) through the model = through the real code
  dot_name (oracle only, pydot is third party) a bipartite graph with an odd name written in dot reads back
The model is total and answers `OK U` ("unmodelled") outside its subset (float values that matter, multigraph, named
character entities in strings that matter, nesting deeper than 100, ...).  There the harness does not compare — but
texts produced by the structured generator WITHOUT such features must be modelled (an `OK U` there is a disagreement),
and the share of unmodelled texts is in the evidence (class suffix `:U`).

Oracle (independent of the model): the real reader raises ValueError or returns a graph; for texts in plain GML form
(an independent small reference reader written from the GML grammar: one `graph [ ... ]`, integer ids, `source`/`target`
of declared nodes) the graph must be the one the text describes (ids in increasing order = vertices 1..n, edges, the
two sides in file order for bipartite, `dag` only with increasing edges); write-then-read preserves the graph (and the
name of a bipartite graph).
"""
import io
import re

import networkx

from harness import common
from harness.common import Case, req, enc_str, enc_pairs, ok
from harness.props import C14 as base

from cnfgen.graphs import readGraph, writeGraph, Graph, DirectedGraph, BipartiteGraph

TY = base.TY
RULE = ("gml: graphs of the four types x shapes x names over the whole alphabet (written text, round trip); texts: "
        "writer outputs, structured random GML documents (random trees of keys/values rendered with random blanks, "
        "line breaks, comments, multi-line strings, every token kind, duplicate / missing / clashing keys, ids as "
        "ints, strings, references, reals), token- and character-level mutations of both, a hand-written corpus; "
        "read through io.StringIO and through text-mode files (\\r\\n, \\r); distinct = distinct request line")
ASSUMPTIONS = [
    "gml: graph names are str (a non-str name makes networkx's writer raise / write a number; not modelled)",
    "gml: texts contain no lone surrogate code points (not representable in the model's strings)",
]
TRUSTED_EXTRA = [
    "gml: networkx.readwrite.gml (generate_gml / write_gml / escape / read_gml / parse_gml_lines / unescape), "
    "Graph/DiGraph insertion order, EdgeView order, relabel_nodes / convert_node_labels_to_integers are MODELLED "
    "(lean/CnfgenModel/IO/Gml.lean) and compared with the installed networkx 3.6.1 on every run (suites gml_*); "
    "outside the modelled subset (answer `OK U`) and for all of dot/pydot the code is third party",
]
NOTES = []

# model answers, filled in one batch by cases(); build() falls back to a single driver call
_MODEL = {}


def model_answer(r):
    if r not in _MODEL:
        _MODEL[r] = common.run_driver([r])[0]
    return _MODEL[r]


def name_enc(nm):
    if isinstance(nm, str):
        return "s " + " ".join(str(x) for x in enc_str(nm))
    return "o"


def text_enc(t):
    return " ".join(str(x) for x in enc_str(t))


def encodable(s):
    return all(not (0xD800 <= ord(c) <= 0xDFFF) for c in s)


# ---------------------------------------------------------------- the real code
def nx_lines(text, u):
    f = io.StringIO(text, newline=None) if u else io.StringIO(text)
    return (line.encode("ascii") for line in f)


def nx_parse_answer(text, u):
    G = networkx.read_gml(nx_lines(text, u), label="id")
    if G.is_multigraph():
        return "OK multigraph"
    nodes = list(G.nodes())
    idx = {}
    for i, x in enumerate(nodes):
        idx[x] = i
    out = ["P", "1" if G.is_directed() else "0", str(len(nodes))]
    for x in nodes:
        if isinstance(x, int) and not isinstance(x, bool):
            out.append("i {}".format(x))
        elif isinstance(x, str):
            out.append("s " + text_enc(x))
        else:
            out.append("?")
    out.append("C")
    for x in nodes:
        d = G.nodes[x]
        if "bipartite" not in d:
            out.append("2")
            continue
        c = d["bipartite"]
        if isinstance(c, float):
            out.append("3")
        elif c in ["0", 0, "1", 1]:
            out.append(str(int(c)))
        else:
            out.append("2")
    out += ["E", base.fmt_pairs((idx[a], idx[b]) for a, b in G.edges()), "N", name_enc(G.name)]
    return ok(" ".join(out))


def real_read(text, ty, u):
    if u:
        return base.read_text(text, ty, "gml", via="file")
    return readGraph(io.StringIO(text), ty, "gml")


def read_answer(text, ty, u):
    G = real_read(text, ty, u)
    return ok(base.view(G) + " N " + name_enc(G.name))


# ---------------------------------------------------------------- independent reference reader (plain GML only)
REF_TOKEN = re.compile(r'\s+|#[^\n]*|([A-Za-z][A-Za-z0-9]*)|([+-]?[0-9]+)(?![0-9.A-Za-z_])|"([^"&\n]*)"|(\[)|(\])')


def ref_tree(text):
    """nested [(key, value)] of a text in plain GML (keys, integers, one-line strings without references, lists);
    None if the text is not of that form"""
    if not all(ord(c) < 128 for c in text):
        return None
    if any(ln.count('"') % 2 for ln in text.split("\n")):
        # networkx joins lines from one with a single quote to the next line ENDING in a quote (even when the quote
        # sits in a comment): modelled, but outside what this reference calls plain GML
        return None
    pos = 0
    toks = []
    while pos < len(text):
        m = REF_TOKEN.match(text, pos)
        if m is None or m.end() == pos:
            return None
        if m.group(1) is not None:
            toks.append(("k", m.group(1)))
        elif m.group(2) is not None:
            toks.append(("i", int(m.group(2))))
        elif m.group(3) is not None:
            toks.append(("s", m.group(3)))
        elif m.group(4) is not None:
            toks.append(("[", None))
        elif m.group(5) is not None:
            toks.append(("]", None))
        pos = m.end()
    it = iter(toks + [("eof", None)])
    cur = [next(it)]
    depth = [0, 0]

    def kv():
        items = []
        while cur[0][0] == "k":
            key = cur[0][1]
            cur[0] = next(it)
            kind, val = cur[0]
            if kind in ("i", "s"):
                items.append((key, (kind, val)))
                cur[0] = next(it)
            elif kind == "[":
                depth[0] += 1
                depth[1] = max(depth)
                if depth[0] > 60:
                    raise ValueError("deep")
                cur[0] = next(it)
                sub = kv()
                if cur[0][0] != "]":
                    raise ValueError("syntax")
                cur[0] = next(it)
                depth[0] -= 1
                items.append((key, ("l", sub)))
            else:
                raise ValueError("syntax")
        return items
    try:
        top = kv()
    except ValueError:
        return None
    if cur[0][0] != "eof":
        return None
    return top


def ref_graph(text, ty):
    """('graph', canon) / ('invalid', why) / ('unknown', why)"""
    top = ref_tree(text)
    if top is None:
        return ("unknown", "not plain GML")
    graphs = [v for k, v in top if k == "graph"]
    if len(graphs) != 1 or graphs[0][0] != "l":
        return ("unknown", "not exactly one graph [ ]")
    g = graphs[0][1]
    keys = [k for k, _ in g]
    if "multigraph" in keys or keys.count("directed") > 1 or keys.count("name") > 1:
        return ("unknown", "multigraph / repeated key")
    directed = False
    for k, v in g:
        if k == "directed":
            if v[0] != "i" or v[1] not in (0, 1):
                return ("unknown", "directed value")
            directed = v[1] == 1
    ids, sides = [], []
    for k, v in g:
        if k != "node":
            continue
        if v[0] != "l":
            return ("unknown", "node value")
        nk = [a for a, _ in v[1]]
        if nk.count("id") != 1 or any(a in ("self", "node_for_adding") for a in nk) or nk.count("bipartite") > 1:
            return ("unknown", "node keys")
        d = dict(v[1])
        if d["id"][0] != "i":
            return ("unknown", "non-integer id")
        if d["id"][1] in ids:
            return ("invalid", "duplicate node id")
        ids.append(d["id"][1])
        b = d.get("bipartite")
        if b is not None and b[0] != "i":
            return ("unknown", "side given as a string")
        sides.append(None if b is None else b[1] if b[1] in (0, 1) else "?")
    edges = []
    for k, v in g:
        if k != "edge":
            continue
        if v[0] != "l":
            return ("unknown", "edge value")
        ek = [a for a, _ in v[1]]
        if ek.count("source") != 1 or ek.count("target") != 1 or any(a in ("self", "u_of_edge", "v_of_edge") for a in ek):
            return ("unknown", "edge keys")
        d = dict(v[1])
        if d["source"][0] != "i" or d["target"][0] != "i":
            return ("unknown", "non-integer end")
        s, t = d["source"][1], d["target"][1]
        if s not in ids or t not in ids:
            return ("invalid", "edge between undeclared nodes")
        if (s, t) in edges or (not directed and (t, s) in edges):
            return ("invalid", "duplicate edge")
        edges.append((s, t))
    if ty == "bipartite":
        if any(x is None or x == "?" for x in sides):
            return ("invalid", "node without a side")
        left = [x for x, c in zip(ids, sides) if c == 0]
        right = [x for x, c in zip(ids, sides) if c == 1]
        es = set()
        for s, t in edges:
            if s in left and t in right:
                es.add((left.index(s) + 1, right.index(t) + 1))
            elif t in left and s in right:
                es.add((left.index(t) + 1, right.index(s) + 1))
            else:
                return ("invalid", "edge inside a side")
        return ("graph", ["bipartite", len(left), len(right), sorted(list(e) for e in es)])
    rank = {x: i + 1 for i, x in enumerate(sorted(ids))}
    if ty == "simple":
        if any(s == t for s, t in edges):
            return ("invalid", "self loop")
        es = {(min(rank[s], rank[t]), max(rank[s], rank[t])) for s, t in edges}
        return ("graph", ["simple", len(ids), sorted(list(e) for e in es)])
    if not directed:
        return ("invalid", "undirected graph for a directed type")
    es = sorted([rank[s], rank[t]] for s, t in edges)
    if ty == "dag" and any(a >= b for a, b in es):
        return ("invalid", "backward edge in a dag")
    return ("graph", [ty, len(ids), es] + ([True] if ty == "dag" else []))


def apriori_class(text):
    """input classes of the two former defects D43 / D44 (fixed in 3609e15), decided on the text alone"""
    depth = best = 0
    for c in text:
        if c == "[":
            depth += 1
            best = max(best, depth)
        elif c == "]":
            depth = max(0, depth - 1)
    if best > 150:
        return "gml:deep-nesting"
    if re.search(r'(?<![A-Za-z0-9_"])(graph|node|edge)\s+(?![\s\[])', text) or re.search(r'(?<![A-Za-z0-9_"])(graph|node|edge)\s*("|$)', text):
        return "gml:non-dict-value"
    return None


def read_oracle(text, ty, u):
    def oracle():
        try:
            G = real_read(text, ty, u)
        except ValueError:
            return None
        except RecursionError as e:
            return {"reader": "raised RecursionError", "text": text[:200]}
        except Exception as e:
            return {"reader": "raised " + type(e).__name__, "msg": str(e)[:120], "text": text[:400]}
        if u:
            return None
        kind, val = ref_graph(text, ty)
        if kind == "unknown":
            return None
        got = base._deep(base.canon(G, ty))
        if kind == "invalid":
            return {"reader": "accepted a malformed file", "why_malformed": val, "graph": got, "text": text[:400]}
        if base._deep(val) != got:
            return {"reader": "graph inconsistent with the text", "text_says": base._deep(val), "graph": got, "text": text[:400]}
        return None
    return oracle


def rt_oracle(ty, g, name):
    def oracle():
        G = base.make_graph(ty, g)
        before = base.canon(G, ty)
        text = base.write_text(G, ty, "gml", name)
        try:
            H = readGraph(io.StringIO(text), ty, "gml")
        except Exception as e:
            return {"roundtrip": "reader raised " + type(e).__name__, "msg": str(e)[:120], "text": text[:600]}
        after = base.canon(H, ty)
        if before != after:
            return {"roundtrip": "graph changed", "written": before, "read_back": after, "text": text[:600]}
        # (networkx reads the strings "()" and "[]" back as an empty tuple / list: not a str any more)
        if ty == "bipartite" and name is not None and H.name != name and name not in ("()", "[]"):
            return {"roundtrip": "name changed", "written": name, "read_back": H.name}
        return None
    return oracle


# ---------------------------------------------------------------- build
def build(suite, info):
    if suite == "gml_w":
        ty, g, name = info["ty"], info["g"], info["name"]

        def impl():
            return ok(text_enc(base.write_text(base.make_graph(ty, g), ty, "gml", name)))
        r = req("gml_w", TY[ty], enc_str(name), base.enc_g(ty, g))
        return Case(suite, r, impl, rt_oracle(ty, g, name), cls="gml:{}:{}".format(ty, info.get("shape", "")),
                    nontrivial=len(g["edges"]) > 0, info=info)
    if suite == "gml_rt":
        ty, g, name, u = info["ty"], info["g"], info["name"], info.get("u", 0)

        def impl():
            text = base.write_text(base.make_graph(ty, g), ty, "gml", name)
            return read_answer(text, ty, u)
        r = req("gml_rt", TY[ty], u, enc_str(name), base.enc_g(ty, g))
        return Case(suite, r, impl, rt_oracle(ty, g, name), cls="gml:{}:{}".format(ty, info.get("shape", "")),
                    nontrivial=len(g["edges"]) > 0, info=info)
    if suite == "gml_esc":
        s = info["s"]

        def impl():
            from networkx.readwrite.gml import escape, unescape
            e = escape(s)
            return ok(text_enc(e) + " ; " + text_enc(unescape(e)))

        def oracle():
            from networkx.readwrite.gml import escape, unescape
            e = escape(s)
            if unescape(e) != s or not all(32 <= ord(c) < 127 and c != '"' for c in e):
                return {"escape": "not inverted / not printable ASCII", "s": s, "escaped": e}
            return None
        return Case(suite, req("gml_esc", enc_str(s)), impl, oracle, cls="gml:esc", nontrivial=len(s) > 0, info=info)
    if suite in ("gml_p", "gml_r"):
        text, u = info["text"], info.get("u", 0)
        ty = info.get("ty", "simple")
        r = req("gml_p", u, enc_str(text)) if suite == "gml_p" else req("gml_r", TY[ty], u, enc_str(text))
        must = bool(info.get("must"))
        unm = model_answer(r) == "OK U"

        def impl():
            if unm and not must:
                # outside the modelled subset: not compared (the real code still runs: the second pass and the
                # oracle see it)
                try:
                    nx_parse_answer(text, u) if suite == "gml_p" else read_answer(text, ty, u)
                except BaseException:
                    pass
                return "OK U"
            return nx_parse_answer(text, u) if suite == "gml_p" else read_answer(text, ty, u)
        cls = apriori_class(text) or ("gml:" + info.get("kind", "") + (":U" if unm else ""))
        return Case(suite, r, impl, read_oracle(text, ty, u) if suite == "gml_r" else None, cls=cls,
                    nontrivial=any(c.isdigit() for c in text), info=info)
    if suite == "dot_name":
        # oracle only (pydot is third party): a bipartite graph with an odd NAME written in dot must read back
        name, g = info["name"], info["g"]

        def impl():
            return ok("-")

        def oracle():
            G = base.make_graph("bipartite", g)
            before = base.canon(G, "bipartite")
            text = base.write_text(G, "bipartite", "dot", name)
            try:
                H = base.quiet(readGraph, io.StringIO(text), "bipartite", "dot")
            except Exception as e:
                return {"roundtrip": "reader raised " + type(e).__name__, "msg": str(e)[:120], "name": name, "text": text[:300]}
            if base.canon(H, "bipartite") != before:
                return {"roundtrip": "graph changed", "name": name, "text": text[:300]}
            return None
        cls = "dot:name-quote" if ('"' in name or name.endswith("\\")) else "dot:name"   # D45 (fixed) lived in the first class
        return Case(suite, "ack3p", impl, oracle, cls=cls, nontrivial=True, info=info)
    raise ValueError("unknown suite " + suite)


# ---------------------------------------------------------------- generators
NAMES = ["G", "", "a graph with spaces", 'q"uo"te', "amp&ersand", "&#49;", "&amp;", "&#x41;", "two\nlines", "tab\there", "cr\rlf\r\n",
         "\x00\x01\x1f\x7f", "café", "中文", "\U0001f600", "~}|{", "a;b#c", "[ ]", "]", "graph [", "()", "[]",
         "_networkx_list_start", " ", "\"", "&", "&&;;", "x" * 70, "퟿", "\U0010ffff", "name \"n\"", "1", "-1", "1.5"]
ALPHABET = list(" \t\n\r\x0b\x0c\x1c\x00\x7f\"&#;[]()_-+.09azAZ~éĀ€퟿\U0001f600\U0010ffff")


def rand_name(rng):
    if rng.random() < .5:
        return rng.choice(NAMES)
    return "".join(rng.choice(ALPHABET) for _ in range(rng.randint(0, 12)))


WS = [" ", " ", " ", "  ", "\n", "\n", "\n  ", "\t", " \n", "\r\n", "\x0b", "\x0c", "\x1c", " \x1f "]
INTS = ["0", "1", "2", "3", "5", "9", "10", "11", "+1", "-1", "-0", "007", "01", "2147483648", "-2", "4", "6", "7"]
REALS = ["1.0", "0.0", ".5", "5.", "1.5E3", "+INF", "-INF", "1.e2", "NAN", "INF", "2.50"]
STRS = ['""', '"a"', '"b"', '"1"', '"0"', '"01"', '"&#49;"', '"&#x31;"', '"&#48;"', '"a b"', '"[ ]"', '"# no"', '"x]"',
        '"_networkx_list_start"', '"&#1114112;"', '"&#x110000;"', '"&;"', '"&#;"', '"&#x;"', '"&#12"', '"&#65;&#66;"', '"10"', '"9"', '"B"']
RISKY_STRS = ['"&amp;"', '"&foo;"', '"&quot;x"', '"&#55296;"', '"()"', '"&#xD800;"', '"&1;"']
KEYS = ["a", "b", "x1", "label", "weight", "graphics", "self", "node_for_adding", "u_of_edge", "v_of_edge", "key", "name", "id",
        "source", "target", "bipartite", "directed", "multigraph", "node", "edge", "graph", "A_b", "INF", "NAN", "Creator"]


class Gen:
    """random GML documents; `risky` is set when a feature outside the modelled subset is emitted"""

    def __init__(self, rng, clean=False):
        self.rng = rng
        self.risky = False
        self.clean = clean

    def ws(self):
        r = self.rng
        s = r.choice(WS)
        if r.random() < .04:
            # (a lone quote in a comment line can open a multi-line string: wanted)
            s += "# comment ] [ \" x\n" if r.random() < .3 else "# c ] [\n"
        return s

    def value(self, depth=0, allow=("i", "s", "r", "l", "k")):
        r = self.rng
        k = r.choice(allow)
        if k == "i":
            return r.choice(INTS)
        if k == "s":
            if r.random() < .08:
                self.risky = True
                return r.choice(RISKY_STRS)
            return r.choice(STRS)
        if k == "r":
            self.risky = True
            return r.choice(REALS)
        if k == "k":
            return r.choice(["abc", "x", "INF", "NAN", "]", "graph"])
        if depth > 3:
            return "[ ]"
        return "[" + self.ws() + self.items(r.randint(0, 3), depth + 1) + "]"

    def items(self, n, depth):
        out = ""
        for _ in range(n):
            out += self.rng.choice(KEYS[:12]) + self.ws() + self.value(depth, ("i", "i", "s", "l", "r") if self.rng.random() < .15 else ("i", "i", "s", "l")) + self.ws()
        return out

    def node_id(self, pool):
        r = self.rng
        x = r.random()
        if x < .72:
            return str(r.choice(pool))
        if x < .80:
            return r.choice(INTS)
        if x < .90:
            return r.choice(STRS)
        if x < .93:
            self.risky = True
            return r.choice(REALS + RISKY_STRS)
        if x < .96:
            return r.choice(["abc", "]", "INF", "x_1"])
        return "[ ]" if r.random() < .5 else '"[]"'

    def node(self, pool, bip):
        r = self.rng
        parts = []
        if r.random() < .96:
            parts.append("id" + self.ws() + self.node_id(pool))
        if r.random() < .03:
            parts.append("id" + self.ws() + self.node_id(pool))
        if r.random() < .5:
            parts.append("label" + self.ws() + r.choice(STRS + ["5", "abc"]))
        if bip or r.random() < .1:
            x = r.random()
            if x < .85:
                parts.append("bipartite" + self.ws() + r.choice(["0", "1", "0", "1", '"0"', '"1"']))
            elif x < .97:
                parts.append("bipartite" + self.ws() + r.choice(["2", "-1", '"x"', "[ ]", '"&#48;"', '"&#49;"', "01", "+1", '""', '"()"']))
                if r.random() < .3:
                    parts.append("bipartite" + self.ws() + r.choice(["0", "1"]))
            else:
                self.risky = True
                parts.append("bipartite" + self.ws() + r.choice(["0.0", "1.0", '"&amp;"', "NAN"]))
        if r.random() < .08:
            parts.append(r.choice(["self", "node_for_adding", "graphics", "a", "u_of_edge"]) + self.ws() + self.value(2, ("i", "s", "l")))
        r.shuffle(parts)
        return "node" + self.ws() + "[" + self.ws() + "".join(p + self.ws() for p in parts) + "]"

    def edge(self, pool):
        r = self.rng
        parts = []
        if r.random() < .97:
            parts.append("source" + self.ws() + self.node_id(pool))
        if r.random() < .97:
            parts.append("target" + self.ws() + self.node_id(pool))
        if r.random() < .02:
            parts.append("source" + self.ws() + self.node_id(pool))
        if r.random() < .08:
            parts.append(r.choice(["self", "u_of_edge", "v_of_edge", "weight", "key", "node_for_adding"]) + self.ws() + self.value(2, ("i", "s", "l")))
        r.shuffle(parts)
        return "edge" + self.ws() + "[" + self.ws() + "".join(p + self.ws() for p in parts) + "]"

    def clean_items(self, ty):
        """a well-formed graph body: distinct ids (integers in any order, strings, or a mix), distinct edges
        between them, every node with a side for `bipartite` — rendered with random blanks, labels, harmless keys"""
        r = self.rng
        n = r.choice([0, 1, 2, 3, 4, 5, 6, 7, 11, 12])
        style = r.choice(["0..", "1..", "shuffled", "sparse", "neg", "neg", "str", "mixed", "refs"])
        if style == "str":
            ids = ['"{}"'.format(x) for x in r.sample(["a", "b", "B", "ab", "", "10", "9", "z", "a b", "01", "1", "x]", "-"], min(n, 13))]
        elif style == "refs":
            ids = ['"&#{};"'.format(c) for c in r.sample(range(48, 123), n)]
        elif style == "mixed":
            ids = [str(x) for x in r.sample(range(-3, 30), n)]
            for i in r.sample(range(len(ids)), len(ids) // 2):
                ids[i] = '"s{}"'.format(i)
        else:
            ids = [str(x) for x in {"0..": list(range(n)), "1..": list(range(1, n + 1)), "shuffled": r.sample(range(1, n + 1), n),
                                    "sparse": r.sample(range(0, 60), n), "neg": r.sample(range(-9, 25), n)}[style]]
        n = len(ids)
        directed = ty in ("digraph", "dag") or r.random() < .1
        head = []
        if directed:
            head.append("directed" + self.ws() + r.choice(["1", "1", "1", "2", '"y"', "[ a 1 ]"]))
        elif r.random() < .2:
            head.append("directed" + self.ws() + r.choice(["0", '""', "[ ]", "00"]))
        if r.random() < .3:
            head.append("name" + self.ws() + r.choice(STRS))
        if r.random() < .1:
            head.append("multigraph" + self.ws() + "0")
        sides = [r.choice([0, 1]) for _ in ids]
        nodes = []
        for x, sd in zip(ids, sides):
            parts = ["id" + self.ws() + x]
            if r.random() < .5:
                parts.append("label" + self.ws() + r.choice(STRS + ["5"]))
            if ty == "bipartite" or r.random() < .1:
                parts.append("bipartite" + self.ws() + r.choice([str(sd), '"{}"'.format(sd), '"&#{};"'.format(48 + sd)]))
            if r.random() < .1:
                parts.append(r.choice(["graphics", "a", "weight", "Creator"]) + self.ws() + self.value(2, ("i", "s", "l")))
            r.shuffle(parts)
            nodes.append("node" + self.ws() + "[" + self.ws() + "".join(q + self.ws() for q in parts) + "]")
        pairs = [(a, b) for a in range(n) for b in range(n) if a != b or (directed and ty == "digraph")]
        if ty == "bipartite":
            pairs = [(a, b) for a, b in pairs if sides[a] != sides[b]]
        if ty == "dag" and style not in ("str", "mixed", "refs"):
            pairs = [(a, b) for a, b in pairs if int(ids[a]) < int(ids[b])]
        r.shuffle(pairs)
        chosen, seen = [], set()
        for a, b in pairs[:r.randint(0, 2 * n)]:
            key = (a, b) if directed else (min(a, b), max(a, b))
            if key not in seen:
                seen.add(key)
                chosen.append((a, b))
        edges = []
        for a, b in chosen:
            parts = ["source" + self.ws() + ids[a], "target" + self.ws() + ids[b]]
            if r.random() < .1:
                parts.append(r.choice(["weight", "label", "key", "a"]) + self.ws() + self.value(2, ("i", "s", "l")))
            r.shuffle(parts)
            edges.append("edge" + self.ws() + "[" + self.ws() + "".join(q + self.ws() for q in parts) + "]")
        body = head + nodes + edges
        if r.random() < .2:
            r.shuffle(body)
        return "".join(self.ws() + b for b in body) + self.ws()

    def graph_items(self, ty):
        r = self.rng
        if self.clean:
            return self.clean_items(ty)
        n = r.choice([0, 1, 2, 3, 4, 5, 6, 11])
        style = r.choice(["0..", "1..", "shuffled", "sparse", "neg"])
        pool = {"0..": list(range(n)), "1..": list(range(1, n + 1)), "shuffled": r.sample(range(1, n + 1), n),
                "sparse": r.sample(range(0, 40), n), "neg": r.sample(range(-5, 20), n)}[style] or [0]
        head = []
        x = r.random()
        directed = ty in ("digraph", "dag")
        if x < .85:
            if directed or r.random() < .2:
                head.append("directed" + self.ws() + ("1" if directed or r.random() < .5 else "0"))
        elif x < .97:
            head.append("directed" + self.ws() + r.choice(["0", "1", "2", "-1", '""', '"x"', "[ ]", "[ a 1 ]", '"[]"', '"()"', "00", "abc"]))
            if r.random() < .3:
                head.append("directed" + self.ws() + r.choice(["0", "1"]))
        else:
            self.risky = True
            head.append("directed" + self.ws() + r.choice(["0.0", "1.0", "NAN"]))
        if r.random() < .04:
            v = r.choice(["0", "1", '""', "[ ]", '"x"', "0.0"])
            if v not in ("0", '""', "[ ]"):
                self.risky = True
            head.append("multigraph" + self.ws() + v)
        if r.random() < .4:
            head.append("name" + self.ws() + r.choice(STRS + ["5", "[ ]", "abc"]))
            if r.random() < .1:
                head.append("name" + self.ws() + r.choice(STRS))
        if r.random() < .15:
            head.append(self.items(1, 1))
        bip = ty == "bipartite"
        nodes = [self.node(pool[i:i + 1] if r.random() < .93 else pool, bip) for i in range(len(pool) if n else 0)]
        if r.random() < .05:
            nodes.append(r.choice(["node 1", 'node "a"', "node [ ]", 'node "[]"', "node 1.5", 'node "()"', "node ]"]))
        edges = []
        m = r.randint(0, 2 * len(pool)) if n else 0
        if ty == "dag" and r.random() < .7:
            sp = sorted(pool)
            for _ in range(m):
                if len(sp) >= 2:
                    a, b = sorted(r.sample(sp, 2))
                    edges.append("edge" + self.ws() + "[" + self.ws() + "source " + str(a) + self.ws() + "target " + str(b) + self.ws() + "]")
        else:
            edges = [self.edge(pool) for _ in range(m)]
        if r.random() < .04:
            edges.append(r.choice(["edge 3", 'edge "x"', "edge [ ]", 'edge "[]"']))
        body = head + nodes + edges
        if r.random() < .15:
            r.shuffle(body)
        return "".join(self.ws() + b for b in body) + self.ws()

    def document(self, ty):
        r = self.rng
        x = r.random()
        pre = self.ws() if r.random() < .3 else ""
        if r.random() < .1:
            pre += r.choice(["Creator \"me\"", "Version 1", "a [ b 1 ]", "x 5"]) + self.ws()
        if self.clean:
            return pre + "graph" + self.ws() + "[" + self.graph_items(ty) + "]" + r.choice(["", "\n", "\n\n", " "])
        if x < .9:
            doc = pre + "graph" + self.ws() + "[" + self.graph_items(ty) + "]"
        elif x < .93:
            doc = pre + "graph" + self.ws() + "[" + self.graph_items(ty) + "]" + self.ws() + "graph [ ]"
        elif x < .96:
            doc = pre + "graph" + self.ws() + r.choice(["5", '"x"', '"[]"', "1.5", '"()"', "abc", "]", ""])
        else:
            doc = pre + self.items(r.randint(0, 2), 0)
        if r.random() < .5:
            doc += r.choice(["\n", "\n\n", " ", "\r\n"])
        return doc


def tok_mutate(rng, text):
    """one GML-aware mutation; returns (text, kind, risky)"""
    k = rng.randrange(12)
    nums = list(re.finditer(r"[0-9]+", text))
    if k == 0 and nums:
        m = rng.choice(nums)
        v = rng.choice(INTS + STRS + REALS + RISKY_STRS + ["abc", "[ ]", "]", "[", ""])
        return text[:m.start()] + v + text[m.end():], "value", (v in REALS or v in RISKY_STRS)
    if k == 1:
        lines = text.split("\n")
        i = rng.randrange(len(lines) + 1)
        v = rng.choice(["self 1", "node_for_adding 2", "u_of_edge 1", "v_of_edge 1", "directed 1", "directed 0", "multigraph 0",
                        "id 0", "id 1", "source 0", "target 1", "bipartite 1", "label \"x\"", "# c", "", " ", "]", "node [", "edge [",
                        "name \"a", "\"", "b\"", "x \"multi", "line\"", "a [ b [ c 1 ] ]", "graph [ ]", "node [ id 77 ]",
                        "edge [ source 0 target 0 ]", "edge [ source 1 target 0 ]"])
        return "\n".join(lines[:i] + [v] + lines[i:]), "line", False
    if k == 2 and text:
        i = rng.randrange(len(text))
        c = rng.choice('[]"#&; \n\tx9-+._\r\x0b\x00\x7f')
        return text[:i] + c + text[i + 1:], "char", c in "."
    if k == 3 and text:
        i = rng.randrange(len(text) + 1)
        c = rng.choice('[]"#&; \n\tx9-+._\r\x1cé')
        return text[:i] + c + text[i:], "insert", c in "."
    if k == 4:
        return text[:rng.randrange(len(text) + 1)], "truncate", False
    if k == 5:
        return text.replace("\n", rng.choice(["\r\n", "\r", " ", "\n\n", ""])), "newlines", False
    if k == 6:
        keys = list(re.finditer(r"[a-z]+", text))
        if keys:
            m = rng.choice(keys)
            v = rng.choice(KEYS)
            return text[:m.start()] + v + text[m.end():], "key", False
    if k == 7:
        d = rng.choice([3, 50, 99, 100, 101, 130])
        ins = "a [ " * d + "] " * d
        i = text.find("node")
        i = len(text) - 2 if i < 0 else i
        return text[:max(i, 0)] + ins + text[max(i, 0):], "nest{}".format(d), False
    return base.mutate3p(rng, text)[:2] + (False,)


CORPUS = [
    # (ty, text, kind) — the former defects D43 (AttributeError) and D44 (RecursionError) first: ValueError since 3609e15
    ("simple", "graph 5", "defect"), ("simple", 'graph "x"', "defect"), ("simple", "graph [ node 1 ]", "defect"),
    ("simple", 'graph [ node "a" ]', "defect"), ("simple", "graph [ node [ id 1 ] edge 3 ]", "defect"),
    ("digraph", "graph [ directed 1 node [ id 1 ] node 3 ]", "defect"), ("bipartite", "graph abc", "defect"),
    ("simple", "graph [ " + "a [ " * 600 + "] " * 600 + "]", "defect"),
    # lists instead of dicts
    ("simple", 'graph "[]"', "c"), ("simple", 'graph [ node "[]" ]', "c"), ("simple", 'graph [ node "[]" node "[]" ]', "c"),
    ("simple", 'graph [ node [ id 1 ] edge "[]" edge [ source 1 target 1 ] ]', "c"), ("simple", 'graph "()"', "c"),
    ("simple", "graph [ node [ id 0 ] ] graph [ ]", "c"), ("simple", 'graph "_networkx_list_start" graph [ node [ id 0 ] ]', "c"),
    ("simple", 'graph [ node "_networkx_list_start" node [ id 4 ] ]', "c"),
    # tokens
    ("simple", "graph[node[id 1]node[id 2]edge[source 1target 2]]", "c"), ("simple", "graph [ node [ id 1a ] ]", "c"),
    ("simple", "graph [ node [ id 1_0 ] ]", "c"), ("simple", "graph [ node [ id a_b ] ]", "c"), ("simple", "graph [ _a 1 ]", "c"),
    ("simple", "graph [ node [ id ] ] ]", "c"), ("simple", "graph [ node [ id ] ]", "c"), ("simple", "graph [ node [ id", "c"),
    ("simple", "graph [ node [ id INF ] node [ id NAN ] ]", "c"), ("simple", "graph [ x Z ]", "c"), ("simple", "graph [ x NAN y INF ]", "c"),
    ("simple", "graph [ node [ id 1 ] node [ id 01 ] ]", "c"), ("simple", 'graph [ node [ id "1" ] node [ id "01" ] node [ id 1 ] ]', "c"),
    ("simple", 'graph [ node [ id "1" ] node [ id "&#49;" ] ]', "c"), ("simple", 'graph [ node [ id "a" ] node [ id "B" ] node [ id "" ] edge [ source "a" target "" ] ]', "c"),
    ("simple", 'graph [ node [ id 1 ] node [ id "a" ] edge [ source 1 target "a" ] ]', "c"),
    ("simple", "graph [ node [ id " + "1" * 4300 + " ] ]", "c"), ("simple", "graph [ node [ id " + "1" * 4301 + " ] ]", "c"),
    ("simple", "graph [ node [ id -" + "0" * 4301 + " ] ]", "c"), ("simple", 'graph [ name "&#' + "1" * 4301 + ';" ]', "c"),
    ("simple", 'graph [ name "&#x' + "0" * 4400 + '41;" node [ id 1 ] ]', "c"), ("simple", 'graph [ name "&#' + "0" * 4200 + '65;" node [ id 1 ] ]', "c"),
    ("simple", "graph [ node [ id 2147483648 ] node [ id -2147483649 ] edge [ source 2147483648 target -2147483649 ] ]", "c"),
    ("simple", "graph [ node [ id 1 ] # comment ] \n ]", "c"), ("simple", "graph [ node [ id 1 ] \x0b \x1c \x1f \x0c ]", "c"),
    ("simple", "graph [ node [ id 1 ] \x00 ]", "c"), ("simple", "graph [ node [ id 1 ] \x7f ]", "c"), ("simple", "graph [ node [ id 1 label \"é\" ] ]", "c"),
    ("simple", "graph [ node [ id -1 ] node [ id +1 ] node [ id 0 ] edge [ source -1 target 0 ]]", "c"),
    ("simple", "graph [ node [ id 1 ] ]\r\ngraph", "c"), ("simple", "graph [ node [ id 1 ] ]\rgraph [ ]", "c"), ("simple", "graph [ . ]", "c"),
    ("simple", "graph [ a 1.5E ]", "c"), ("simple", "graph [ a 1.5E+ ]", "c"), ("simple", "graph [ a +. ]", "c"), ("simple", "graph [ a - ]", "c"),
    # multi-line strings
    ("simple", "graph [\n node [ id 1 ]\n name \"abc\n", "c"), ("simple", "graph [\n node [ id 1 ]\n name \"abc\n\n", "c"),
    ("simple", "graph [\n node [ id 1 ]\n name \"abc\n\n\"", "c"), ("simple", "graph [\n name \"ab\n  cd \n ef\"\n node [ id 1 ] ]", "c"),
    ("simple", "graph [\n name \"ab\n  cd\" x 1\n node [ id 1 ] ]", "c"), ("simple", "graph [\n name \"ab\n \"\n node [ id 1 ] ]", "c"),
    ("simple", "graph [\n # he said \"\n node [ id 1 ] ]", "c"), ("simple", "graph [\n # \"x\n node [ id 1 ] ]\n", "c"),
    ("simple", "graph [\n \"x\n node [ id 1 ] ]\n", "c"), ("simple", "graph [ a \"b\" \"c\n ]", "c"), ("simple", "graph [\n name \"ab\né\"\n]", "c"),
    ("simple", "graph [\n name \"ab  \n  cd\"\n node [ id 1 ] ]", "c"),
    # keyword clashes, duplicates
    ("simple", "graph [ node [ id 1 self 3 ] ]", "c"), ("simple", "graph [ node [ id 1 node_for_adding 3 ] ]", "c"),
    ("simple", "graph [ node [ id 1 ] node [ id 2 ] edge [ source 1 target 2 u_of_edge 3 ] ]", "c"),
    ("simple", "graph [ node [ id 1 ] node [ id 2 ] edge [ source 1 target 2 self [ ] ] ]", "c"),
    ("digraph", "graph [ directed 1 node [ id 1 ] node [ id 2 ] edge [ source 1 target 2 v_of_edge 3 ] ]", "c"),
    ("simple", "graph [ node [ id 1 id 2 ] ]", "c"), ("simple", "graph [ node [ id [ ] ] ]", "c"), ("simple", 'graph [ node [ id "_networkx_list_start" id 1 ] ]', "c"),
    ("simple", "graph [ node [ id 1 ] node [ id 2 ] edge [ source 1 target 2 ] edge [ source 2 target 1 ] ]", "c"),
    ("digraph", "graph [ directed 1 node [ id 1 ] node [ id 2 ] edge [ source 1 target 2 ] edge [ source 2 target 1 ] ]", "c"),
    ("digraph", "graph [ directed 1 node [ id 1 ] node [ id 2 ] edge [ source 1 target 2 ] edge [ source 1 target 2 ] ]", "c"),
    ("simple", "graph [ node [ id 1 ] node [ id 2 ] edge [ source 1 target 3 ] ]", "c"), ("simple", "graph [ node [ id 1 ] edge [ source 1 ] ]", "c"),
    ("simple", "graph [ node [ id 1 ] edge [ target 1 ] ]", "c"), ("simple", "graph [ node [ id 1 ] edge [ source [ ] ] ]", "c"),
    ("simple", "graph [ node [ id 1 ] edge [ source [ ] target 1 ] ]", "c"), ("simple", "graph [ node [ id 1 ] edge [ source 1 target 1 ] ]", "c"),
    ("digraph", "graph [ directed 1 node [ id 1 ] edge [ source 1 target 1 ] ]", "c"), ("dag", "graph [ directed 1 node [ id 1 ] edge [ source 1 target 1 ] ]", "c"),
    # directed flag
    ("simple", "graph [ directed 1 node [ id 1 ] node [ id 2 ] edge [ source 2 target 1 ] edge [ source 1 target 2 ] ]", "c"),
    ("digraph", "graph [ node [ id 1 ] ]", "c"), ("digraph", "graph [ directed 0 node [ id 1 ] ]", "c"), ("digraph", 'graph [ directed "" node [ id 1 ] ]', "c"),
    ("digraph", 'graph [ directed "x" node [ id 1 ] ]', "c"), ("digraph", "graph [ directed [ ] node [ id 1 ] ]", "c"),
    ("digraph", "graph [ directed [ a 1 ] node [ id 1 ] ]", "c"), ("digraph", "graph [ directed 0 directed 0 node [ id 1 ] ]", "c"),
    ("digraph", 'graph [ directed "_networkx_list_start" directed 0 node [ id 1 ] ]', "c"), ("digraph", 'graph [ directed "()" node [ id 1 ] ]', "c"),
    ("digraph", 'graph [ directed "[]" node [ id 1 ] ]', "c"), ("digraph", "graph [ directed 2 node [ id 1 ] ]", "c"),
    ("dag", "graph [ directed 1 node [ id 5 ] node [ id 3 ] edge [ source 3 target 5 ] ]", "c"),
    ("dag", "graph [ directed 1 node [ id 5 ] node [ id 3 ] edge [ source 5 target 3 ] ]", "c"),
    ("dag", 'graph [ directed 1 node [ id "b" ] node [ id "a" ] edge [ source "a" target "b" ] ]', "c"),
    ("dag", 'graph [ directed 1 node [ id "b" ] node [ id 1 ] edge [ source "b" target 1 ] ]', "c"),
    ("dag", 'graph [ directed 1 node [ id "b" ] node [ id 1 ] edge [ source 1 target "b" ] ]', "c"),
    ("simple", "graph [ multigraph 1 node [ id 1 ] node [ id 2 ] edge [ source 2 target 1 ] edge [ source 2 target 1 ] ]", "c"),
    ("simple", "graph [ multigraph 0 node [ id 1 ] ]", "c"), ("simple", "graph [ directed 1.0 node [ id 1 ] ]", "c"),
    # bipartite
    ("bipartite", 'graph [ node [ id 1 bipartite 0 ] node [ id 2 bipartite "1" ] edge [ source 1 target 2 ] ]', "c"),
    ("bipartite", 'graph [ node [ id 1 bipartite 0 ] node [ id 2 bipartite "1" ] edge [ source 2 target 1 ] ]', "c"),
    ("bipartite", "graph [ node [ id 1 bipartite 0 ] node [ id 2 bipartite 2 ] ]", "c"), ("bipartite", "graph [ node [ id 1 bipartite 0 ] node [ id 2 ] ]", "c"),
    ("bipartite", "graph [ node [ id 1 bipartite 0 ] node [ id 2 bipartite [ ] ] ]", "c"), ("bipartite", "graph [ node [ id 2 bipartite 0 bipartite 1 ] ]", "c"),
    ("bipartite", 'graph [ node [ id 2 bipartite "_networkx_list_start" bipartite 1 ] ]', "c"), ("bipartite", 'graph [ node [ id 2 bipartite "&#49;" ] ]', "c"),
    ("bipartite", "graph [ node [ id 1 bipartite 0 ] node [ id 2 bipartite 0 ] edge [ source 1 target 2 ] ]", "c"),
    ("bipartite", "graph [ node [ id 1 bipartite 1 ] node [ id 2 bipartite 1 ] edge [ source 1 target 2 ] ]", "c"),
    ("bipartite", "graph [ node [ id 1 bipartite 0 ] edge [ source 1 target 1 ] ]", "c"),
    ("bipartite", "graph [ directed 1 node [ id 9 bipartite 1 ] node [ id 2 bipartite 0 ] node [ id 3 bipartite 1 ] edge [ source 9 target 2 ] edge [ source 2 target 3 ] ]", "c"),
    ("bipartite", "graph [ node [ id 1 bipartite 0.0 ] ]", "c"), ("bipartite", "graph [ node [ id 1 bipartite 01 ] ]", "c"),
    # misc
    ("simple", "", "c"), ("simple", "\n", "c"), ("simple", "graph [ ]", "c"), ("simple", "graph [ graph 1 ]", "c"), ("simple", "graph [ node [ ] ]", "c"),
    ("simple", "graph [ node [ id 1 ] node [ id 1.0 ] ]", "c"), ("simple", 'graph [ name "x&amp;y&#65;&#x42;&foo;" node [ id 1 ] ]', "c"),
    ("simple", 'graph [ name "&#65;&#x42;&#x4a;&#x4A;" node [ id 1 ] ]', "c"), ("simple", "graph [ name 5 node [ id 1 ] ]", "c"),
    ("simple", 'graph [ name "a" name "b" node [ id 1 ] ]', "c"), ("simple", 'graph [ node [ id "()" ] ]', "c"),
    ("simple", "graph [ " + "a [ " * 100 + "] " * 100 + "]", "c"), ("simple", "graph [ " + "a [ " * 99 + "] " * 99 + "]", "c"),
    ("simple", "a [ " * 100 + "] " * 100 + " graph [ ]", "c"), ("simple", "a [ " * 101 + "] " * 101 + " graph [ ]", "c"),
    ("simple", "graph [ node [ id 3 ] node [ id 1 ] node [ id 2 ] edge [ source 3 target 1 ] edge [ source 2 target 3 ] edge [ source 1 target 2 ] ]", "c"),
    ("digraph", "graph [ directed 1 node [ id 3 ] node [ id 1 ] node [ id 2 ] edge [ source 3 target 1 ] edge [ source 2 target 3 ] edge [ source 3 target 2 ] edge [ source 1 target 2 ] ]", "c"),
]


def cases(ctx):
    tier, seed = ctx["tier"], ctx["seed"]
    rng = common.sub_rng(seed, "C14_gml")
    quick = tier == "quick"
    infos = []
    # ---- corpus
    for ty, text, kind in CORPUS:
        infos.append(("gml_r", dict(ty=ty, text=text, kind="corpus-" + kind, u=0)))
        infos.append(("gml_p", dict(text=text, kind="corpus-" + kind, u=0)))
    for s in NAMES:
        if encodable(s):
            infos.append(("gml_esc", dict(s=s)))
    for _ in range(30 if quick else 600):
        s = rand_name(rng)
        if encodable(s):
            infos.append(("gml_esc", dict(s=s)))
    # ---- dot: names of bipartite graphs (former defect D45, fixed in baae776: a double quote / a final backslash
    # in the name broke the file; the round trip is demanded for EVERY name)
    for name in ['a "b" c', 'x"', '"', "a\\", 'q" { 1 -- 2 } "', "plain", "two\nlines", "a;b", "} x", "graph", "é", "a b", "\\n", "{",
                 '\\"', '""', "\\\\", 'a\\"b', '"\\', "'", "<b>", "a\tb", "-- ->", "[x=1]", "#c", "//c", "/*c*/", ""]:
        infos.append(("dot_name", dict(name=name, g={"l": 2, "r": 1, "edges": [(2, 1)]})))
    for _ in range(10 if quick else 200):
        name = rand_name(rng)
        if encodable(name):
            g, _sh = base.gen_graph(rng, "bipartite", None, False)
            infos.append(("dot_name", dict(name=name, g=g)))
    # ---- writer and round trip
    reps = 2 if quick else 14
    written = []
    for ty in TY:
        for shape in ["empty", "isolated", "path", "star", "complete", "random", "dense"]:
            for big in (False, True):
                for _ in range(reps):
                    g, sh = base.gen_graph(rng, ty, shape, big)
                    name = rand_name(rng)
                    if not encodable(name):
                        name = "G"
                    infos.append(("gml_w", dict(ty=ty, g=g, name=name, shape=sh)))
                    infos.append(("gml_rt", dict(ty=ty, g=g, name=name, shape=sh, u=rng.choice([0, 0, 1]))))
                    if len(written) < 4000:
                        written.append((ty, g, name))
    for ty in TY:    # a large one (lines beyond 64 KiB of text)
        n = 60 if quick else 150
        if ty == "bipartite":
            g = {"l": n, "r": n + 3, "edges": [(u, v) for u in range(1, n + 1) for v in range(1, n + 4) if rng.random() < .5]}
        else:
            es = [(u, v) for u in range(1, n + 1) for v in range(u + 1, n + 1) if rng.random() < .6]
            if ty == "digraph":
                es = [(v, u) if rng.random() < .4 else (u, v) for u, v in es]
            g = {"n": n, "edges": es}
        infos.append(("gml_rt", dict(ty=ty, g=g, name="large", shape="large", u=0)))
        infos.append(("gml_w", dict(ty=ty, g=g, name="large", shape="large")))
    # ---- reader: writer outputs (must be modelled), read as every type
    for ty, g, name in written[:(40 if quick else 400)]:
        small = g if ty == "bipartite" and g["l"] + g["r"] <= 12 or ty != "bipartite" and g["n"] <= 12 else None
        if small is None:
            continue
        text = base.write_text(base.make_graph(ty, g), ty, "gml", name)
        for ty2 in TY:
            infos.append(("gml_r", dict(ty=ty2, text=text, kind="written", u=rng.choice([0, 1]), must=1)))
        infos.append(("gml_p", dict(text=text, kind="written", u=0, must=1)))
    # ---- reader: structured random documents
    for _ in range(700 if quick else 9000):
        ty = rng.choice(list(TY))
        gen = Gen(rng, clean=rng.random() < .55)
        text = gen.document(ty)
        u = 1 if rng.random() < .15 else 0
        must = 0 if gen.risky else 1
        kind = "doc"
        if rng.random() < .25:
            text, kd, risky = tok_mutate(rng, text)
            kind = "doc+" + kd
            must = 0
        if not encodable(text):
            continue
        infos.append(("gml_r", dict(ty=ty, text=text, kind=kind, u=u, must=must)))
        if rng.random() < .5:
            infos.append(("gml_p", dict(text=text, kind=kind, u=u, must=must)))
    # ---- reader: mutated writer outputs
    for _ in range(500 if quick else 7000):
        ty, g, name = rng.choice(written)
        if ty == "bipartite":
            g = {"l": min(g["l"], 3), "r": min(g["r"], 3), "edges": [e for e in g["edges"] if e[0] <= 3 and e[1] <= 3]}
        else:
            g = {"n": min(g["n"], 5), "edges": [e for e in g["edges"] if e[0] <= 5 and e[1] <= 5]}
        text = base.write_text(base.make_graph(ty, g), ty, "gml", name)
        kinds = []
        for _k in range(rng.choice([1, 1, 2, 3])):
            text, kd, _risky = tok_mutate(rng, text)
            kinds.append(kd)
        if not encodable(text):
            continue
        if rng.random() < .1:
            ty = rng.choice(list(TY))
        u = 1 if rng.random() < .15 else 0
        infos.append(("gml_r", dict(ty=ty, text=text, kind=kinds[0] if len(kinds) == 1 else "multi", u=u)))
        if rng.random() < .3:
            infos.append(("gml_p", dict(text=text, kind=kinds[0] if len(kinds) == 1 else "multi", u=u)))
    # ---- the model's answers for the reader requests, in one batch
    reqs = []
    for suite, info in infos:
        if suite == "gml_p":
            reqs.append(req("gml_p", info.get("u", 0), enc_str(info["text"])))
        elif suite == "gml_r":
            reqs.append(req("gml_r", TY[info.get("ty", "simple")], info.get("u", 0), enc_str(info["text"])))
    reqs = [r for r in dict.fromkeys(reqs) if r not in _MODEL]
    for r, a in zip(reqs, common.run_driver(reqs)):
        _MODEL[r] = a
    for suite, info in infos:
        yield build(suite, info)
