"""C07, library half — a generator called with `seed=s` returns the same object whenever it is called with the
same arguments and the same seed, WHATEVER was called before in the same process.

The suites of C07.py call each seeded generator twice at one small size.  Here every seeded entry point of the
library (RandomKCNF, RandomKXOR, the four bipartite samplers, split_random_edges, add_random_missing_edges) is
called along a *history* inside this one process:

    a = f(args, seed=s);   f(args, seed=s');   f(other args, seed=s);   global generator perturbed;   b = f(args, seed=s)

and, at the end of the run, once more in reverse order of the cases (suite `libseed_again`), and once more through
`cnfgen.clitools.cnfgen.cli` where a sub-command exists.  a == b is the property (nothing is compared with a model).

Sizes are a ladder that reaches every branch of the samplers:
  * RandomKCNF / RandomKXOR: the whole space of clauses / parities, all but one, half, one, none — for spaces of
    4 … 2^16 and beyond (k = 1, 2, 3), with no planted assignment (default and `[]`), one, two.  The rejection
    loop of the samplers gives up after c*m attempts (c = 10 in the current source); asking for a whole space of
    N elements makes it give up with probability 1 - exp(-N e^-c), so the dense fallback is reached with the real
    Mersenne twister only when N is some multiple of e^c ~ 2.2e4: the ladder goes up to 2^16 (quick) / 2^17 (thorough),
    plus the values `common.probe_sizes` finds around the integer constants of the current source;
  * bipartite_random_m_edges on both sides of its dense/sparse switch, the others at small and at a few hundred vertices.
Observed only (never decides): which cases made the sampler enumerate its whole space (a spy on the module's
enumerator functions, if they exist under their current names) — printed in the class label of the case.
"""
import contextlib
import io
import json
import os
import random
import subprocess
import sys
from concurrent.futures import ThreadPoolExecutor

from harness import common
from harness.common import Case, req, ok

import cnfgen
from cnfgen import graphs as G_
import cnfgen.families.randomformulas as RF
import cnfgen.families.randomkxor as RX
from cnfgen.clitools.cnfgen import cli as cli_cnfgen

RULE = ("every seeded library generator along a history in ONE process (same args+seed, other seed, other args, perturbed "
        "global generator, same args+seed again; again in reverse order at the end; through cli() too); clause/parity spaces "
        "4..2^16 (2^17 thorough) requested entirely so that the real generator reaches the dense fallback; distinct = "
        "distinct (generator, arguments, seed)")
NOTES = ["libseed_hist/libseed_again: nothing is sent to the model (request `phase 0 1`); the oracle is the property"]

SOURCE_FILES = ["families/randomformulas.py", "families/randomkxor.py", "graphs.py"]

_FIRST = {}          # (name, args, seed) -> first canonical result seen in this process
_DENSE = {}          # (name, args, seed) -> True if an enumerator of the whole space was called (observation only)


def fsig(F):
    return (type(F).__name__, F.number_of_variables(), [tuple(c) for c in F], sorted(F.header.items()))


def gsig(B):
    return (type(B).__name__, B.number_of_vertices(), sorted(B.edges()), getattr(B, "name", None))


def total_assignment(n, salt):
    r = random.Random(salt * 7919 + n)
    return [v if r.random() < .5 else -v for v in range(1, n + 1)]


def planted_of(mode, n):
    """0: argument omitted, 1: [], 2: one total assignment, 3: two of them"""
    if mode == 0:
        return {}
    if mode == 1:
        return {"planted_assignments": []}
    return {"planted_assignments": [total_assignment(n, j) for j in range(mode - 1)]}


def _simple_graph(n, step):
    H = G_.Graph(n)
    for u in range(1, n + 1):
        for v in range(u + 1, n + 1):
            if (u * 31 + v * 17) % step == 0:
                H.add_edge(u, v)
    return H


def _split(n, step, k, seed):
    H = _simple_graph(n, step)
    G_.split_random_edges(H, k, seed=seed)
    return H


def _addmissing(n, step, m, seed):
    H = _simple_graph(n, step)
    G_.add_random_missing_edges(H, m, seed=seed)
    return H


def _addmissing_bip(l, r, m, seed):
    B = G_.BipartiteGraph(l, r)
    for u in range(1, l + 1):
        B.add_edge(u, 1 + u % r)
    G_.add_random_missing_edges(B, m, seed=seed)
    return B


GENS = {
    "RandomKCNF": lambda a, s: fsig(cnfgen.RandomKCNF(a[0], a[1], a[2], seed=s, **planted_of(a[3], a[1]))),
    "RandomKXOR": lambda a, s: fsig(cnfgen.RandomKXOR(a[0], a[1], a[2], seed=s, **planted_of(a[3], a[1]))),
    "bipartite_random_left_regular": lambda a, s: gsig(G_.bipartite_random_left_regular(a[0], a[1], a[2], seed=s)),
    "bipartite_random_m_edges": lambda a, s: gsig(G_.bipartite_random_m_edges(a[0], a[1], a[2], seed=s)),
    "bipartite_random": lambda a, s: gsig(G_.bipartite_random(a[0], a[1], a[2] / 100.0, seed=s)),
    "bipartite_random_regular": lambda a, s: gsig(G_.bipartite_random_regular(a[0], a[1], a[2], seed=s)),
    "split_random_edges": lambda a, s: gsig(_split(a[0], a[1], a[2], s)),
    "add_random_missing_edges": lambda a, s: gsig(_addmissing(a[0], a[1], a[2], s)),
    "add_random_missing_edges:bipartite": lambda a, s: gsig(_addmissing_bip(a[0], a[1], a[2], s)),
}

CLI_OF = {   # the same request through the command line, in process
    "RandomKCNF": lambda a, s: ["cnfgen", "-q", "--seed", str(s), "randkcnf", str(a[0]), str(a[1]), str(a[2])],
    "RandomKXOR": lambda a, s: ["cnfgen", "-q", "--seed", str(s), "randkxor", str(a[0]), str(a[1]), str(a[2])],
}


def call(name, args, seed):
    """canonical result or the exception kind (a refusal is an answer too: it must be the same refusal)"""
    try:
        return GENS[name](args, seed)
    except Exception as e:  # noqa: the kind is the observation
        return common.exc_name(e)


def call_cli(name, args, seed):
    argv = CLI_OF[name](args, seed)
    try:
        with contextlib.redirect_stderr(io.StringIO()), contextlib.redirect_stdout(io.StringIO()):
            return fsig(cli_cnfgen(argv, mode="formula"))[1:3]
    except BaseException as e:  # noqa  (CLIError / SystemExit are answers as well)
        return common.exc_name(e)


@contextlib.contextmanager
def dense_spy(flag):
    """observation only: did the sampler enumerate its whole space?  (names of the current source; absent names are skipped)"""
    saved = []
    for mod, fname in ((RF, "all_clauses"), (RX, "all_good_parities")):
        orig = getattr(mod, fname, None)
        if orig is None:
            continue

        def spy(*a, _orig=orig, **kw):
            flag.append(1)
            return _orig(*a, **kw)
        saved.append((mod, fname, orig))
        setattr(mod, fname, spy)
    try:
        yield
    finally:
        for mod, fname, orig in saved:
            setattr(mod, fname, orig)


def perturb(salt):
    random.seed(salt)
    for _ in range(salt % 5 + 1):
        random.random()


def first_difference(a, b):
    if isinstance(a, str) or isinstance(b, str):
        return {"first": str(a)[:120], "second": str(b)[:120]}
    for name, x, y in zip(("class", "size", "clauses_or_edges", "header_or_name"), a, b):
        if x != y:
            if isinstance(x, list) and isinstance(y, list):
                i = next((i for i, (p, q) in enumerate(zip(x, y)) if p != q), min(len(x), len(y)))
                return {"differs_in": name, "position": i, "first": str(x[i:i + 2])[:120], "second": str(y[i:i + 2])[:120]}
            return {"differs_in": name, "first": str(x)[:120], "second": str(y)[:120]}
    return {}


def other_args(name, args):
    """a neighbouring request of the same generator (shares caches keyed by part of the arguments)"""
    a = list(args)
    if name in ("RandomKCNF", "RandomKXOR"):
        a[2] = max(a[2] - 1, 0) if a[2] else 1
    elif name == "bipartite_random_regular":
        a[2] = a[2] + 1 if a[2] < a[1] else max(a[2] - 1, 0)
    else:
        a[2] = a[2] + 1
    return a


class HistCase(Case):
    __slots__ = ("_flag", "_base")

    @property
    def cls(self):
        return self._base + (":dense" if _DENSE.get(self._flag) else "")

    @cls.setter
    def cls(self, v):
        self._base = v


def history(name, args, seed, heavy=False):
    """the history of the module docstring, in THIS process; returns (failure or None, dense flag)"""
    args = list(args)
    key = (name, tuple(args), repr(seed))
    info = {"gen": name, "args": args, "seed": seed, "heavy": heavy}
    flag = []
    salt = sum(args) % 1000 + 1
    perturb(salt)
    with dense_spy(flag):
        a = call(name, args, seed)
    dense = bool(flag)
    _FIRST.setdefault(key, a)
    if not heavy:
        call(name, args, 12345 if seed != 12345 else 54321)     # same arguments, another seed
        call(name, other_args(name, args), seed)                 # neighbouring arguments, same seed
    perturb(salt + 17)
    b = call(name, args, seed)
    if a != b:
        return dict(info, same_seed_two_results=first_difference(a, b), calls="f(args,seed) ... f(args,seed) in one process"), dense
    if _FIRST[key] != a:
        return dict(info, same_seed_two_results=first_difference(_FIRST[key], a), calls="earlier in this process vs now"), dense
    if name in CLI_OF and isinstance(seed, int) and planted_free(args) and (heavy or args[2] <= 300):
        c1 = call_cli(name, args, seed)
        perturb(salt + 3)
        c2 = call_cli(name, args, seed)
        if c1 != c2:
            return dict(info, argv=CLI_OF[name](args, seed), same_command_line_two_results=first_difference(
                ("", c1[0], c1[1], "") if not isinstance(c1, str) else c1,
                ("", c2[0], c2[1], "") if not isinstance(c2, str) else c2)), dense
    return None, dense


# ---- heavy requests run the same history in a child process of their own (one process, all calls inside it), a few
# at a time next to the rest of the run: the wall time of the check stays where it was
_POOL = None
CHILD = ("import sys, json, warnings; warnings.simplefilter('ignore'); from harness.props import C07_libseed as M; "
         "r = json.loads(sys.argv[1]); f, d = M.history(r['gen'], r['args'], r['seed'], True); print(json.dumps({'failure': f, 'dense': d}))")


def run_child(info):
    env = dict(os.environ, PYTHONPATH=common.REPO + os.pathsep + common.VERIF, PYTHONWARNINGS="ignore")
    try:
        p = subprocess.run([sys.executable, "-c", CHILD, json.dumps(info)], stdout=subprocess.PIPE, stderr=subprocess.PIPE,
                           env=env, timeout=900)
    except subprocess.TimeoutExpired:
        return {"timeout": True}
    if p.returncode != 0:
        return {"crash": p.stderr.decode(errors="replace")[-400:]}
    try:
        return json.loads(p.stdout.decode().strip().split("\n")[-1])
    except ValueError:
        return {"crash": "unreadable answer " + p.stdout.decode(errors="replace")[-200:]}


def submit_child(info):
    global _POOL
    if _POOL is None:
        _POOL = ThreadPoolExecutor(4)
    return _POOL.submit(run_child, info)


def hist_case(name, args, seed, heavy=False, prelaunch=False):
    args = list(args)
    key = (name, tuple(args), repr(seed))
    info = {"gen": name, "args": args, "seed": seed, "heavy": heavy}
    fut = [submit_child(info)] if heavy and prelaunch else []

    def oracle():
        if not heavy:
            f, dense = history(name, args, seed)
            _DENSE[key] = dense
            return f
        if not fut:
            fut.append(submit_child(info))
        r = fut[0].result()
        if r.get("timeout"):
            return None                     # no verdict (the machine was too busy); never an alarm
        if "crash" in r:
            return dict(info, child_process_died=r["crash"])
        _DENSE[key] = r.get("dense")
        return r.get("failure")
    c = HistCase("libseed_hist", req("phase", 0, 1), lambda: ok("1 0"), oracle, cls="", nontrivial=True, info=info)
    c._flag = key
    c._base = name + (":big" if heavy else "")
    return c


def planted_free(args):
    return len(args) < 4 or args[3] in (0, 1)


def again_case(todo):
    """every light request of the run once more, in reverse order: the answers recorded earlier must come back"""
    def oracle():
        for name, args, seed in reversed(todo):
            key = (name, tuple(args), repr(seed))
            if key not in _FIRST:
                continue
            perturb(len(args) + 5)
            b = call(name, list(args), seed)
            if b != _FIRST[key]:
                return {"gen": name, "args": list(args), "seed": seed,
                        "same_seed_two_results": first_difference(_FIRST[key], b), "calls": "first pass vs reverse pass"}
        return None
    return Case("libseed_again", req("phase", 0, 1), lambda: ok("1 0"), oracle, cls="reverse-pass", nontrivial=True,
                info={"requests": len(todo)})


# ------------------------------------------------------------------ the ladder
def binom(n, k):
    c = 1
    for i in range(k):
        c = c * (n - i) // (i + 1)
    return c if k <= n else 0


def space(name, k, n):
    return binom(n, k) * ((1 << k) if name == "RandomKCNF" else 2)


def n_for_space(name, k, target):
    """smallest n whose clause/parity space reaches `target`"""
    n = k
    while space(name, k, n) < target:
        n += 1
    return n


def formula_requests(name, rng, thorough):
    """(args, heavy) — whole-space requests along a ladder of space sizes, and their neighbours"""
    out = []
    targets = [4, 16, 64, 256, 1024] + ([4096] if thorough else [])
    probes = [v for v in common.probe_sizes(SOURCE_FILES, 5, 3000) if v not in targets]
    targets += rng.sample(probes, min(len(probes), 5 if thorough else 2))
    for t in targets:
        for k in (1, 2, 3):
            if not thorough and k != 1 + (t + rng.randint(0, 2)) % 3:
                continue
            n = n_for_space(name, k, t)
            N = space(name, k, n)
            for mode in ((0, 1, 2, 3) if thorough else (rng.choice((0, 1)), rng.choice((2, 3)))):
                if N > 1100 and (mode >= 2 or (mode == 1 and k > 1)):
                    continue        # the planted space is counted by the generator itself; keep those small
                for m in sorted({N, N - 1, N // 2, 1, 0} if N <= 300 else {N, N - 1} if thorough else {N}):
                    if mode >= 2:
                        m = m // (2 if name == "RandomKXOR" else 1)     # something a planted set may still allow
                    out.append(([k, n, m, mode], False))
    out.append(([1, 2, 9, 0], False))       # a refusal must be the same refusal
    out.append(([3, 2, 0, 1], False))
    # beyond e^c: the real generator gives up the rejection loop and takes the dense path
    big = [(1, 1 << 16), (3, 40000)] if not thorough else [(1, 1 << 15), (1, 1 << 16), (1, 1 << 17), (2, 1 << 16), (3, 1 << 16)]
    for k, t in big:
        n = n_for_space(name, k, t)
        N = space(name, k, n)
        out.append(([k, n, N, rng.choice((0, 1))], True))
        if thorough:
            out.append(([k, n, N - 1, 0], True))
    return out


def graph_requests(rng, thorough):
    out = []
    sizes = [1, 2, 3, 5, 8] + ([13, 21, 34] if thorough else [rng.choice((13, 21))])
    sizes += [v for v in common.probe_sizes(["graphs.py"], 4, 60 if thorough else 30) if v not in sizes][:6 if thorough else 2]
    for l in sizes:
        r = max(1, l + rng.randint(-2, 2))
        # both sides of a size-dependent switch of the sampling strategy, wherever it is
        for m in sorted({0, 1, l * r // 3, l * r // 3 + 1, l * r // 2, l * r - 1, l * r}):
            if 0 <= m <= l * r:
                out.append(("bipartite_random_m_edges", [l, r, m]))
        out.append(("bipartite_random_left_regular", [l, r, min(r, rng.randint(0, 3))]))
        out.append(("bipartite_random_left_regular", [l, r, r]))
        out.append(("bipartite_random", [l, r, rng.choice((0, 30, 50, 100))]))
        d = rng.randint(0, min(l, 3))
        out.append(("bipartite_random_regular", [l, l, d]))
        out.append(("bipartite_random_regular", [2 * l, l, min(d, l) // 2 * 1]))
        n = l + 3
        H = _simple_graph(n, 3)
        e = H.number_of_edges()
        missing = n * (n - 1) // 2 - e
        for k in sorted({0, 1, e // 2, e}):
            out.append(("split_random_edges", [n, 3, k]))
        for m in sorted({0, 1, missing // 2, missing - 1, missing}):
            if m >= 0:
                out.append(("add_random_missing_edges", [n, 3, m]))
        for m in sorted({0, 1, (l * r - l) // 2, l * r - l}):
            if m >= 0:
                out.append(("add_random_missing_edges:bipartite", [l, r, m]))
    if thorough:
        out += [("bipartite_random_m_edges", [300, 300, 300 * 300 // 3 + 1]), ("bipartite_random_m_edges", [300, 300, 20000]),
                ("bipartite_random_left_regular", [400, 500, 7]), ("bipartite_random_regular", [200, 200, 5]),
                ("bipartite_random", [200, 300, 40])]
    else:
        out += [("bipartite_random_m_edges", [120, 100, 120 * 100 // 3 + 1]), ("bipartite_random_regular", [60, 60, 4])]
    return out


SEEDS = [0, 1, -3, 2 ** 31, 2 ** 70 + 1, 1.5, "abc", ""]


def build(suite, info):
    if suite == "libseed_hist":
        return hist_case(info["gen"], info["args"], info["seed"], info.get("heavy", False))
    raise ValueError("unknown suite " + suite)


def cases(ctx):
    tier, seed = ctx["tier"], ctx["seed"]
    thorough = tier == "thorough"
    rng = common.sub_rng(seed, "C07", "libseed")
    out, light = [], []
    for name in ("RandomKCNF", "RandomKXOR"):
        for args, heavy in formula_requests(name, rng, thorough):
            s = rng.choice(SEEDS) if not heavy and rng.random() < .4 else rng.randint(0, 2 ** 32)
            out.append(hist_case(name, args, s, heavy, prelaunch=True))
            if not heavy:
                light.append((name, args, s))
    for name, args in graph_requests(rng, thorough):
        s = rng.choice(SEEDS) if rng.random() < .4 else rng.randint(0, 2 ** 32)
        out.append(hist_case(name, args, s))
        light.append((name, args, s))
    out.append(again_case(light))
    return out
