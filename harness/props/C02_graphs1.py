"""C02 (first share) — Tseitin, k-colouring, even colouring, dominating set (both encodings,
unique_neighborhoods), tiling.

Correspondence: the formula built by the real family (class CNF and class OPB) equals the Lean
model's rendering, exactly (variable count, constraint order, literal order).

Oracle (independent of the model): the truth table of the REAL formula (its own clauses /
pseudo-Boolean constraints) against the specification predicate written here from the
documentation, variables decoded through the real formula's own variable groups (`to_index`);
satisfiable <=> graph property computed by brute force; model count = number of witnesses where
the documented variables are the witness; documented variable count; literals within range.
"""
import itertools

from harness import common
from harness.common import Case, req, enc_list, enc_pairs, ok, fmt_formula

from cnfgen.graphs import Graph
from cnfgen.formula.cnf import CNF
from cnfgen.formula.opb import OPB
from cnfgen.formula.baseopb import BaseOPB
from cnfgen.families.tseitin import TseitinFormula
from cnfgen.families.coloring import GraphColoringFormula, EvenColoringFormula
from cnfgen.families.dominatingset import DominatingSet, Tiling, unique_neighborhoods

SUITES = ["g1_tseitin", "g1_kcolor", "g1_ecolor", "g1_domset", "g1_tiling", "g1_uniqnbr"]

RULE = ("per family x {CNF, OPB}: graphs from a shape generator (null graph, isolated vertices, single edge, paths, "
        "stars, cycles, complete graphs, disconnected unions, Eulerian unions of cycles, random G(n,p), graphs with "
        ">= 10 vertices; both tiers: ALL labelled graphs with <= 4 vertices with the full parameter grid; thorough tier: ALL with 5 vertices and 300 with 6 vertices with sampled parameters) x parameters (k, d from -1/0 to n+1; "
        "charges: default, all-zero, all-one, random non-boolean, too short, too long; flags functional / alternative); "
        "distinct = distinct request line; non-trivial = graph has at least one vertex")
ASSUMPTIONS = ["graph arguments are cnfgen.graphs.Graph objects built through add_edge (hypothesis GoodGraph in the theorems; "
               "to be discharged from C16's invariant theorem)"]
NOTES = ["g1_*: truth tables are computed for formulas with at most MAXV variables (18 thorough / 16 quick); larger "
         "instances are compared structurally only (correspondence) plus variable count / literal range"]


# ------------------------------------------------------------------ truth tables as bit masks
class Table:
    """all 2^n assignments at once: a set of assignments is a Python integer with 2^n bits;
    assignment number a gives variable i (1-based) the value bit (i-1) of a"""
    _cache = {}

    def __new__(cls, n):
        if n in cls._cache:
            return cls._cache[n]
        self = object.__new__(cls)
        self.n = n
        self.N = 1 << n
        self.ALL = (1 << self.N) - 1
        self.var = [None]
        for i in range(1, n + 1):
            half = 1 << (i - 1)
            block = ((1 << half) - 1) << half
            self.var.append(block * (self.ALL // ((1 << (2 * half)) - 1)))
        if n <= 14:
            cls._cache[n] = self
        return self

    def lit(self, l):
        return self.var[l] if l > 0 else self.ALL ^ self.var[-l]

    def neg(self, m):
        return self.ALL ^ m

    def any(self, masks):
        r = 0
        for m in masks:
            r |= m
        return r

    def all(self, masks):
        r = self.ALL
        for m in masks:
            r &= m
        return r

    def xor(self, masks):
        r = 0
        for m in masks:
            r ^= m
        return r

    def iff(self, a, b):
        return self.ALL ^ (a ^ b)

    def sums(self, terms):
        """terms: list of (coefficient, mask); returns dict value -> set of assignments with that sum"""
        d = {0: self.ALL}
        for c, m in terms:
            nd = {}
            nm = self.ALL ^ m
            for s, sm in d.items():
                a = sm & m
                if a:
                    nd[s + c] = nd.get(s + c, 0) | a
                b = sm & nm
                if b:
                    nd[s] = nd.get(s, 0) | b
            d = nd
        return d

    def count_where(self, masks, pred):
        """assignments where pred(number of true masks)"""
        r = 0
        for s, sm in self.sums([(1, m) for m in masks]).items():
            if pred(s):
                r |= sm
        return r

    def members(self, m, limit=None):
        """assignment numbers in the set m"""
        out = []
        while m:
            low = m & -m
            out.append(low.bit_length() - 1)
            m ^= low
            if limit is not None and len(out) >= limit:
                break
        return out


OPS = {"<=": lambda s, k: s <= k, ">=": lambda s, k: s >= k, "<": lambda s, k: s < k, ">": lambda s, k: s > k,
       "==": lambda s, k: s == k, "!=": lambda s, k: s != k}


def formula_table(T, F):
    """set of assignments satisfying the REAL formula object F (CNF or OPB)"""
    r = T.ALL
    if isinstance(F, BaseOPB):
        for c in F:
            c = list(c)
            op, rhs = c[-2], c[-1]
            good = 0
            for s, sm in T.sums([(coef, T.lit(l)) for coef, l in c[:-2]]).items():
                if OPS[op](s, rhs):
                    good |= sm
            r &= good
            if not r:
                break
    else:
        for c in F.clauses():
            r &= T.any(T.lit(l) for l in c)
            if not r:
                break
    return r


def constraints_of(F):
    if isinstance(F, BaseOPB):
        return [[l for _, l in list(c)[:-2]] for c in F]
    return [list(c) for c in F.clauses()]


def assignment_of(a, n):
    return [i for i in range(1, n + 1) if (a >> (i - 1)) & 1]


# ------------------------------------------------------------------ graphs
def mkgraph(n, edges):
    return common.graph_by_some_history(n, edges)


def adjacency(n, edges):
    adj = {v: set() for v in range(1, n + 1)}
    for u, v in edges:
        adj[u].add(v)
        adj[v].add(u)
    return adj


def components(n, edges):
    adj = adjacency(n, edges)
    seen = set()
    comps = []
    for v in range(1, n + 1):
        if v in seen:
            continue
        comp = {v}
        stack = [v]
        while stack:
            x = stack.pop()
            for y in adj[x]:
                if y not in comp:
                    comp.add(y)
                    stack.append(y)
        seen |= comp
        comps.append(comp)
    return comps


def all_graphs(n):
    pairs = list(itertools.combinations(range(1, n + 1), 2))
    for bits in range(1 << len(pairs)):
        yield n, [list(p) for i, p in enumerate(pairs) if (bits >> i) & 1]


def shape_graphs(rng, tier):
    """(name, n, edges) — degenerate shapes first, then random ones"""
    out = []

    def add(name, n, es):
        es = sorted({(min(u, v), max(u, v)) for u, v in es})
        out.append((name, n, [list(e) for e in es]))

    add("null", 0, [])
    for n in (1, 2, 3):
        add("isolated", n, [])
    add("edge", 2, [(1, 2)])
    add("edge+isolated", 4, [(2, 3)])
    for n in (3, 4, 5):
        add("path", n, [(i, i + 1) for i in range(1, n)])
    for n in (3, 4):
        add("star", n + 1, [(i, n + 1) for i in range(1, n + 1)])
    for n in (3, 4, 5, 6):
        add("cycle", n, [(i, i % n + 1) for i in range(1, n + 1)])
    for n in (3, 4, 5):
        add("complete", n, list(itertools.combinations(range(1, n + 1), 2)))
    add("2triangles", 6, [(1, 2), (2, 3), (1, 3), (4, 5), (5, 6), (4, 6)])
    add("triangle+isolated", 5, [(2, 3), (3, 5), (2, 5)])
    add("path+path", 5, [(1, 3), (2, 4), (4, 5)])
    add("C4+C3", 7, [(1, 2), (2, 3), (3, 4), (1, 4), (5, 6), (6, 7), (5, 7)])
    add("bowtie", 5, [(1, 2), (2, 3), (1, 3), (3, 4), (4, 5), (3, 5)])
    add("K33", 6, [(i, j) for i in (1, 2, 3) for j in (4, 5, 6)])
    # random G(n,p), relabelled at random (so that edge order != construction order)
    reps = 24 if tier == "quick" else 80
    for _ in range(reps):
        n = rng.randint(2, 7)
        p = rng.choice([.2, .4, .5, .7])
        add("gnp", n, [(u, v) for u, v in itertools.combinations(range(1, n + 1), 2) if rng.random() < p])
    # Eulerian: random unions of cycles (symmetric difference keeps all degrees even)
    for _ in range(reps // 2):
        n = rng.randint(3, 7)
        es = set()
        for _ in range(rng.randint(1, 3)):
            k = rng.randint(3, n)
            cyc = rng.sample(range(1, n + 1), k)
            for i in range(k):
                e = (min(cyc[i], cyc[(i + 1) % k]), max(cyc[i], cyc[(i + 1) % k]))
                es ^= {e}
        add("eulerian", n, es)
    # >= 10 vertices
    add("path10", 10, [(i, i + 1) for i in range(1, 10)])
    add("cycle12", 12, [(i, i % 12 + 1) for i in range(1, 13)])
    add("star10", 11, [(i, 11) for i in range(1, 11)])
    n = 11
    add("gnp11", n, [(u, v) for u, v in itertools.combinations(range(1, n + 1), 2) if rng.random() < .2])
    n = 13
    add("gnp13", n, [(u, v) for u, v in itertools.combinations(range(1, n + 1), 2) if rng.random() < .15])
    add("K10", 10, list(itertools.combinations(range(1, 11), 2)))
    return out


# ------------------------------------------------------------------ brute-force graph properties
def proper_colourings(n, edges, k):
    cnt = 0
    for col in itertools.product(range(k), repeat=n):
        if all(col[u - 1] != col[v - 1] for u, v in edges):
            cnt += 1
    return cnt


def closed_nbr(adj, v):
    return {v} | adj[v]


def dominating_sets(n, edges, d):
    adj = adjacency(n, edges)
    res = set()
    for bits in range(1 << n):
        S = frozenset(v for v in range(1, n + 1) if (bits >> (v - 1)) & 1)
        if len(S) <= d and all(closed_nbr(adj, v) & S for v in range(1, n + 1)):
            res.add(S)
    return res


def tilings(n, edges):
    adj = adjacency(n, edges)
    res = set()
    for bits in range(1 << n):
        S = frozenset(v for v in range(1, n + 1) if (bits >> (v - 1)) & 1)
        if all(len(closed_nbr(adj, v) & S) == 1 for v in range(1, n + 1)):
            res.add(S)
    return res


# ------------------------------------------------------------------ generic checks
def basic_checks(F, want_vars):
    nv = F.number_of_variables()
    if nv != want_vars:
        return {"documented_variable_count": want_vars, "formula_has": nv}
    for c in constraints_of(F):
        for l in c:
            if not isinstance(l, int) or l == 0 or abs(l) > nv:
                return {"literal_out_of_range": l, "number_of_variables": nv}
    return None


def compare_tables(T, got, want, n, extra=None):
    if got == want:
        return None
    diff = got ^ want
    a = T.members(diff, 1)[0]
    r = {"assignment_true_vars": assignment_of(a, n), "formula_accepts": bool((got >> a) & 1),
         "specification_says": bool((want >> a) & 1)}
    if extra:
        r.update(extra)
    return r


def maxv(tier):
    return 18 if tier == "thorough" else 16


# ------------------------------------------------------------------ the suites
def build(suite, info):
    if suite not in SUITES:
        raise ValueError("unknown suite " + suite)
    n = info["n"]
    edges = [tuple(e) for e in info["edges"]]
    opb = bool(info.get("opb", False))
    klass = OPB if opb else CNF
    cls_tag = 1 if opb else 0
    limit = info.get("maxv", 16)
    genc = [n] + enc_pairs(sorted((min(u, v), max(u, v)) for u, v in edges))
    shape = info.get("shape", "")
    cname = "opb" if opb else "cnf"
    adj = adjacency(n, edges)
    m = len(edges)

    def run(f):
        """runs the real generator; returns (formula, None) or (None, exception)"""
        try:
            return f(), None
        except Exception as e:  # noqa
            return None, e

    if suite == "g1_tseitin":
        ch = info.get("charges")

        def mk():
            return TseitinFormula(mkgraph(n, edges), None if ch is None else list(ch), formula_class=klass)

        def impl():
            return ok(fmt_formula(mk()))

        def oracle():
            F, e = run(mk)
            if F is None:
                return {"raised_on_legal_input": type(e).__name__}
            r = basic_checks(F, m)
            if r:
                return r
            # documented charges: default = odd on first vertex; padded with False; excess ignored; bool cast
            if ch is None:
                charge = {v: (v == 1) for v in range(1, n + 1)}
            else:
                charge = {v: (bool(ch[v - 1]) if v <= len(ch) else False) for v in range(1, n + 1)}
            if m > limit:
                return None
            T = Table(m)
            grp = F._groups[0]
            edge_var = {}
            for x in range(1, m + 1):
                u, v = grp.to_index(x)
                edge_var[frozenset((u, v))] = x
            if set(edge_var) != {frozenset(e) for e in edges}:
                return {"edge_variables_do_not_match_edges": sorted(map(sorted, edge_var))}
            want = T.ALL
            for v in range(1, n + 1):
                par = T.xor(T.var[edge_var[frozenset((u, v))]] for u in adj[v])
                want &= par if charge[v] else T.neg(par)
            got = formula_table(T, F)
            r = compare_tables(T, got, want, m)
            if r:
                return r
            comps = components(n, edges)
            sat_expected = all(sum(1 for v in c if charge[v]) % 2 == 0 for c in comps)
            count = got.bit_count()
            if (count > 0) != sat_expected:
                return {"satisfiable": count > 0, "all_components_even": sat_expected}
            if sat_expected and count != 2 ** (m - n + len(comps)):
                return {"model_count": count, "expected_2^(E-V+c)": 2 ** (m - n + len(comps))}
            return None
        kind = "default" if ch is None else ("short" if len(ch) < n else "long" if len(ch) > n else "exact")
        r = req("tseitin", cls_tag, 0 if ch is None else 1, enc_list([] if ch is None else [int(c) for c in ch]), genc)
        return Case(suite, r, impl, oracle, cls="{}:{}".format(cname, kind), nontrivial=n > 0, info=info)

    if suite == "g1_kcolor":
        k = info["k"]
        fn = bool(info.get("functional", True))

        def mk():
            return GraphColoringFormula(mkgraph(n, edges), k, functional=fn, formula_class=klass)

        def impl():
            return ok(fmt_formula(mk()))

        def oracle():
            F, e = run(mk)
            if k < 0:
                if F is not None or not isinstance(e, ValueError):
                    return {"negative_colours_not_refused_with_ValueError": k}
                return None
            if F is None:
                return {"raised_on_legal_input": type(e).__name__}
            r = basic_checks(F, n * k)
            if r:
                return r
            nv = n * k
            if nv > limit:
                return None
            T = Table(nv)
            grp = F._groups[0]
            var = {}
            for x in range(1, nv + 1):
                var[tuple(grp.to_index(x))] = x
            if set(var) != {(v, c) for v in range(1, n + 1) for c in range(1, k + 1)}:
                return {"colour_variables_do_not_match": sorted(var)}
            want = T.ALL
            for v in range(1, n + 1):
                row = [T.var[var[(v, c)]] for c in range(1, k + 1)]
                want &= T.count_where(row, (lambda s: s == 1) if fn else (lambda s: s >= 1))
            for u, v in edges:
                for c in range(1, k + 1):
                    want &= T.neg(T.var[var[(u, c)]] & T.var[var[(v, c)]])
            got = formula_table(T, F)
            r = compare_tables(T, got, want, nv)
            if r:
                return r
            if k ** n <= 60000:
                pc = proper_colourings(n, edges, k)
                count = got.bit_count()
                if (count > 0) != (pc > 0):
                    return {"satisfiable": count > 0, "proper_colourings": pc}
                if fn and count != pc:
                    return {"model_count": count, "proper_colourings": pc}
            return None
        r = req("kcolor", cls_tag, k, fn, genc)
        return Case(suite, r, impl, oracle, cls="{}:{}:{}".format(cname, "fun" if fn else "nofun", "neg" if k < 0 else "k"),
                    nontrivial=n > 0, info=info)

    if suite == "g1_ecolor":
        def mk():
            return EvenColoringFormula(mkgraph(n, edges), formula_class=klass)

        def impl():
            return ok(fmt_formula(mk()))
        odd = any(len(adj[v]) % 2 == 1 for v in adj)

        def oracle():
            F, e = run(mk)
            if odd:
                if F is not None or not isinstance(e, ValueError):
                    return {"odd_degree_not_refused_with_ValueError": True}
                return None
            if F is None:
                return {"raised_on_legal_input": type(e).__name__}
            r = basic_checks(F, m)
            if r:
                return r
            if m > limit:
                return None
            T = Table(m)
            grp = F._groups[0]
            edge_var = {}
            for x in range(1, m + 1):
                u, v = grp.to_index(x)
                edge_var[frozenset((u, v))] = x
            if set(edge_var) != {frozenset(e) for e in edges}:
                return {"edge_variables_do_not_match_edges": sorted(map(sorted, edge_var))}
            want = T.ALL
            for v in range(1, n + 1):
                inc = [T.var[edge_var[frozenset((u, v))]] for u in adj[v]]
                half = len(adj[v]) // 2
                want &= T.count_where(inc, lambda s: s == half)
            got = formula_table(T, F)
            r = compare_tables(T, got, want, m)
            if r:
                return r
            comps = components(n, edges)
            even = all(sum(1 for u, v in edges if u in c) % 2 == 0 for c in comps)
            if (got != 0) != even:
                return {"satisfiable": got != 0, "every_component_has_even_number_of_edges": even}
            return None
        r = req("ecolor", cls_tag, genc)
        return Case(suite, r, impl, oracle, cls="{}:{}".format(cname, "odd" if odd else "even"), nontrivial=n > 0, info=info)

    if suite == "g1_domset":
        d = info["d"]
        alt = bool(info.get("alternative", False))

        def mk():
            return DominatingSet(mkgraph(n, edges), d, alternative=alt, formula_class=klass)

        def impl():
            return ok(fmt_formula(mk()))

        def oracle():
            F, e = run(mk)
            if d < 1:
                if F is not None or not isinstance(e, ValueError):
                    return {"non_positive_d_not_refused_with_ValueError": d}
                return None
            if F is None:
                return {"raised_on_legal_input": type(e).__name__}
            nv = n + n * d
            r = basic_checks(F, nv)
            if r:
                return r
            if nv > limit:
                return None
            T = Table(nv)
            Dg, Mg = F._groups[0], F._groups[1]
            D, M = {}, {}
            for x in range(1, nv + 1):
                if x in Dg:
                    D[tuple(Dg.to_index(x))[0]] = x
                else:
                    M[tuple(Mg.to_index(x))] = x
            if set(D) != set(range(1, n + 1)) or set(M) != {(v, i) for v in range(1, n + 1) for i in range(1, d + 1)}:
                return {"variables_do_not_match": [sorted(D), sorted(M)]}
            Dm = {v: T.var[D[v]] for v in D}
            Mm = {vi: T.var[M[vi]] for vi in M}
            want = T.ALL
            if alt:
                # active vertices have pairwise different single indices
                for u, v in itertools.combinations(range(1, n + 1), 2):
                    for i in range(1, d + 1):
                        want &= T.neg(Dm[u] & Dm[v] & Mm[(u, i)] & Mm[(v, i)])
                for v in range(1, n + 1):
                    for i, j in itertools.combinations(range(1, d + 1), 2):
                        want &= T.neg(Dm[v] & Mm[(v, i)] & Mm[(v, j)])
                for v in range(1, n + 1):
                    want &= T.neg(Dm[v]) | T.any(Mm[(v, i)] for i in range(1, d + 1))
            else:
                # M is an injective, order-preserving relation whose domain is D
                for i in range(1, d + 1):
                    want &= T.count_where([Mm[(v, i)] for v in range(1, n + 1)], lambda s: s <= 1)
                for u1, u2 in itertools.combinations(range(1, n + 1), 2):
                    for v1 in range(1, d + 1):
                        for v2 in range(1, v1):
                            want &= T.neg(Mm[(u1, v1)] & Mm[(u2, v2)])
                for v in range(1, n + 1):
                    want &= T.iff(Dm[v], T.any(Mm[(v, i)] for i in range(1, d + 1)))
            for v in range(1, n + 1):
                want &= T.any(Dm[u] for u in closed_nbr(adj, v))
            got = formula_table(T, F)
            r = compare_tables(T, got, want, nv)
            if r:
                return r
            ds = dominating_sets(n, edges, d)
            if (got != 0) != (len(ds) > 0):
                return {"satisfiable": got != 0, "dominating_sets_of_size_at_most_d": len(ds)}
            # the D-part of the models is exactly the set of dominating sets of size <= d
            if got.bit_count() <= 20000:
                proj = set()
                for a in T.members(got):
                    proj.add(frozenset(v for v in range(1, n + 1) if (a >> (D[v] - 1)) & 1))
                if proj != ds:
                    bad = sorted(map(sorted, proj ^ ds))[0]
                    return {"D_projection_of_models_differs_from_dominating_sets": bad, "in_models": frozenset(bad) in proj}
            return None
        r = req("domset", cls_tag, d, alt, genc)
        return Case(suite, r, impl, oracle, cls="{}:{}:{}".format(cname, "alt" if alt else "std", "bad_d" if d < 1 else "d"),
                    nontrivial=n > 0, info=info)

    if suite == "g1_tiling":
        def mk():
            return Tiling(mkgraph(n, edges), formula_class=klass)

        def impl():
            return ok(fmt_formula(mk()))

        def oracle():
            F, e = run(mk)
            if F is None:
                return {"raised_on_legal_input": type(e).__name__}
            r = basic_checks(F, n)
            if r:
                return r
            if n > limit:
                return None
            T = Table(n)
            grp = F._groups[0]
            x = {}
            for i in range(1, n + 1):
                x[tuple(grp.to_index(i))[0]] = i
            if set(x) != set(range(1, n + 1)):
                return {"variables_do_not_match": sorted(x)}
            want = T.ALL
            for v in range(1, n + 1):
                want &= T.count_where([T.var[x[u]] for u in closed_nbr(adj, v)], lambda s: s == 1)
            got = formula_table(T, F)
            r = compare_tables(T, got, want, n)
            if r:
                return r
            if n <= 14:
                tl = tilings(n, edges)
                if got.bit_count() != len(tl):
                    return {"model_count": got.bit_count(), "tilings": len(tl)}
            return None
        r = req("tiling", cls_tag, genc)
        return Case(suite, r, impl, oracle, cls=cname, nontrivial=n > 0, info=info)

    if suite == "g1_uniqnbr":
        def impl():
            ls = unique_neighborhoods(mkgraph(n, edges))
            out = [str(len(ls))]
            for l in ls:
                out.append(str(len(l)))
                out += [str(x) for x in l]
            return ok(" ".join(out))

        def oracle():
            ls = [list(l) for l in unique_neighborhoods(mkgraph(n, edges))]
            want = sorted({tuple(sorted(closed_nbr(adj, v))) for v in range(1, n + 1)})
            if [tuple(l) for l in ls] != want:
                return {"unique_neighborhoods": ls, "documented": [list(w) for w in want]}
            return None
        r = req("uniqnbr", genc)
        return Case(suite, r, impl, oracle, cls="", nontrivial=n > 0, info=info)
    raise ValueError("unknown suite " + suite)


# ------------------------------------------------------------------ generators
def charge_vectors(rng, n):
    out = [None, [0] * n, [1] * n, [rng.choice([0, 1]) for _ in range(n)],
           [rng.choice([0, 1, 2, -1]) for _ in range(n)]]                           # non-boolean: bool() cast
    if n > 0:
        out.append([rng.choice([0, 1]) for _ in range(rng.randint(0, n - 1))])        # too short
    out.append([rng.choice([0, 1]) for _ in range(n + rng.randint(1, 3))])          # too long
    return out


def infos_for_graph(rng, tier, shape, n, edges, full):
    """full = every parameter value (small graphs); otherwise a random selection"""
    mv = maxv(tier)
    base = dict(n=n, edges=edges, shape=shape, maxv=mv)
    out = []
    both = (False, True)
    # Tseitin
    chs = charge_vectors(rng, n)
    if not full:
        chs = [chs[0]] + rng.sample(chs[1:], 2)
    for ch in chs:
        for opb in (both if full else (rng.random() < .5,)):
            out.append(("g1_tseitin", dict(base, charges=None if ch is None else [int(c) for c in ch], opb=opb)))
    # colouring
    ks = list(range(-1, n + 2)) if full else sorted({0, rng.randint(1, 3), rng.randint(1, n + 1)})
    for k in ks:
        for fn in (both if full else (rng.random() < .6,)):
            for opb in (both if full else (rng.random() < .5,)):
                out.append(("g1_kcolor", dict(base, k=k, functional=fn, opb=opb)))
    # even colouring, tiling, unique neighbourhoods
    for opb in both:
        out.append(("g1_ecolor", dict(base, opb=opb)))
        out.append(("g1_tiling", dict(base, opb=opb)))
    out.append(("g1_uniqnbr", dict(base)))
    # dominating set
    ds = list(range(0, n + 2)) if full else sorted({1, rng.randint(1, 3), rng.randint(0, n + 1)})
    for d in ds:
        for alt in (both if full else (rng.random() < .5,)):
            for opb in (both if full else (rng.random() < .5,)):
                out.append(("g1_domset", dict(base, d=d, alternative=alt, opb=opb)))
    return out


CORPUS = [
    # boundary cases that are always run first
    ("g1_tseitin", dict(n=0, edges=[], charges=None)),
    ("g1_tseitin", dict(n=1, edges=[], charges=None)),                 # isolated vertex with odd charge: unsat
    ("g1_tseitin", dict(n=3, edges=[[1, 2]], charges=[0, 0, 1])),      # odd isolated vertex in a disconnected graph
    ("g1_tseitin", dict(n=4, edges=[[1, 2], [3, 4]], charges=[1, 1, 1, 1])),
    ("g1_tseitin", dict(n=4, edges=[[1, 2], [3, 4]], charges=[1, 0, 1, 0])),
    ("g1_tseitin", dict(n=3, edges=[[1, 2], [2, 3], [1, 3]], charges=[2, -1, 0, 1, 1])),
    ("g1_kcolor", dict(n=3, edges=[[1, 2], [2, 3], [1, 3]], k=2)),
    ("g1_kcolor", dict(n=3, edges=[[1, 2], [2, 3], [1, 3]], k=3)),
    ("g1_kcolor", dict(n=2, edges=[[1, 2]], k=0)),
    ("g1_kcolor", dict(n=0, edges=[], k=0)),
    ("g1_kcolor", dict(n=2, edges=[[1, 2]], k=-1)),
    ("g1_kcolor", dict(n=3, edges=[[1, 3]], k=2, functional=False)),
    ("g1_ecolor", dict(n=3, edges=[[1, 2], [2, 3], [1, 3]])),          # odd cycle: unsat
    ("g1_ecolor", dict(n=4, edges=[[1, 2], [2, 3], [3, 4], [1, 4]])),
    ("g1_ecolor", dict(n=2, edges=[[1, 2]])),                          # odd degree: ValueError
    ("g1_ecolor", dict(n=7, edges=[[1, 2], [2, 3], [3, 4], [1, 4], [5, 6], [6, 7], [5, 7]])),
    ("g1_domset", dict(n=0, edges=[], d=1)),
    ("g1_domset", dict(n=3, edges=[], d=2)),
    ("g1_domset", dict(n=3, edges=[], d=3)),
    ("g1_domset", dict(n=4, edges=[[1, 2], [3, 4]], d=1)),
    ("g1_domset", dict(n=4, edges=[[1, 2], [3, 4]], d=2)),
    ("g1_domset", dict(n=4, edges=[[1, 2], [3, 4]], d=2, alternative=True)),
    ("g1_domset", dict(n=3, edges=[[1, 2]], d=0)),
    ("g1_tiling", dict(n=3, edges=[[1, 2], [2, 3]])),
    ("g1_tiling", dict(n=4, edges=[[1, 2], [2, 3], [3, 4], [1, 4]])),
    ("g1_tiling", dict(n=0, edges=[])),
    ("g1_uniqnbr", dict(n=4, edges=[[1, 2], [1, 3], [2, 3]])),
]


def cases(ctx):
    tier, seed = ctx["tier"], ctx["seed"]
    rng = common.sub_rng(seed, "C02_graphs1")
    mv = maxv(tier)
    infos = []
    for suite, info in CORPUS:
        for opb in (False, True):
            if suite == "g1_uniqnbr" and opb:
                continue
            infos.append((suite, dict(info, opb=opb, maxv=mv, shape="corpus")))
    for shape, n, edges in shape_graphs(rng, tier):
        full = n <= 4 and shape != "gnp"
        infos += infos_for_graph(rng, tier, shape, n, edges, full)
    for nn in range(0, 5):
        for n, edges in all_graphs(nn):
            infos += infos_for_graph(rng, tier, "all<=4", n, edges, True)
    if tier == "thorough":
        for n, edges in all_graphs(5):
            infos += infos_for_graph(rng, tier, "all5", n, edges, False)
        six = list(itertools.combinations(range(1, 7), 2))
        for _ in range(300):
            edges = [list(e) for e in six if rng.random() < rng.choice([.2, .5, .8])]
            infos += infos_for_graph(rng, tier, "some6", 6, edges, False)
    seen = set()
    for suite, info in infos:
        c = build(suite, info)
        if c.req in seen:
            continue
        seen.add(c.req)
        yield c


_search_cache = {}


def search(ctx, case):
    """the correspondence broke on `case`: evaluate the property itself on the real code for this
    input and for every graph with at most 4 vertices (same suite, full parameter grid)"""
    r = common.run_oracle(case)
    if r is not None:
        return {"suite": case.suite, "info": case.info, "failure": r}
    if case.suite in _search_cache:
        return _search_cache[case.suite]
    rng = common.sub_rng(ctx["seed"], "C02_graphs1_search")
    found = None
    for nn in range(0, 5):
        for n, edges in all_graphs(nn):
            for suite, info in infos_for_graph(rng, "thorough", "search", n, edges, True):
                if suite != case.suite:
                    continue
                c = build(suite, info)
                r = common.run_oracle(c)
                if r is not None:
                    found = {"suite": suite, "info": info, "failure": r}
                    break
            if found:
                break
        if found:
            break
    _search_cache[case.suite] = found
    return found


def search_global(ctx):
    rng = common.sub_rng(ctx["seed"], "C02_graphs1_search")
    for nn in range(0, 4):
        for n, edges in all_graphs(nn):
            for suite, info in infos_for_graph(rng, "quick", "search", n, edges, True):
                c = build(suite, info)
                r = common.run_oracle(c)
                if r is not None:
                    return {"suite": suite, "info": info, "failure": r}
    return None
