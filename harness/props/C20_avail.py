"""C20 (availability histories) — the set of installed solvers CHANGES between calls made by one process.

C20.py gives every configuration (set of installed solvers) a PATH directory of its own, so each call meets a
search path it has never seen.  Here one process keeps ONE search path — the same PATH string throughout, one or
two private directories — and the directories' contents change between the calls:

    a solver is installed after a call that did not find it; removed after a call that used it; moved from the
    second directory to the first and back; present but not executable, then made executable (and the reverse);
    replaced by a solver of the same name; everything removed; everything installed

After every change solve() / is_satisfiable() / some_solver_installed() are asked again, with cmd=None (pick the
first installed one), with the name that just changed, with a name that did not, with `sameas`.
Each step is one case:
  correspondence — `select` request of the model for (cmd, sameas, what is installed NOW) vs the invocation the fake
                   solver recorded in this step;
  oracle         — the property for what is reachable NOW, whatever the earlier steps saw: a verdict that the truth
                   table confirms (witness ordered, satisfying) from the first installed solver in the order of
                   supported_satsolvers() / from the named one; RuntimeError when the needed solver is not there
                   (and no process started); ValueError for an unknown `sameas`; some_solver_installed() says
                   whether one is; no temporary file left behind.
"""
import json
import os
import shutil
import tempfile

from harness import common
from harness.common import Case
from harness import fake_solver
from harness.props import C20 as H

from cnfgen.utils import solver as real_solver

RULE = ("histories of 4..10 steps over one unchanged PATH (one or two directories): install / remove / move between "
        "directories / chmod -x / chmod +x / replace / remove all / install all, a call after every step (cmd None, "
        "changed name, other name, with options, sameas; solve, is_satisfiable, some_solver_installed); one case per "
        "step; distinct = distinct (history, step)")
NOTES = ["avail: the PATH string never changes inside a history; only the directories' contents do"]

SUPPORTED = H.SUPPORTED
NAMES = list(H.SELECT_NAMES)
_HIST = {}


def all_names():
    # the first names of the table matter most for the automatic choice
    return list(dict.fromkeys(SUPPORTED[:2] + NAMES + SUPPORTED[-1:]))


class World:
    """two private directories on one PATH; state[name] = (directory index, executable?)"""

    def __init__(self, two):
        base = H.SANDBOX.ensure()
        self.root = tempfile.mkdtemp(prefix="avail-", dir=base)
        self.dirs = [os.path.join(self.root, "first"), os.path.join(self.root, "second")][:2 if two else 1]
        for d in self.dirs:
            os.mkdir(d)
        self.path = os.pathsep.join(self.dirs)
        self.src = open(fake_solver.__file__).read()
        self.state = {}

    def installed(self):
        """names a process start would find now, through this PATH"""
        return [n for n, (d, x) in self.state.items() if x]

    def apply(self, op):
        kind, name = op[0], op[1] if len(op) > 1 else None
        if kind == "install":
            self._put(name, op[2] if len(op) > 2 else 0, True)
        elif kind == "remove":
            self._del(name)
        elif kind == "move":
            if name in self.state and len(self.dirs) > 1:
                d, x = self.state[name]
                self._del(name)
                self._put(name, 1 - d, x)
        elif kind == "chmod-x":
            if name in self.state:
                d, _ = self.state[name]
                os.chmod(os.path.join(self.dirs[d], name), 0o644)
                self.state[name] = (d, False)
        elif kind == "chmod+x":
            if name in self.state:
                d, _ = self.state[name]
                os.chmod(os.path.join(self.dirs[d], name), 0o755)
                self.state[name] = (d, True)
        elif kind == "replace":
            if name in self.state:
                d, x = self.state[name]
                self._del(name)
                self._put(name, d, x)
        elif kind == "remove-all":
            for n in list(self.state):
                self._del(n)
        elif kind == "install-all":
            for n in all_names():
                if n not in self.state:
                    self._put(n, 0, True)

    def _put(self, name, d, x):
        if name in self.state:
            self._del(name)
        d = min(d, len(self.dirs) - 1)
        p = os.path.join(self.dirs[d], name)
        with open(p, "w") as fh:
            fh.write(self.src)
        os.chmod(p, 0o755 if x else 0o644)
        self.state[name] = (d, x)

    def _del(self, name):
        if name in self.state:
            d, _ = self.state.pop(name)
            os.unlink(os.path.join(self.dirs[d], name))

    def reset_logs(self):
        for d in self.dirs:
            with open(os.path.join(d, "config.json"), "w") as fh:
                json.dump({}, fh)
            lp = os.path.join(d, "log.jsonl")
            if os.path.exists(lp):
                os.unlink(lp)

    def logs(self):
        out = []
        for d in self.dirs:
            lp = os.path.join(d, "log.jsonl")
            if os.path.exists(lp):
                out += [json.loads(l) for l in open(lp)]
        return out

    def close(self):
        shutil.rmtree(self.root, ignore_errors=True)


def run_history(hist):
    """runs the whole history once in this process; returns the list of per-step observations"""
    key = json.dumps(hist, sort_keys=True)
    if key in _HIST:
        return _HIST[key]
    W = World(hist.get("two", False))
    tmp = H.SANDBOX.tmp
    F = H.make_formula(hist["formula"])
    saved_path, saved_tmpdir, saved_env_tmp = os.environ.get("PATH"), tempfile.tempdir, os.environ.get("TMPDIR")
    os.environ["PATH"] = W.path
    os.environ["TMPDIR"] = tmp
    tempfile.tempdir = tmp
    obs = []
    try:
        for st in hist["steps"]:
            for op in st["ops"]:
                W.apply(op)
            inst = W.installed()
            W.reset_logs()
            before = sorted(os.listdir(tmp))
            cmd, sameas = st.get("cmd"), st.get("sameas")
            o = {"installed": sorted(inst), "path": os.environ["PATH"]}
            o["probe"] = H.outcome(lambda: real_solver.some_solver_installed())
            if cmd is not None and cmd.split():
                o["probe_named"] = H.outcome(lambda: real_solver.some_solver_installed(cmd.split()[0]))
            W.reset_logs()
            if st.get("call") == "issat":
                r = H.outcome(lambda: F.is_satisfiable(cmd=cmd, sameas=sameas))
                if r[0] == "ok" and isinstance(r[1], tuple):
                    r = ["ok", list(r[1])]
                o["issat"] = r
            else:
                o["solve"] = H.outcome(lambda: F.solve(cmd=cmd, sameas=sameas))
            o["log"] = W.logs()
            after = sorted(os.listdir(tmp))
            o["leak"] = [f for f in after if f not in before]
            for f in o["leak"]:
                p = os.path.join(tmp, f)
                shutil.rmtree(p, ignore_errors=True) if os.path.isdir(p) else os.unlink(p)
            obs.append(o)
    finally:
        if saved_path is None:
            os.environ.pop("PATH", None)
        else:
            os.environ["PATH"] = saved_path
        if saved_env_tmp is None:
            os.environ.pop("TMPDIR", None)
        else:
            os.environ["TMPDIR"] = saved_env_tmp
        tempfile.tempdir = saved_tmpdir
        W.close()
    _HIST[key] = obs
    return obs


def installed_after(hist, i):
    """the installed set at step i, computed from the operations alone (no file system)"""
    state = {}
    two = hist.get("two", False)
    for st in hist["steps"][:i + 1]:
        for op in st["ops"]:
            kind, name = op[0], op[1] if len(op) > 1 else None
            if kind == "install":
                state[name] = True
            elif kind == "remove":
                state.pop(name, None)
            elif kind == "chmod-x" and name in state:
                state[name] = False
            elif kind == "chmod+x" and name in state:
                state[name] = True
            elif kind == "remove-all":
                state = {}
            elif kind == "install-all":
                for n in all_names():
                    state.setdefault(n, True)
            elif kind == "move" and not two:
                pass
    return sorted(n for n, x in state.items() if x)


def step_case(hist, i):
    st = hist["steps"][i]
    cmd, sameas = st.get("cmd"), st.get("sameas")
    inst = installed_after(hist, i)
    fd = hist["formula"]
    first = cmd.split()[0] if cmd is not None and cmd.split() else None
    if sameas is not None and sameas not in SUPPORTED:
        label, want = "unknown-sameas", "ValueError"
    elif first is None:
        label, want = ("auto", None) if any(n in inst for n in SUPPORTED) else ("none-installed", "RuntimeError")
    elif first not in SUPPORTED and sameas is None:
        label, want = "unsupported", "RuntimeError"
    elif first not in inst:
        label, want = "not-installed", "RuntimeError"
    else:
        label, want = ("sameas" if sameas is not None else "named"), None
    what = "issat" if st.get("call") == "issat" else "solve"
    prev = installed_after(hist, i - 1) if i else []
    delta = "+" if set(inst) - set(prev) else ""
    delta += "-" if set(prev) - set(inst) else ""

    def view(o):
        return {"solve": o[what] if what == "solve" else (o[what] if o[what][0] == "err" else ["ok", (True, None)]), "log": o["log"]}

    def impl():
        o = run_history(hist)[i]
        return H.observed_selection(view(o))

    def oracle():
        o = run_history(hist)[i]
        ctx = {"step": i, "ops_of_this_step": st["ops"], "installed_now": inst, "installed_before": prev, "cmd": cmd,
               "sameas": sameas, "call": what, "PATH_unchanged": True}
        if o["installed"] != inst:
            return None            # the file system did not follow the script (should not happen): no verdict
        if o["leak"]:
            return dict(ctx, temporary_files_left_behind=o["leak"])
        r = o[what]
        v = verdict(o, r, ctx)
        if v is not None:
            return v
        # the availability test itself (asked right before the call of this step)
        anyinst = any(n in inst for n in SUPPORTED)
        if o["probe"] != ["ok", anyinst]:
            return dict(ctx, some_solver_installed=o["probe"], expected=anyinst)
        if "probe_named" in o and first in SUPPORTED and o["probe_named"] != ["ok", first in inst]:
            return dict(ctx, some_solver_installed_named=o["probe_named"], name=first, expected=first in inst)
        return None

    def verdict(o, r, ctx):
        if want is not None:
            if r != ["err", want]:
                return dict(ctx, expected=want, observed=r, situation=label)
            if o["log"]:
                return dict(ctx, a_solver_was_started_although=label)
            return None
        if r[0] != "ok":
            return dict(ctx, expected="a verdict: a supported solver is reachable", observed=r, situation=label)
        sat = H.truth_table_sat(fd["n"], fd["clauses"])
        if what == "issat":
            got = r[1][0] if isinstance(r[1], (list, tuple)) else r[1]
            if got is not sat:
                return dict(ctx, wrong_answer=r[1], formula=fd)
        else:
            b, w = r[1]
            if b != sat or (sat and H.witness_problem(fd["n"], fd["clauses"], w)) or (not sat and w is not None):
                return dict(ctx, wrong_answer=[b, w], formula=fd)
        if len(o["log"]) != 1:
            return dict(ctx, solver_starts=len(o["log"]), expected_starts=1)
        rec = o["log"][0]
        args = rec["argv"][:len(rec["argv"]) - rec["nfiles"]] if rec["nfiles"] else rec["argv"]
        if first is None:
            expect = [n for n in SUPPORTED if n in inst][0]
            if rec["name"] != expect or args:
                return dict(ctx, expected_solver=expect, started=[rec["name"]] + args)
        elif [rec["name"]] + args != cmd.split():
            return dict(ctx, expected_command=cmd.split(), started=[rec["name"]] + args)
        return None
    return Case("avail", H.select_req(cmd, sameas, inst), impl, oracle, cls=label + ":" + (delta or "="), nontrivial=True,
                info={"hist": hist, "step": i})


def build(suite, info):
    if suite != "avail":
        raise ValueError("unknown suite " + suite)
    return step_case(info["hist"], info["step"])


FORMULAS = [{"n": 2, "clauses": [[1, 2], [-1]]}, {"n": 2, "clauses": [[1, 2], [1, -2], [-1, 2], [-1, -2]]},
            {"n": 3, "clauses": [[1, -2], [2, 3], [-1, -3]]}, {"n": 0, "clauses": []}, {"n": 1, "clauses": [[]]}]


def call_for(rng, changed, inst_guess):
    """(cmd, sameas, call) — aimed at the name that just changed, or at the automatic choice"""
    names = all_names()
    k = rng.random()
    other = rng.choice(names)
    if k < .35:
        cmd, sameas = None, None
    elif k < .7 and changed:
        cmd, sameas = changed + rng.choice(["", "", " --opt -k"]), None
    elif k < .8:
        cmd, sameas = other, None
    elif k < .9 and changed:
        cmd, sameas = changed, rng.choice(SUPPORTED)
    else:
        cmd, sameas = rng.choice([None, other]), rng.choice([None, "nosuch", SUPPORTED[0]])
    return cmd, sameas, ("issat" if rng.random() < .25 else "solve")


def fixed_histories():
    """the plain stories, for every supported name: absent -> looked up -> installed -> used -> removed -> looked up"""
    out = []
    for j, name in enumerate(all_names()):
        fd = FORMULAS[j % 3]
        last = SUPPORTED[-1] if SUPPORTED[-1] != name else SUPPORTED[-2]
        out.append({"formula": fd, "two": False, "steps": [
            {"ops": [], "cmd": name, "sameas": None},
            {"ops": [], "cmd": None, "sameas": None},
            {"ops": [["install", name]], "cmd": name, "sameas": None},
            {"ops": [], "cmd": None, "sameas": None},
            {"ops": [["remove", name]], "cmd": name, "sameas": None},
            {"ops": [], "cmd": None, "sameas": None, "call": "issat"},
            {"ops": [["install", name]], "cmd": None, "sameas": None},
        ]})
        # the first solver of the table goes away while another one stays; later it comes back
        out.append({"formula": fd, "two": j % 2 == 1, "steps": [
            {"ops": [["install", name], ["install", last, 1]], "cmd": None, "sameas": None},
            {"ops": [["remove", name]], "cmd": None, "sameas": None},
            {"ops": [], "cmd": name + " --opt", "sameas": None},
            {"ops": [["install", name, 1]], "cmd": None, "sameas": None, "call": "issat"},
            {"ops": [["remove", last]], "cmd": last, "sameas": None},
            {"ops": [["chmod-x", name]], "cmd": None, "sameas": None},
            {"ops": [["chmod+x", name]], "cmd": name, "sameas": None},
        ]})
    return out


def random_history(rng):
    names = all_names()
    two = rng.random() < .4
    steps = []
    present = set()
    for _ in range(rng.randint(4, 10)):
        k = rng.random()
        changed = None
        if k < .3 or not present:
            changed = rng.choice(names)
            ops = [["install", changed, rng.randint(0, 1)]]
            present.add(changed)
        elif k < .55:
            changed = rng.choice(sorted(present))
            ops = [["remove", changed]]
            present.discard(changed)
        elif k < .65:
            changed = rng.choice(sorted(present))
            ops = [["move", changed]]
        elif k < .75:
            changed = rng.choice(sorted(present))
            ops = [[rng.choice(["chmod-x", "chmod+x"]), changed]]
        elif k < .8:
            changed = rng.choice(sorted(present))
            ops = [["replace", changed]]
        elif k < .87:
            ops = [["remove-all"]]
            present = set()
        elif k < .92:
            ops = [["install-all"]]
            present = set(names)
        else:
            ops = []
        cmd, sameas, call = call_for(rng, changed, present)
        steps.append({"ops": ops, "cmd": cmd, "sameas": sameas, "call": call})
    return {"formula": rng.choice(FORMULAS), "two": two, "steps": steps}


def cases(ctx):
    tier, seed = ctx["tier"], ctx["seed"]
    rng = common.sub_rng(seed, "C20", "avail")
    hists = fixed_histories()
    if tier != "thorough":
        keep = hists[:4] + rng.sample(hists[4:], min(4, len(hists) - 4))
        hists = keep
    for _ in range(200 if tier == "thorough" else 14):
        hists.append(random_history(rng))
    out = []
    for h in hists:
        for i in range(len(h["steps"])):
            out.append(step_case(h, i))
    return out
