"""C13 — random k-CNF / k-XOR have exactly the promised shape (+ the reseeding part of C07).

Correspondence (recorded-draw replay): a proxy standing in for the `random` module *inside the
modules under test* (cnfgen.families.randomformulas / randomkxor, cnfgen.clihelpers.simple_helpers;
harness process only) records every call of seed / sample / choice / randint made by the real
code, as (request, answer) pairs in call order.  The recorded draws are sent to the Lean model
(`Rand.randomKCNFInt`, `Rand.randomKXORSysInt`, `Rand.cliRandKCNF`, …), whose output — the exact
clause list, the parity system, the number of unconsumed draws, or the exception kind — must
coincide with what the real code returned.

Draw sources: (a) the real Mersenne twister (seed= argument, or the global generator seeded by the
harness before the call); (b) *scripted* generators: the proxy repeats the answers of the previous
loop iteration with some probability.  Scripted answers are legal answers (k distinct positions,
an element of the sequence, an integer within bounds), i.e. inside the quantifier of the theorems,
and they push the rejection loop over its 10*m budget so that the dense path is reached on tiny
instances deterministically.  Large k=1/k=2 instances with planted assignments reach the dense
path with the real generator as well.

Oracle (independent of the model, on the real result): exactly n variables, m clauses, pairwise
distinct as sets, k distinct variables each within 1..n, every planted assignment satisfies every
clause; XOR: m distinct parities over k distinct variables, all satisfied by the planted
assignments, and the truth table of the produced CNF equals the solution set of that system
(<= 14 variables); ValueError exactly when k > n or m > #compatible clauses (parities), the latter
counted by brute force here.
Suite "reseed": the real generator is called twice with the same seed= argument, the global
generator being perturbed and the generator called with another seed in between; the two formulas must be
identical.  Also under scripted generators (re-created per call, so a function of the seed): there the
retry budget is exhausted and the DENSE fallback is what runs twice, with and without planted assignments.
The runner's second pass (every case again, in reverse order) executes the generator again as well.
"""
import itertools
import random as _real_random
from argparse import Namespace

from harness import common
from harness.common import Case, req, enc_list, ok, fmt_formula, sub_rng

import cnfgen.families.randomformulas as RF
import cnfgen.families.randomkxor as RX
import cnfgen.clihelpers.simple_helpers as SH
from cnfgen.formula.cnf import CNF
from cnfgen.formula.opb import OPB
from cnfgen.clitools.cnfgen import cli as cnfgen_cli
from cnfgen.clitools.cmdline import CLIError

RULE = ("grids over (k,n,m) with k in 0..4, n in 0..7, m in {0,1,2,max/2,max-1,max,max+1,max+3} where max = number of "
        "clauses/parities compatible with the planted set (0-3 total assignments, incl. duplicates and complementary pairs); "
        "draws from the real generator (seed= or harness-seeded global state) and from scripted legal generators that "
        "exhaust the 10*m retry budget; large k=1/k=2 planted instances that reach the dense path with real seeds; "
        "distinct = distinct request line (includes the recorded draws); non-trivial = m > 0")
ASSUMPTIONS = [
    "Draw.Legal: random.sample(pop,k) returns the elements at k distinct positions of pop, random.choice(seq) an element "
    "of seq, random.randint(a,b) an integer in [a,b] (the documented contract of Python's random module)",
    "random.seed(s) puts the generator into a state that depends on s only (sigma in the model)",
    "planted assignments are total over 1..n (the property's quantifier); for RandomKCNF the theorems need no such hypothesis",
]
TRUSTED_EXTRA = ["recording proxy for the `random` names resolved by the modules under test (harness/props/C13.py)"]
NOTES = ["scripted generators are labelled cls=…:script; every other case draws from CPython's Mersenne twister"]

MODULES = (RF, RX, SH)
SYS_MAXSIZE = 2 ** 63 - 1       # the model's `sysMaxsize`; the huge suite asserts it equals sys.maxsize


# ------------------------------------------------------------------ recording proxy
class RecordingRandom:
    """stands in for the module `random` inside the modules under test"""

    def __init__(self, script=None):
        self.events = []          # ("seed", s) | ("sample", n, k, idx) | ("choice", len, i) | ("randint", a, b, v)
        self.script = script      # None or {"p": float, "rng": Rng}
        self.iter_prev = []       # answers of the previous loop iteration (scripted mode)
        self.iter_cur = []
        self.replaying = False
        self.pos = 0
        self.unknown = []
        self.bigvals = []         # answers given to randint(1, n) with n > sys.maxsize (scripted "dup" mode)

    def _dup(self):
        return self.script is not None and self.script.get("dup") is not None

    # -- helpers
    def _scripted(self, shape):
        """answer recorded at the same position of the previous iteration, if its request has the same shape"""
        if self.replaying and self.pos < len(self.iter_prev) and self.iter_prev[self.pos][0] == shape:
            return self.iter_prev[self.pos][1]
        self.replaying = False
        return None

    def seed(self, a=None, *rest, **kw):
        self.events.append(("seed", a))
        return _real_random.seed(a, *rest, **kw)

    def sample(self, population, k, **kw):
        n = len(population)
        shape = ("sample", n, k)
        if self.script is not None:
            # a sample call opens a loop iteration
            self.iter_prev, self.iter_cur, self.pos = self.iter_cur, [], 0
            self.replaying = bool(self.iter_prev) and self.script["rng"].random() < self.script["p"]
        idx = self._scripted(shape) if self.script is not None else None
        if idx is None:
            st = _real_random.getstate()
            res = _real_random.sample(population, k, **kw)      # raises ValueError like the real thing
            _real_random.setstate(st)
            idx = _real_random.sample(range(n), k)
            if [population[i] for i in idx] != list(res):
                raise RuntimeError("harness: random.sample is not positional")
        else:
            res = [population[i] for i in idx]
        self.events.append(("sample", n, k, list(idx)))
        self.iter_cur.append((shape, list(idx)))
        self.pos += 1
        return res

    def choice(self, seq):
        n = len(seq)
        shape = ("choice", n)
        i = self._scripted(shape) if self.script is not None else None
        if i is None and self._dup() and n > 0 and self.script["rng"].random() < self.script["dup"]:
            i = 0                 # legal: a position of seq
        if i is None:
            v = _real_random.choice(seq)
            i = next(j for j, x in enumerate(seq) if x is v or x == v)
        self.events.append(("choice", n, i))
        self.iter_cur.append((shape, i))
        self.pos += 1
        return seq[i]

    def randint(self, a, b):
        shape = ("randint", a, b)
        v = self._scripted(shape) if self.script is not None else None
        if v is None and self._dup() and a <= b:
            # legal answers (within [a, b]) that REPEAT: the rejection loop of sample_variables beyond sys.maxsize
            # sees a value it already has, and the clause/parity loop sees a candidate it already has
            if a == 1 and b > SYS_MAXSIZE:
                if self.bigvals and self.script["rng"].random() < self.script["dup"]:
                    v = self.script["rng"].choice(self.bigvals)
            elif self.script["rng"].random() < self.script["dup"]:
                v = a
        if v is None:
            v = _real_random.randint(a, b)
        if a == 1 and b > SYS_MAXSIZE and v not in self.bigvals:
            self.bigvals.append(v)
        self.events.append(("randint", a, b, v))
        self.iter_cur.append((shape, v))
        self.pos += 1
        return v

    def __getattr__(self, name):
        # anything else the code might call: delegated, and flagged (the model knows nothing about it)
        self.unknown.append(name)
        return getattr(_real_random, name)


class Patched:
    def __init__(self, proxy):
        self.proxy = proxy
        self.saved = []
        self.captured = {}

    def __enter__(self):
        for mod in MODULES:
            self.saved.append((mod, "random", mod.random))
            mod.random = self.proxy
        # observe (not alter) the parity system RandomKXOR encodes
        orig = RX.sample_parities
        cap = self.captured

        def spy(*a, **kw):
            res = orig(*a, **kw)
            cap["sys"] = [(list(X), b) for X, b in res]
            return res
        self.saved.append((RX, "sample_parities", orig))
        RX.sample_parities = spy
        return self

    def __exit__(self, *exc):
        for mod, name, val in reversed(self.saved):
            setattr(mod, name, val)
        return False


def enc_draw(e):
    if e[0] == "sample":
        return [0, e[1], e[2]] + enc_list(e[3])
    if e[0] == "choice":
        return [1, e[1], e[2]]
    if e[0] == "randint":
        return [2, e[1], e[2], e[3]]
    raise ValueError(e)


def enc_draws(es):
    out = [len(es)]
    for e in es:
        out += enc_draw(e)
    return out


def enc_planted(pl):
    out = [len(pl)]
    for a in pl:
        out += enc_list(a)
    return out


def fmt_sys(sys_):
    out = [str(len(sys_))]
    for X, b in sys_:
        out += [str(len(X))] + [str(x) for x in X] + [str(b)]
    return " ".join(out)


# ------------------------------------------------------------------ independent specification
def compatible_clauses(k, n, planted):
    """number of clauses over k distinct variables of 1..n satisfied by every planted assignment (brute force)"""
    if k > n:
        return 0
    pls = [set(a) for a in planted]
    if not pls:
        c = 1
        for i in range(k):
            c = c * (n - i) // (i + 1)
        return c << k
    cnt = 0
    for dom in itertools.combinations(range(1, n + 1), k):
        for mask in range(1 << k):
            lits = [v if (mask >> j) & 1 else -v for j, v in enumerate(dom)]
            if all(any(l in a for l in lits) for a in pls):
                cnt += 1
    return cnt


def compatible_parities(k, n, planted):
    if k > n:
        return 0
    pls = [set(a) for a in planted]
    if not pls:
        c = 1
        for i in range(k):
            c = c * (n - i) // (i + 1)
        return 2 * c
    cnt = 0
    for dom in itertools.combinations(range(1, n + 1), k):
        for b in (0, 1):
            if all(sum(1 for x in dom if x in a) % 2 == b for a in pls):
                cnt += 1
    return cnt


def is_total(a, n):
    s = set(a)
    return all((v in s) != (-v in s) for v in range(1, n + 1))


# ------------------------------------------------------------------ one execution of the real code
class Exec:
    """runs the real generator once (lazily) under the recording proxy"""

    def __init__(self, info):
        self.info = info
        self.done = False

    def run(self):
        if self.done:
            return self
        self.done = True
        info = self.info
        gen, k, n, m = info["gen"], info["k"], info["n"], info["m"]
        planted = [list(a) for a in (info.get("planted") or [])]
        seed = info.get("seed")
        cls = OPB if info.get("opb") else CNF
        script = None
        if info.get("script"):
            script = {"p": info["script"].get("p", 0.0), "rng": sub_rng(info["script"]["sseed"], "script")}
            if info["script"].get("dup") is not None:
                script["dup"] = info["script"]["dup"]
        proxy = RecordingRandom(script)
        self.proxy = proxy
        self.events = proxy.events
        self.F = None
        self.exc = None
        self.sys = None
        _real_random.seed(info.get("gseed", 0))     # the code's generator, seeded by the harness before the call
        for _ in range(info.get("perturb", 0)):
            _real_random.random()
        with Patched(proxy) as p:
            try:
                if info.get("via") == "argv":
                    # the whole command line, in process: `cnfgen -q --seed S randkcnf|randkxor k n m [-p]`
                    argv = ["cnfgen", "-q", "--seed", str(info.get("gseed", 0)),
                            "randkcnf" if gen == "kcnf" else "randkxor", str(k), str(n), str(m)]
                    if info.get("plant"):
                        argv.append("-p")
                    try:
                        self.F = cnfgen_cli(argv, mode="formula")
                    except CLIError as e:
                        # cli() turns the generator's ValueError into a usage error
                        raise ValueError(str(e)[:200])
                elif info.get("via") == "cli":
                    helper = SH.RandCmdHelper if gen == "kcnf" else SH.RandXorHelper
                    self.F = helper.build_formula(Namespace(k=k, n=n, m=m, plant=bool(info.get("plant"))), cls)
                else:
                    f = RF.RandomKCNF if gen == "kcnf" else RX.RandomKXOR
                    kw = {}
                    if seed is not None:
                        kw["seed"] = seed
                    if info.get("planted") is not None:
                        kw["planted_assignments"] = planted
                    self.F = f(k, n, m, formula_class=cls, **kw)
            except Exception as e:  # noqa: the kind is the observation
                self.exc = e
            self.sys = p.captured.get("sys")
        return self

    # planted set actually used (cli: drawn by the helper)
    def planted_used(self):
        info = self.info
        if info.get("via") in ("cli", "argv"):
            if not info.get("plant"):
                return []
            n = info["n"]
            ch = [e for e in self.events if e[0] == "choice"][:n]
            if len(ch) < n:
                return None
            return [[[-1, 1][e[2]] * v for e, v in zip(ch, range(1, n + 1))]]
        return [list(a) for a in (info.get("planted") or [])]

    def path(self):
        """sparse = the rejection loop delivered; dense = fell through to random.sample(fullset, m)"""
        self.run()
        if isinstance(self.exc, OverflowError):
            # where it was raised (function names of the traceback, not the message): inside the dense enumeration
            # (known finding C13-H1) or anywhere else
            names, tb = set(), self.exc.__traceback__
            while tb is not None:
                names.add(tb.tb_frame.f_code.co_name)
                tb = tb.tb_next
            dense = names & {"all_clauses", "all_good_parities"}
            return "overflow-dense" if dense and self.info["n"] > SYS_MAXSIZE else "overflow"
        if self.exc is not None:
            return "error"
        ev = [e for e in self.events if e[0] != "seed"]
        info = self.info
        if ev and ev[-1][0] == "sample" and len(ev[-1][3]) == info["m"] and info["m"] > 0 and (
                len(ev) == 10 * info["m"] * ((info["k"] + 1) if info["gen"] == "kcnf" else 2) + 1
                + (info["n"] if info.get("via") in ("cli", "argv") and info.get("plant") else 0)):
            return "dense"
        return "sparse"

    def answer(self):
        if self.done and not self.info.get("no_rerun"):
            # asked again (the runner's second pass, in reverse order, after everything else has run): the
            # generator is executed AGAIN on the same input and must give the first answer (the request line was
            # made from the draws of the first execution, so a changed answer also disagrees with the model)
            again = Exec(self.info)
            again.info = dict(self.info, no_rerun=True)
            return again.answer()
        self.run()
        if self.proxy.unknown:
            return "ERR UnmodelledRandomCall:" + ",".join(sorted(set(self.proxy.unknown)))
        seeds = [i for i, e in enumerate(self.events) if e[0] == "seed"]
        if self.info.get("seed") is not None and self.info.get("via") not in ("cli", "argv"):
            if self.exc is None or seeds:
                if seeds != [0]:
                    return "ERR SeedEventsNotFirst"
        elif seeds:
            return "ERR UnexpectedSeedEvent"
        if self.exc is not None:
            return common.exc_name(self.exc)
        s = fmt_formula(self.F)
        if self.info["gen"] == "kxor":
            s += " | sys " + fmt_sys(self.sys if self.sys is not None else [])
        return ok(s + " | rest 0")

    def request(self):
        self.run()
        info = self.info
        draws = [e for e in self.events if e[0] != "seed"]
        cls = 1 if info.get("opb") else 0
        if info.get("via") in ("cli", "argv"):
            return req("clikcnf" if info["gen"] == "kcnf" else "clikxor", cls, bool(info.get("plant")),
                       info["k"], info["n"], info["m"], enc_draws(draws))
        g = sub_rng(info.get("gseed", 0), "garbage")
        garbage = [("choice", g.randint(1, 5), g.randint(0, 9)), ("sample", 3, 2, [g.randint(0, 2), 1]),
                   ("randint", 0, 1, g.randint(0, 1))][:g.randint(0, 3)]
        seed = info.get("seed")
        if seed is not None:
            pre, post = garbage, draws
        else:
            pre, post = draws, garbage
        return req("randkcnf" if info["gen"] == "kcnf" else "randkxor", cls, info["k"], info["n"], info["m"],
                   seed is not None, seed if seed is not None else 0,
                   enc_planted(info.get("planted") or []), enc_draws(pre), enc_draws(post))


class LazyCase(Case):
    """a Case whose request line contains the draws recorded while running the real code"""
    __slots__ = ("ex", "_req", "_cls")

    def __init__(self, suite, ex, oracle, cls, nontrivial, info):
        self.suite = suite
        self.ex = ex
        self._req = None
        self._cls = cls
        self.impl = ex.answer
        self.oracle = oracle
        self.nontrivial = nontrivial
        self.info = info

    @property
    def cls(self):
        """input class + the path the real code took (known only after the run)"""
        return self._cls + ":" + self.ex.path()

    @cls.setter
    def cls(self, v):
        self._cls = v

    @property
    def req(self):
        if self._req is None:
            self._req = self.ex.request()
        return self._req

    @req.setter
    def req(self, v):
        self._req = v


# ------------------------------------------------------------------ the property, on the real result
def check_shape(ex):
    """None if the property holds for this run, else a description"""
    ex.run()
    info = ex.info
    gen, k, n, m = info["gen"], info["k"], info["n"], info["m"]
    if min(k, n, m) < 0:
        if isinstance(ex.exc, ValueError):
            return None
        return {"negative_parameter_not_rejected_with_ValueError": repr(ex.exc)}
    planted = ex.planted_used()
    if planted is None:
        return {"cli_plant": "fewer than n choice() calls for the planted assignment"}
    if any(not is_total(a, n) for a in planted):
        return None   # outside the property's quantifier (total planted assignments)
    count = compatible_clauses(k, n, planted) if gen == "kcnf" else compatible_parities(k, n, planted)
    want_error = k > n or m > count
    base = {"k": k, "n": n, "m": m, "planted": planted, "seed": info.get("seed"), "gseed": info.get("gseed"),
            "compatible": count}
    if ex.exc is not None:
        if not isinstance(ex.exc, ValueError):
            return dict(base, unexpected_exception=type(ex.exc).__name__, msg=str(ex.exc)[:200])
        if not want_error:
            return dict(base, valueerror_although="k <= n and m <= number of compatible constraints")
        return None
    if want_error:
        return dict(base, no_valueerror_although="k > n" if k > n else "m exceeds the number of compatible constraints")
    F = ex.F
    if F.number_of_variables() != n:
        return dict(base, number_of_variables=F.number_of_variables())
    pls = [set(a) for a in planted]
    if gen == "kcnf":
        if info.get("opb"):
            return None   # the OPB rendering is C08's subject; the correspondence compares it exactly
        cl = [list(c) for c in F.clauses()]
        if len(cl) != m:
            return dict(base, number_of_clauses=len(cl))
        seen = set()
        for c in cl:
            vs = [abs(l) for l in c]
            if len(c) != k or len(set(vs)) != k or any(l == 0 or abs(l) > n for l in c):
                return dict(base, clause_not_over_k_distinct_variables=c)
            fs = frozenset(c)
            if fs in seen:
                return dict(base, repeated_clause=c)
            seen.add(fs)
            for a in pls:
                if not any(l in a for l in c):
                    return dict(base, clause_falsified_by_planted=c, assignment=sorted(a, key=abs))
        return None
    # ---- kxor
    sys_ = ex.sys
    if sys_ is None:
        return dict(base, no_parity_system_observed=True)
    if len(sys_) != m:
        return dict(base, number_of_parities=len(sys_))
    seen = set()
    for X, b in sys_:
        if len(X) != k or len(set(X)) != k or any(not (1 <= x <= n) for x in X) or b not in (0, 1):
            return dict(base, parity_not_over_k_distinct_variables=[X, b])
        key = (frozenset(X), b)
        if key in seen:
            return dict(base, repeated_parity=[X, b])
        seen.add(key)
        for a in pls:
            if sum(1 for x in X if x in a) % 2 != b:
                return dict(base, parity_violated_by_planted=[X, b], assignment=sorted(a, key=abs))
    if n <= 14 and not info.get("opb"):
        cl = [list(c) for c in F.clauses()]
        masks = [(sum(1 << x for x in X), b) for X, b in sys_]
        for bits in range(1 << n):
            alpha = [False] + [bool((bits >> i) & 1) for i in range(n)]
            want = all(bin((bits << 1) & mk).count("1") % 2 == b for mk, b in masks)
            got = common.cnf_holds(cl, alpha)
            if got != want:
                return dict(base, assignment=[i for i in range(1, n + 1) if alpha[i]], cnf_accepts=got,
                            parity_system_says=want, system=sys_)
    return None


def reseed_oracle(info):
    """same arguments and same seed= twice in this process (other seed and other state in between).  With
    info["script"] the modules under test draw from the scripted proxy, re-created for each call: its answers are a
    function of the seed and of the call sequence alone, and they exhaust the retry budget, so that the dense
    fallback is the branch that is called twice."""
    def oracle():
        gen, k, n, m = info["gen"], info["k"], info["n"], info["m"]
        f = RF.RandomKCNF if gen == "kcnf" else RX.RandomKXOR
        kw = {"seed": info["seed"]}
        if info.get("planted") is not None:
            kw["planted_assignments"] = [list(a) for a in info["planted"]]

        def once(kw_):
            if info.get("script"):
                proxy = RecordingRandom({"p": info["script"]["p"], "rng": sub_rng(info["script"]["sseed"], "script")})
                with Patched(proxy):
                    return fmt_formula(f(k, n, m, **kw_))
            return fmt_formula(f(k, n, m, **kw_))
        outs = []
        for rnd in range(2):
            _real_random.seed(info.get("gseed", 0) + 7919 * rnd)
            for _ in range(info.get("perturb", 0) + 3 * rnd):
                _real_random.random()
            try:
                outs.append(once(kw))
            except Exception as e:  # noqa
                outs.append(common.exc_name(e))
            if rnd == 0 and info.get("between", True):
                try:
                    once(dict(kw, seed=info["seed"] + 1 if isinstance(info["seed"], int) else 1))
                except Exception:  # noqa
                    pass
        if outs[0] != outs[1]:
            return {"same_seed_different_formula": info["seed"], "first": outs[0][:300], "second": outs[1][:300],
                    "k": k, "n": n, "m": m}
        return None
    return oracle


# ------------------------------------------------------------------ cases
def label(info):
    if info["n"] > SYS_MAXSIZE:
        return "huge:" + info["gen"]
    parts = [info["gen"], info.get("via", "lib")]
    parts.append("script" if info.get("script") else ("seedarg" if info.get("seed") is not None else "global"))
    return ":".join(parts)


def build(suite, info):
    ex = Exec(info)
    if suite == "reseed":
        shape = lambda: check_shape(ex)      # noqa
        rs = reseed_oracle(info)

        def oracle():
            r = shape()
            return r if r is not None else rs()
    else:
        def oracle():
            return check_shape(ex)
    return LazyCase(suite, ex, oracle, label(info), info["m"] > 0 and min(info["k"], info["n"]) >= 0, info)


def total_assignment(rng, n):
    a = [v if rng.random() < 0.5 else -v for v in range(1, n + 1)]
    if rng.random() < 0.4:
        rng.shuffle(a)      # the literals of a planted assignment come in no particular order (seeded change C13-6)
    return a


def planted_sets(rng, n):
    """0-3 total assignments: none, one, two (independent / equal / complementary), three"""
    a = total_assignment(rng, n)
    b = total_assignment(rng, n)
    c = total_assignment(rng, n)
    return [[], [a], [a, b], [a, [-l for l in a]], [a, list(a)], [a, b, c]]


def huge_infos(rng, count):
    """n in {2^63, 2^63+5, 2^70}, k <= 5, m <= 6; planted assignments as partial lists; real and repeating draws"""
    for i in range(count):
        gen = ("kcnf", "kxor")[i % 2]
        n = rng.choice([2 ** 63, 2 ** 63 + 5, 2 ** 70])
        k = rng.choice([0, 1, 1, 2, 3, 4, 5])
        m = rng.randint(0, 6)
        planted = rng.choice([None, [], [], [[1]], [[1, -2, 3]], [[-1, 2], [1, -2, 4]], [[n, -1]]])
        if gen == "kxor" and planted and k > 0 and rng.random() < 0.7:
            planted = []          # a partial assignment makes parity_satisfied raise at once (outside the property)
        info = {"gen": gen, "k": k, "n": n, "m": m, "planted": planted, "gseed": rng.randint(0, 2 ** 31)}
        mode = rng.random()
        if mode < 0.4:
            info["seed"] = rng.choice([0, 1, -5, rng.randint(0, 2 ** 40)])
        elif mode < 0.7:
            info["script"] = {"dup": rng.choice([0.3, 0.6, 0.9]), "sseed": rng.randint(0, 2 ** 31)}
        if rng.random() < 0.08:
            info["opb"] = True
        yield info


def m_values(mx):
    return sorted({0, 1, 2, mx // 2, max(mx - 1, 0), mx, mx + 1, mx + 3})


CORPUS = [
    # boundary shapes that must always run
    ("shape", {"gen": "kcnf", "k": 0, "n": 0, "m": 0, "seed": 1, "planted": []}),
    ("shape", {"gen": "kcnf", "k": 0, "n": 3, "m": 1, "seed": 1, "planted": []}),        # the empty clause
    ("shape", {"gen": "kcnf", "k": 0, "n": 3, "m": 2, "seed": 1, "planted": []}),        # one too many
    ("shape", {"gen": "kcnf", "k": 0, "n": 2, "m": 1, "seed": 1, "planted": [[1, -2]]}),  # empty clause vs planted
    ("shape", {"gen": "kcnf", "k": 3, "n": 2, "m": 0, "seed": 1, "planted": []}),        # k > n, even with m = 0
    ("shape", {"gen": "kcnf", "k": 2, "n": 2, "m": 4, "seed": 5, "planted": []}),        # exact maximum
    ("shape", {"gen": "kcnf", "k": 2, "n": 2, "m": 5, "seed": 5, "planted": []}),        # maximum + 1
    ("shape", {"gen": "kcnf", "k": 2, "n": 2, "m": 3, "seed": 5, "planted": [[1, 2]]}),  # exact maximum, planted
    ("shape", {"gen": "kcnf", "k": 2, "n": 2, "m": 4, "seed": 5, "planted": [[1, 2]]}),
    ("shape", {"gen": "kcnf", "k": 2, "n": 3, "m": 12, "gseed": 3, "planted": [],
               "script": {"p": 0.95, "sseed": 1}}),                                     # dense path, success
    ("shape", {"gen": "kcnf", "k": 1, "n": 1, "m": 1, "gseed": 3, "planted": [[1]],
               "script": {"p": 1.0, "sseed": 2}}),
    ("shape", {"gen": "kcnf", "k": -1, "n": 2, "m": 1, "seed": 1, "planted": []}),
    ("shape", {"gen": "kcnf", "k": 1, "n": 2, "m": -1, "seed": 1, "planted": []}),
    ("shape", {"gen": "kxor", "k": 0, "n": 3, "m": 2, "seed": 1, "planted": []}),        # both empty parities
    ("shape", {"gen": "kxor", "k": 0, "n": 3, "m": 3, "seed": 1, "planted": []}),
    ("shape", {"gen": "kxor", "k": 0, "n": 2, "m": 1, "seed": 1, "planted": [[1, -2]]}),
    ("shape", {"gen": "kxor", "k": 0, "n": 2, "m": 2, "seed": 1, "planted": [[1, -2]]}),
    ("shape", {"gen": "kxor", "k": 2, "n": 3, "m": 6, "seed": 1, "planted": []}),        # exact maximum
    ("shape", {"gen": "kxor", "k": 2, "n": 3, "m": 7, "seed": 1, "planted": []}),
    ("shape", {"gen": "kxor", "k": 2, "n": 3, "m": 3, "seed": 1, "planted": [[1, -2, 3]]}),
    ("shape", {"gen": "kxor", "k": 2, "n": 3, "m": 4, "seed": 1, "planted": [[1, -2, 3]]}),
    ("shape", {"gen": "kxor", "k": 3, "n": 4, "m": 4, "gseed": 9, "planted": [[1, 2, -3, -4]],
               "script": {"p": 0.95, "sseed": 3}}),
    ("shape", {"gen": "kxor", "k": 4, "n": 3, "m": 0, "seed": 1, "planted": []}),
    ("shape", {"gen": "kxor", "k": 1, "n": 2, "m": 1, "seed": 1, "planted": [[1]]}),     # partial planted: outside the property
    ("shape", {"gen": "kcnf", "k": 1, "n": 2, "m": 1, "seed": 1, "planted": [[1]]}),
    # beyond sys.maxsize variables: sample_variables picks one randint(1, n) at a time
    ("huge", {"gen": "kcnf", "k": 3, "n": 2 ** 63, "m": 4, "seed": 1, "planted": []}),
    ("huge", {"gen": "kcnf", "k": 5, "n": 2 ** 70, "m": 6, "gseed": 2, "planted": [[1, -2, 3]]}),   # partial planted list
    ("huge", {"gen": "kxor", "k": 3, "n": 2 ** 63 + 5, "m": 4, "seed": 1, "planted": []}),
    ("huge", {"gen": "kxor", "k": 0, "n": 2 ** 63, "m": 2, "seed": 1, "planted": [[1]]}),
    ("huge", {"gen": "kcnf", "k": 2, "n": 2 ** 63, "m": 3, "gseed": 5, "planted": [],
              "script": {"dup": 0.5, "sseed": 4}}),                                    # repeated randint answers
    ("huge", {"gen": "kcnf", "k": 2 ** 63 + 1, "n": 2 ** 63, "m": 1, "seed": 1, "planted": []}),   # k > n
    # defect C13-H1 (known finding): the dense fallback beyond sys.maxsize raises OverflowError
    ("huge", {"gen": "kcnf", "k": 0, "n": 2 ** 63, "m": 2, "seed": 1, "planted": []}),
    ("huge", {"gen": "kxor", "k": 0, "n": 2 ** 63, "m": 3, "seed": 1, "planted": []}),
    ("huge", {"gen": "kcnf", "k": 1, "n": 2 ** 63, "m": 2, "gseed": 5, "planted": [],
              "script": {"dup": 1.0, "sseed": 4}}),
    ("cli", {"gen": "kcnf", "via": "cli", "plant": True, "k": 2, "n": 3, "m": 9, "gseed": 4}),
    ("cli", {"gen": "kcnf", "via": "cli", "plant": True, "k": 2, "n": 3, "m": 10, "gseed": 4}),
    ("cli", {"gen": "kxor", "via": "cli", "plant": True, "k": 2, "n": 3, "m": 3, "gseed": 4}),
    ("cli", {"gen": "kxor", "via": "cli", "plant": False, "k": 2, "n": 3, "m": 6, "gseed": 4}),
    ("cli", {"gen": "kcnf", "via": "argv", "plant": True, "k": 2, "n": 3, "m": 9, "gseed": 5}),
    ("cli", {"gen": "kcnf", "via": "argv", "plant": False, "k": 2, "n": 3, "m": 13, "gseed": 5}),
    ("cli", {"gen": "kxor", "via": "argv", "plant": True, "k": 2, "n": 3, "m": 3, "gseed": 5}),
    ("reseed", {"gen": "kcnf", "k": 3, "n": 5, "m": 7, "seed": 0, "gseed": 11, "perturb": 2, "planted": []}),
    ("reseed", {"gen": "kxor", "k": 3, "n": 5, "m": 7, "seed": 0, "gseed": 11, "perturb": 2, "planted": []}),
]


def cases(ctx):
    seed, tier = ctx["seed"], ctx["tier"]
    thorough = tier == "thorough"
    out = []
    for suite, info in CORPUS:
        out.append(build(suite, dict(info)))

    rng = sub_rng(seed, "C13", "grid")
    kmax, nmax = (4, 7) if thorough else (4, 6)
    for gen in ("kcnf", "kxor"):
        counter = compatible_clauses if gen == "kcnf" else compatible_parities
        for n in range(0, nmax + 1):
            for k in range(0, min(kmax, n + 1) + 1):
                psets = planted_sets(rng, n)
                if not thorough:
                    psets = [psets[0], psets[1], psets[rng.randint(2, 5)]]
                for planted in psets:
                    mx = counter(k, n, planted)
                    ms = m_values(mx)
                    if k > n:
                        ms = [0, rng.randint(1, 3)]
                    if not thorough and len(ms) > 5:
                        keep = {0, mx, mx + 1}
                        ms = sorted(keep | set(rng.sample([x for x in ms if x not in keep], 2)))
                    if mx >= 2:
                        ms = sorted(set(ms) | {rng.randint(1, mx), rng.randint(1, mx)})
                    for m in ms:
                        if m > 400 and not thorough:
                            continue
                        if m > 1500:
                            continue
                        mode = rng.random()
                        info = {"gen": gen, "k": k, "n": n, "m": m, "planted": planted,
                                "gseed": rng.randint(0, 2 ** 31)}
                        if mode < 0.4:
                            info["seed"] = rng.choice([0, 1, -5, 2 ** 31, rng.randint(0, 2 ** 40)])
                        elif mode < 0.75 and m > 0:
                            info["script"] = {"p": rng.choice([0.5, 0.8, 0.95, 1.0]), "sseed": rng.randint(0, 2 ** 31)}
                        if rng.random() < 0.08:
                            info["opb"] = True
                        if rng.random() < 0.1 and not planted:
                            info["planted"] = None       # the default argument
                        out.append(build("shape", info))

    # beyond sys.maxsize variables (the rejection branch of sample_variables)
    import sys as _sys
    assert _sys.maxsize == SYS_MAXSIZE, "the model's sysMaxsize is that of 64-bit CPython"
    rng = sub_rng(seed, "C13", "huge")
    for info in huge_infos(rng, 60 if thorough else 24):
        out.append(build("huge", info))

    # the dense path with the real generator: many compatible clauses, most candidates rejected
    rng = sub_rng(seed, "C13", "dense")
    big = [("kcnf", 1, 150), ("kcnf", 1, 300), ("kxor", 1, 200), ("kcnf", 2, 16)]
    if thorough:
        big += [("kcnf", 1, 500), ("kcnf", 2, 30), ("kxor", 2, 24), ("kxor", 1, 400), ("kcnf", 3, 9)]
    for gen, k, n in big:
        for j in range(3 if thorough else 1):
            planted = [total_assignment(rng, n)]
            if j == 2:
                planted.append(total_assignment(rng, n))
            counter = compatible_clauses if gen == "kcnf" else compatible_parities
            mx = counter(k, n, planted)
            for m in (mx, mx - 1, mx + 1):
                info = {"gen": gen, "k": k, "n": n, "m": m, "planted": planted, "gseed": rng.randint(0, 2 ** 31)}
                if rng.random() < 0.5:
                    info["seed"] = rng.randint(0, 2 ** 40)
                out.append(build("dense", info))

    # command-line helpers (randkcnf / randkxor [-p])
    rng = sub_rng(seed, "C13", "cli")
    for gen in ("kcnf", "kxor"):
        for _ in range(80 if thorough else 40):
            n = rng.randint(1, 6)
            k = rng.randint(1, min(n + 1, 4))
            plant = rng.random() < 0.7
            if k > n:
                mx = 0
            elif gen == "kcnf":
                mx = compatible_clauses(k, n, []) - (compatible_clauses(k, n, []) >> k if plant else 0)
            else:
                mx = compatible_parities(k, n, []) // (2 if plant else 1)
            m = rng.choice(m_values(mx))
            info = {"gen": gen, "via": "cli", "plant": plant, "k": k, "n": n, "m": m, "gseed": rng.randint(0, 2 ** 31)}
            if rng.random() < 0.3 and m > 0:
                info["script"] = {"p": rng.choice([0.8, 0.95]), "sseed": rng.randint(0, 2 ** 31)}
            if rng.random() < 0.1:
                info["opb"] = True
            elif rng.random() < 0.4 and "script" not in info:
                info["via"] = "argv"
            out.append(build("cli", info))

    # same seed argument, different prior generator state
    rng = sub_rng(seed, "C13", "reseed")
    for gen in ("kcnf", "kxor"):
        for _ in range(100 if thorough else 40):
            n = rng.randint(0, 8)
            k = rng.randint(0, min(n + 1, 4))
            planted = rng.choice(planted_sets(rng, n))
            counter = compatible_clauses if gen == "kcnf" else compatible_parities
            mx = counter(k, n, planted)
            m = rng.choice(m_values(mx) + [rng.randint(0, mx + 1)])
            if m > 600:
                m = rng.randint(0, 600)
            info = {"gen": gen, "k": k, "n": n, "m": m, "planted": planted,
                    "seed": rng.choice([0, 1, -5, 2 ** 31, rng.randint(0, 2 ** 40)]),
                    "gseed": rng.randint(0, 2 ** 31), "perturb": rng.randint(0, 5)}
            out.append(build("reseed", info))
        # the same under scripted generators: every branch of the sampler (retry budget exhausted, dense fallback
        # taken, with and without planted assignments) is the one that runs twice
        for _ in range(60 if thorough else 25):
            n = rng.randint(1, 7)
            k = rng.randint(1, min(n, 3))
            planted = rng.choice(planted_sets(rng, n)[:3] + [[], None])
            counter = compatible_clauses if gen == "kcnf" else compatible_parities
            mx = counter(k, n, planted or [])
            m = rng.choice([mx, mx, max(mx - 1, 0), mx // 2, mx + 1])
            if m > 300:
                m = 300
            info = {"gen": gen, "k": k, "n": n, "m": m, "planted": planted,
                    "seed": rng.choice([0, 1, -5, rng.randint(0, 2 ** 40)]),
                    "gseed": rng.randint(0, 2 ** 31), "perturb": rng.randint(0, 5)}
            if m > 0:
                info["script"] = {"p": rng.choice([0.9, 0.97, 1.0]), "sseed": rng.randint(0, 2 ** 31)}
            out.append(build("reseed", info))
    return out


# ------------------------------------------------------------------ failing-input search
def neighbourhood(info, rng, budget):
    gen = info["gen"]
    k0, n0, m0 = info["k"], info["n"], info["m"]
    yield dict(info)
    seen = 0
    for n in sorted({max(n0 - 1, 0), n0, n0 + 1, 2, 3}):
        if n > 7 and n != n0:
            continue
        for k in sorted({max(k0 - 1, 0), k0, k0 + 1, 1, 2}):
            for planted in planted_sets(rng, n)[:4]:
                counter = compatible_clauses if gen == "kcnf" else compatible_parities
                if n > 12:
                    continue
                mx = counter(k, n, planted)
                for m in sorted(set(m_values(mx) + [m0])):
                    if m > 300:
                        continue
                    for script in (None, {"p": 0.95, "sseed": rng.randint(0, 2 ** 31)}, {"p": 1.0, "sseed": 1}):
                        cand = {"gen": gen, "k": k, "n": n, "m": m, "planted": planted,
                                "gseed": rng.randint(0, 2 ** 31)}
                        if script is None:
                            cand["seed"] = rng.randint(0, 2 ** 31)
                        elif m > 0:
                            cand["script"] = script
                        else:
                            continue
                        if info.get("via") in ("cli", "argv"):
                            cand.update(via=info["via"], plant=bool(planted), planted=None, k=max(k, 1), n=max(n, 1))
                            cand.pop("seed", None)
                        yield cand
                        seen += 1
                        if seen >= budget:
                            return


_SEARCHED = {}


def search(ctx, case):
    """the correspondence broke on `case`: look for an input on which the PROPERTY fails on the real code.
    One neighbourhood search per (generator, entry point, suite) and run: the neighbourhoods of the
    disagreeing cases of one class overlap almost entirely."""
    key = (case.info["gen"], case.info.get("via", "lib"), case.suite)
    if key in _SEARCHED:
        return _SEARCHED[key]
    _SEARCHED[key] = None
    rng = sub_rng(ctx["seed"], "C13", "search")
    suite = case.suite
    if case.info["n"] > SYS_MAXSIZE:
        for cand in [dict(case.info)] + list(huge_infos(rng, 300)):
            if cand["k"] == 0 or (cand.get("script") or {}).get("dup") == 1.0:
                continue          # the known finding C13-H1 is not what broke the correspondence
            c = build("huge", cand)
            r = common.run_oracle(c)
            if r is not None and c.ex.path() != "overflow-dense":
                _SEARCHED[key] = {"suite": "huge", "info": cand, "failure": r}
                return _SEARCHED[key]
        return None
    for cand in neighbourhood(case.info, rng, 3000 if ctx["tier"] == "thorough" else 800):
        if suite == "reseed" and cand.get("via") is None:
            cand.setdefault("seed", rng.randint(0, 2 ** 31))     # scripted candidates too: called twice with one seed
        c = build(suite if suite == "reseed" and cand.get("seed") is not None else "shape", cand)
        r = common.run_oracle(c)
        if r is not None:
            _SEARCHED[key] = {"suite": c.suite, "info": cand, "failure": r}
            return _SEARCHED[key]
    return None


def search_global(ctx):
    rng = sub_rng(ctx["seed"], "C13", "search-global")
    for gen in ("kcnf", "kxor"):
        base = {"gen": gen, "k": 2, "n": 3, "m": 3, "planted": []}
        for cand in neighbourhood(base, rng, 1500):
            c = build("shape", cand)
            r = common.run_oracle(c)
            if r is not None:
                return {"suite": "shape", "info": cand, "failure": r}
    return None
