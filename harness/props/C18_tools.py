"""C18 / C09 / C17 (tools) — the two small tools `cnfshuffle` and `kthlist2pebbling`, end to end.

Model: lean/CnfgenModel/Cli/ToolArgs.lean (argparse for optional-only parsers, every token list),
lean/CnfgenModel/Cli/Tools.lean (`cnfshuffleRun`, `k2pRun`: open / read with the character-level readers /
transform / write), theorems lean/Props/C18/Tools.lean, Props/C09/Tools.lean, Props/C17/Tools.lean.

Correspondence: the REAL `main()` of each tool runs in this process (`sys.argv`, `sys.stdin`, `sys.stdout`,
`sys.stderr` replaced, current directory = a private scratch directory holding the input files) and its
behaviour as a process — exit status, where the text went, the text itself byte for byte (header included),
whether every line of the report carries the prefix `c ` — is compared with the model:

  t_args     the parse alone: the namespace `parse_args` returns (or help / CLIError / the sub-command taken);
  t_shuffle  cnfshuffle on (argv, stdin text or files, the draws `random` returned — recorded);
  t_k2p      kthlist2pebbling on (argv, stdin text or files);
  t_report   the error report of both tools (prefix), a handful of fixed command lines.

Oracle = the property itself, independent of the model: the outcome is a complete formula accepted by a strict
reader written here (true counts in the problem line, only comments around) with exit status 0, or the help, or
a report on stderr with exit status 255 and nothing written; cnfshuffle's output is the signed renaming +
clause reordering (given by the recorded draws) of the formula the input text denotes (own reader), the
identity under -p -v -c; kthlist2pebbling's output is the pebbling formula of the DAG the text denotes (own
reader), unsatisfiable (truth table up to 12 vertices), equal to what `cnfgen peb <file>` builds; a text that is
not a DAG in increasing order is refused.
"""
import contextlib
import gc
import io
import os
import random
import shutil
import sys
import tempfile

from harness import common
from harness.common import Case, req, enc_str, enc_list, ok

import cnfgen.clitools.msg as msgmod
import importlib
mod_shuffle = importlib.import_module("cnfgen.clitools.cnfshuffle")
mod_k2p = importlib.import_module("cnfgen.clitools.kthlist2pebbling")
# kthlist2pebbling walks the package cnfgen.clihelpers on every call and executes every module it does not find in
# sys.modules: import them once (the helper classes are then the ones of sys.modules — same code, 12 ms saved per run)
import pkgutil
import cnfgen.clihelpers
for _l, _name, _p in pkgutil.walk_packages(cnfgen.clihelpers.__path__):
    importlib.import_module("cnfgen.clihelpers." + _name)
from cnfgen.clitools.cmdline import CLIError, CLIParser
from cnfgen.formula.cnf import CNF

RULE = ("t_args: token lists assembled from every spelling of every option of the two parsers (exact, abbreviated, "
        "ambiguous, --opt=value, glued short value, clustered short flags, -h at every position, `--`, negative numbers, "
        "tokens with blanks, empty tokens, unknown options, stray arguments, sub-command names) + random edits; "
        "t_shuffle / t_k2p: those command lines x input texts (valid formulas / DAGs of every shape, comments, odd "
        "whitespace, CRLF and CR, clauses across lines, wrong counts, out-of-range literals, empty input, 5000-digit "
        "numbers, non-DAGs, blank lines, undecodable and unreadable input) given on stdin (translating and not "
        "translating newlines) or in files, output to stdout or to a file (also the input file itself, unwritable "
        "paths); distinct = distinct request")
ASSUMPTIONS = ["the model of int() is ASCII-only: texts contain no non-ASCII decimal digits",
               "kthlist texts contain no number of more than 4300 digits and no size above 3000 (the graph reader's int() has "
               "no digit limit in the model; the real constructor allocates size+1 lists)",
               "different path strings name different files; writing to an opened output never fails; stdin is not a terminal",
               "the transformation sub-commands of kthlist2pebbling are outside the model (the model says `sub`, the suite "
               "t_args compares the sub-command taken and its tokens)"]
NOTES = ["real main() of both tools in process vs cnfshuffleRun / k2pRun; full written text compared"]

_info = CNF().header
GENERATOR, COPYRIGHT, URL = _info["generator"], _info["copyright"], _info["url"]


# ------------------------------------------------------------------------------------------------ encoding
def enc_content(c):
    kind, data = c
    if kind == "text":
        return [0] + enc_str(data)
    return [1] if kind == "undecodable" else [2]


def enc_env(stdin, universal, stdin_name, files, unwritable):
    out = enc_content(stdin) + [1 if universal else 0] + enc_str(stdin_name) + [len(files)]
    for p, c in files:
        out += enc_str(p) + enc_content(c)
    out += [len(unwritable)]
    for p in unwritable:
        out += enc_str(p)
    return out + enc_str(GENERATOR) + enc_str(COPYRIGHT) + enc_str(URL)


def enc_argv(argv):
    out = [len(argv)]
    for t in argv:
        out += enc_str(t)
    return out


def enc_draws(draws):
    out = [len(draws)]
    for kind, v in draws:
        out += [0, int(v)] if kind == "c" else [1] + enc_list(v)
    return out


def fmt_s(s):
    return " ".join([str(len(s))] + [str(ord(c)) for c in s])


class Recorder:
    """records what random.choice / random.shuffle returned; harness process only"""

    def __enter__(self):
        self.draws = []
        self._c, self._s = random.choice, random.shuffle
        rec = self

        def choice(seq):
            v = rec._c(seq)
            rec.draws.append(("c", v))
            return v

        def shuffle(x, *a, **k):
            rec._s(x, *a, **k)
            rec.draws.append(("s", list(x)))
        random.choice, random.shuffle = choice, shuffle
        return self

    def __exit__(self, *exc):
        random.choice, random.shuffle = self._c, self._s
        return False


# ------------------------------------------------------------------------------------------------ the scratch world
UNREADABLE = "/proc/self/mem"          # opens, read() raises OSError (Linux)


class _BrokenStdin(io.TextIOBase):
    """a text stream whose read fails with OSError (a device that went away)"""

    def readlines(self, *a):
        raise OSError(5, "Input/output error")

    def read(self, *a):
        raise OSError(5, "Input/output error")

    def readline(self, *a):
        raise OSError(5, "Input/output error")

    def isatty(self):
        return False


class _NamedBytes(io.BytesIO):
    name = "<stdin>"


def decode(data):
    """what a text-mode reader (utf-8) makes of the bytes: ("text", str) or ("undecodable", None)"""
    try:
        return ("text", data.decode("utf-8"))
    except UnicodeDecodeError:
        return ("undecodable", None)


def candidate_paths(argv):
    """every string argparse can hand to FileType from these tokens: a token, what follows `=`, any suffix"""
    out = set()
    for t in argv:
        for i in range(len(t) + 1):
            out.add(t[i:])
    return out


def probe_unwritable(p):
    """open(p, 'w') fails in the scratch directory (the harness runs as the owner of the directory)"""
    if p == "" or "\0" in p or p in (".", ".."):
        return True
    try:
        p.encode("utf-8")
    except UnicodeEncodeError:
        return True
    if os.path.isdir(p):
        return True
    d = os.path.dirname(p) or "."
    if not os.path.isdir(d):
        return True
    if len(os.path.basename(p).encode("utf-8")) > 255:
        return True
    if p.startswith("/proc/") or p.startswith("/sys/"):
        return True
    return False


class World:
    """a private directory with the input files of one case; the process runs inside it"""

    def __init__(self, files):
        self.files = files          # list of (relative name, bytes)  |  (name, None) = a directory

    def __enter__(self):
        self.old = os.getcwd()
        self.dir = tempfile.mkdtemp(prefix="verif-tools-")
        os.chdir(self.dir)
        for name, data in self.files:
            if data is None:
                os.mkdir(name)
            else:
                with open(name, "wb") as fh:
                    fh.write(data)
        return self

    def __exit__(self, *exc):
        os.chdir(self.old)
        shutil.rmtree(self.dir, True)
        return False

    def env_facts(self, argv):
        """(files, unwritable) as the model wants them, for every path string the tokens can produce"""
        files, unw = [], []
        for p in sorted(candidate_paths(argv)):
            if p == "-":
                continue
            if p == UNREADABLE and os.path.exists(UNREADABLE):
                files.append((p, ("unreadable", None)))
                unw.append(p)
                continue
            readable = False
            try:
                if "\0" not in p and p != "" and os.path.isfile(p):
                    with open(p, "rb") as fh:
                        files.append((p, decode(fh.read())))
                    readable = True
            except (OSError, ValueError):
                pass
            if probe_unwritable(p):
                unw.append(p)
            del readable
        return files, unw


def make_stdin(spec):
    """spec = (kind, payload): ("bytes", b) translating stream over the bytes; ("string", s) StringIO (no newline
    translation); ("broken", None) a stream whose read raises OSError.  Returns (stream, content, universal, name)"""
    kind, payload = spec
    if kind == "bytes":
        # like the standard input of a process: a translating text layer over a byte stream called '<stdin>'
        return (io.TextIOWrapper(_NamedBytes(payload), encoding="utf-8", newline=None), decode(payload), True, "<stdin>")
    if kind == "string":
        return io.StringIO(payload), ("text", payload), False, "<unknown>"
    return _BrokenStdin(), ("unreadable", None), True, "<unknown>"


class _KeepErr(io.StringIO):
    """main() ends with sys.stderr.close(): keep what was written"""

    def close(self):
        self.final = self.getvalue()
        super().close()


def run_tool(tool, argv, files, stdin_spec, record=False):
    """one process run inside a fresh scratch directory.  Returns (observation dict, env facts)"""
    with World(files) as w:
        facts = w.env_facts(argv)
        stream, content, universal, name = make_stdin(stdin_spec)
        mod = mod_shuffle if tool == "cnfshuffle" else mod_k2p
        out, err = io.StringIO(), _KeepErr()
        old = (sys.argv, sys.stdin, sys.stdout, sys.stderr)
        msgmod._prefix = ""
        obs = {"status": 0, "exc": None, "draws": [], "help": False, "sub": False}
        sys.argv = [tool] + list(argv)
        sys.stdin, sys.stdout, sys.stderr = stream, out, err
        rec = Recorder() if record else None
        import argparse
        import signal
        old_sig = signal.getsignal(signal.SIGINT)       # main() installs its own handler
        old_sub = argparse._SubParsersAction.__call__

        def sub_call(self, parser, namespace, values, option_string=None):
            obs["sub"] = True        # observation only: the call goes through unchanged
            return old_sub(self, parser, namespace, values, option_string)
        argparse._SubParsersAction.__call__ = sub_call
        try:
            if rec:
                rec.__enter__()
            try:
                mod.main()
            except SystemExit as e:
                code = e.code
                if code in (0, None):
                    obs["help"] = True
                else:
                    obs["status"] = code % 256 if isinstance(code, int) else 1
            except BaseException as e:  # noqa: the kind of exception is the observation
                obs["status"] = 1
                obs["exc"] = type(e).__name__
        finally:
            argparse._SubParsersAction.__call__ = old_sub
            try:
                signal.signal(signal.SIGINT, old_sig)
            except (ValueError, TypeError):
                pass
            if rec:
                rec.__exit__(None, None, None)
                obs["draws"] = list(rec.draws)
            sys.argv, sys.stdin, sys.stdout, sys.stderr = old
            msgmod._prefix = ""
        obs["stdout"] = out.getvalue()
        obs["stderr"] = err.final if err.closed else err.getvalue()
        # files written by the run (anything that is not an input file with unchanged content)
        written = {}
        before = {n: d for n, d in files if d is not None}
        for root, _dirs, names in os.walk("."):
            for n in names:
                p = os.path.normpath(os.path.join(root, n))
                with open(p, "rb") as fh:
                    data = fh.read()
                if before.get(p) != data:
                    written[p] = data
        obs["written"] = written
        obs["before"] = before
    return obs, facts, (content, universal, name)


def canonical(obs, dest_hint):
    """the driver's answer format from the observation.  dest_hint: the path the model says the text went to is not
    known here; the text is found where it is: stdout, or the single non-empty written file"""
    if obs["sub"]:
        return ok("sub")          # a transformation sub-command was taken: outside the model
    if obs["exc"]:
        return ok("escaped " + fmt_s(obs["exc"]))
    if obs["help"]:
        return ok("help")
    if obs["status"] != 0:
        lines = [l for l in obs["stderr"].split("\n")]
        if lines and lines[-1] == "":
            lines.pop()
        pfx = "c " if lines and all(l.startswith("c ") for l in lines) else ""
        return ok("cliError " + fmt_s(pfx))
    nonempty = {p: d for p, d in obs["written"].items() if d}
    if obs["stdout"]:
        return ok("ok 0 " + fmt_s(obs["stdout"]))
    if len(nonempty) == 1:
        (p, d), = nonempty.items()
        return ok("ok 1 " + fmt_s(p) + " " + fmt_s(d.decode("utf-8", "replace")))
    if not nonempty:
        return ok("silent")       # exit status 0 and nothing written: never the case since fix e014bd6
    return ok("several-files " + " ".join(sorted(nonempty)))


# ------------------------------------------------------------------------------------------------ independent readers
def denote_dimacs(text):
    """the formula a DIMACS text denotes, read off the definition of the format; None if it denotes none.
    (comment / blank lines; one `p cnf n m`; integers between zeros = clauses; 1 <= |lit| <= n; m clauses)"""
    n = m = None
    lits = []
    for line in text.split("\n"):
        s = line.strip()
        if not s or s[0] == "c":
            continue
        if s[0] == "p":
            parts = s.split()
            if n is not None or len(parts) != 4:
                return None
            try:
                n, m = int(parts[2]), int(parts[3])
            except ValueError:
                return None
            if n < 0 or m < 0:
                return None
            continue
        if n is None:
            return None
        for t in s.split():
            try:
                lits.append(int(t))
            except ValueError:
                return None
    if n is None:
        return None
    clauses, cur = [], []
    for l in lits:
        if l == 0:
            clauses.append(cur)
            cur = []
        elif abs(l) <= n:
            cur.append(l)
        else:
            return None
    if cur or len(clauses) != m:
        return None
    return n, clauses


def strict_read(text):
    """strict reader of the OUTPUT: comment lines, then `p cnf n m`, then exactly m clause lines `lits… 0`, each
    literal within 1..n, every line terminated by a line feed.  Returns (n, clauses) or a string saying why not."""
    if text == "" or not text.endswith("\n"):
        return "output does not end with a line feed"
    lines = text[:-1].split("\n")
    i = 0
    while i < len(lines) and (lines[i] == "c" or lines[i].startswith("c ")):
        i += 1
    if i == len(lines):
        return "no problem line"
    parts = lines[i].split(" ")
    if len(parts) != 4 or parts[0] != "p" or parts[1] != "cnf" or not parts[2].isdigit() or not parts[3].isdigit():
        return "bad problem line " + lines[i][:60]
    n, m = int(parts[2]), int(parts[3])
    clauses = []
    for l in lines[i + 1:]:
        toks = l.split(" ")
        if toks[-1] != "0":
            return "clause line without final 0: " + l[:60]
        c = []
        for t in toks[:-1]:
            try:
                v = int(t)
            except ValueError:
                return "not a literal: " + t[:20]
            if v == 0 or abs(v) > n or str(v) != t:
                return "literal out of range or oddly written: " + t[:20]
            c.append(v)
        clauses.append(c)
    if len(clauses) != m:
        return "problem line says {} clauses, the body has {}".format(m, len(clauses))
    return n, clauses


def denote_kth(text):
    """the DAG a kthlist text denotes: (n, preds) with preds[v] = sorted predecessor set; "notdag" if some listed
    predecessor is not smaller than its vertex; None if the text is not a kthlist file at all.  Own reading of
    www/graphformats: first line without ':' that is not a comment = size; `v : p1 p2 … 0` lines in increasing v."""
    n = None
    preds = {}
    prev = 0
    notdag = False
    for line in text.split("\n"):
        if line[:1] == "c":
            continue
        if not line.strip():
            continue
        if ":" not in line:
            if n is not None:
                return None
            try:
                n = int(line.strip())
            except ValueError:
                return None
            if n < 0:
                return None
            continue
        if line.count(":") != 1 or n is None:
            return None
        a, b = line.split(":")
        try:
            v = int(a.strip())
            ps = [int(t) for t in b.split()]
        except ValueError:
            return None
        if not ps or ps[-1] != 0:
            return None
        ps = ps[:-1]
        if not (1 <= v <= n) or any(not (1 <= p <= n) for p in ps) or v <= prev:
            return None
        prev = v
        for p in ps:
            if p >= v:
                notdag = True
            preds.setdefault(v, set()).add(p)
    if n is None:
        return None
    if notdag:
        return "notdag"
    return n, {v: sorted(preds.get(v, ())) for v in range(1, n + 1)}


def pebbling_clauses(n, preds):
    succ = {v: False for v in range(1, n + 1)}
    for v in preds:
        for p in preds[v]:
            succ[p] = True
    out = []
    for v in range(1, n + 1):
        out.append([-p for p in preds[v]] + [v])
        if not succ[v]:
            out.append([-v])
    return out


def peb_via_cnfgen(text):
    """the formula `cnfgen -q peb <file>` builds from a kthlist file with this text"""
    from cnfgen.clitools.cnfgen import cli as cli_cnfgen
    d = tempfile.mkdtemp(prefix="verif-tools-")
    old_in = sys.stdin
    try:
        p = os.path.join(d, "g.kthlist")
        with open(p, "w", encoding="utf-8", newline="") as fh:
            fh.write(text)
        sys.stdin = io.StringIO("")
        msgmod._prefix = ""
        with contextlib.redirect_stdout(io.StringIO()), contextlib.redirect_stderr(io.StringIO()):
            try:
                F = cli_cnfgen(["cnfgen", "-q", "peb", p], mode="formula")
            except BaseException as e:  # noqa
                return (type(e).__name__, [])
        return F.number_of_variables(), [list(c) for c in F.clauses()]
    finally:
        sys.stdin = old_in
        msgmod._prefix = ""
        shutil.rmtree(d, True)


def satisfiable(n, clauses):
    for alpha in common.assignments(n):
        if common.cnf_holds(clauses, alpha):
            return True
    return False


# ------------------------------------------------------------------------------------------------ the cases
def input_text_of(obs_env):
    content, universal, _name = obs_env
    if content[0] != "text":
        return None
    s = content[1]
    if universal:
        s = s.replace("\r\n", "\n").replace("\r", "\n")
    return s


def build(suite, info):
    if suite == "t_args":
        return build_args(info)
    if suite in ("t_shuffle", "t_k2p", "t_report"):
        return build_run(suite, info)
    raise ValueError("unknown suite " + suite)


STD_FILES = [("in.cnf", b"p cnf 3 2\n1 -2 0\n2 3 0\n"), ("g.kth", b"3\n1 : 0\n2 : 0\n3 : 1 2 0\n"), ("adir", None)]


class _Captured(Exception):
    def __init__(self, what):
        self.what = what


def fmt_file_arg(x, std):
    if isinstance(x, list):
        return "2"
    if x is std:
        return "0"
    return "1 " + fmt_s(x.name)


def build_args(info):
    tool, argv = info["tool"], [str(a) for a in info["argv"]]
    files = [(n, (bytes(d, "latin-1") if isinstance(d, str) else d)) for n, d in info.get("files", STD_FILES)]
    box = []

    def impl():
        with World(files) as w:
            facts = w.env_facts(argv)
            box[0].req = req("targs", 0 if tool == "cnfshuffle" else 1,
                             enc_env(("text", ""), True, "<stdin>", facts[0], facts[1]), enc_argv(argv))
            mod = mod_shuffle if tool == "cnfshuffle" else mod_k2p
            old_parse = CLIParser.parse_args
            import argparse
            old_sub = argparse._SubParsersAction.__call__

            def parse_args(self, args=None, namespace=None):
                ns = old_parse(self, args, namespace)
                raise _Captured(("ns", ns))

            def sub_call(self, parser, namespace, values, option_string=None):
                raise _Captured(("sub", list(values)))
            CLIParser.parse_args = parse_args
            argparse._SubParsersAction.__call__ = sub_call
            old = (sys.stdin, sys.stdout, sys.stderr)
            sin, sout = io.StringIO(""), io.StringIO()
            sys.stdin, sys.stdout, sys.stderr = sin, sout, io.StringIO()
            msgmod._prefix = ""
            try:
                try:
                    mod.cli([tool] + argv)
                    return "OK returned"
                except _Captured as c:
                    kind, v = c.what
                    if kind == "sub":
                        return ok("sub " + fmt_s(v[0]) + " " + str(len(v) - 1) + "".join(" " + fmt_s(t) for t in v[1:]))
                    ns = v
                    seed = getattr(ns, "seed", None)
                    b = lambda x: "1" if x else "0"  # noqa
                    ans = ("ns " + fmt_file_arg(ns.input, sin) + " " + fmt_file_arg(ns.output, sout) + " " +
                           ("1 " + fmt_s(seed) if isinstance(seed, str) else "0") + " " +
                           b(getattr(ns, "no_polarity_flips", False)) + " " + b(getattr(ns, "no_variables_permutation", False)) +
                           " " + b(getattr(ns, "no_clauses_permutation", False)) + " " + b(ns.verbose))
                    for x in (ns.input, ns.output):
                        if not isinstance(x, list) and x not in (sin, sout):
                            x.close()
                    return ok(ans)
                except SystemExit as e:
                    return ok("help") if e.code in (0, None) else "EXIT " + str(e.code)
                except CLIError:
                    return ok("error")
            finally:
                CLIParser.parse_args = old_parse
                argparse._SubParsersAction.__call__ = old_sub
                sys.stdin, sys.stdout, sys.stderr = old
                msgmod._prefix = ""
    c = Case("t_args", "targs ?", impl, None, cls=tool + ":" + arg_class(argv), nontrivial=bool(argv), info=info)
    box.append(c)
    # a provisional request (the real one needs the scratch directory: set by impl)
    c.req = req("targs", 0 if tool == "cnfshuffle" else 1, enc_env(("text", ""), True, "<stdin>", [], []), enc_argv(argv))
    return c


def arg_class(argv):
    if any(t.endswith("--") and len(t) > 2 and t.startswith("-") for t in argv):
        return "dashdash-value"
    if not argv:
        return "empty"
    if any(t in ("-h", "--help") for t in argv):
        return "help"
    if any("=" in t for t in argv):
        return "explicit"
    if any(len(t) > 2 and t[0] == "-" and t[1] != "-" for t in argv):
        return "glued"
    if any(t.startswith("--") and len(t) > 2 for t in argv):
        return "long"
    return "plain"


def build_run(suite, info):
    tool = info["tool"]
    argv = [str(a) for a in info["argv"]]
    files = [(n, (None if d is None else bytes(d, "latin-1"))) for n, d in info.get("files", [])]
    sk, sp = info.get("stdin", ["bytes", ""])
    stdin_spec = (sk, bytes(sp, "latin-1") if sk == "bytes" else sp)
    seed = info.get("seed", 0)
    state = {}
    box = []

    def impl():
        random.seed(seed)
        obs, facts, senv = run_tool(tool, argv, files, stdin_spec, record=(tool == "cnfshuffle"))
        state["obs"], state["senv"] = obs, senv
        content, universal, name = senv
        envp = enc_env(content, universal, name, facts[0], facts[1])
        if tool == "cnfshuffle":
            box[0].req = req("tshuffle", envp, enc_argv(argv), enc_draws(obs["draws"]))
        else:
            box[0].req = req("tk2p", envp, enc_argv(argv))
        return canonical(obs, None)

    def oracle():
        if "obs" not in state:
            try:
                impl()
            except Exception as e:   # noqa
                return {"implementation_not_run": repr(e)[:200]}
        return property_oracle(suite, tool, argv, files, state["obs"], state["senv"])
    c = Case(suite, ("tshuffle ?" if tool == "cnfshuffle" else "tk2p ?"), impl, oracle, cls=info.get("cls", "run"),
             nontrivial=True, info=info)
    c.stateless = True
    box.append(c)
    content = decode(stdin_spec[1]) if sk == "bytes" else (("text", sp) if sk == "string" else ("unreadable", None))
    envp = enc_env(content, sk != "string", "<stdin>" if sk == "bytes" else "<unknown>", [], [])
    c.req = req("tshuffle", envp, enc_argv(argv), [0]) if tool == "cnfshuffle" else req("tk2p", envp, enc_argv(argv))
    return c


def candidate_inputs(files, senv):
    """every text the run may have read: stdin, and each regular input file (text mode: universal newlines)"""
    out = []
    t = input_text_of(senv)
    if t is not None:
        out.append(("<stdin>", t))
    for n, d in files:
        if d is None:
            continue
        kind, s = decode(d)
        if kind == "text":
            out.append((n, s.replace("\r\n", "\n").replace("\r", "\n")))
    return out


def named_inputs(argv, files, senv):
    """the candidate inputs the command line can be naming (stdin unless an input option names a file)"""
    cands = candidate_inputs(files, senv)
    paths = candidate_paths(argv)
    named = [c for c in cands if c[0] != "<stdin>" and c[0] in paths]
    return named + [c for c in cands if c[0] == "<stdin>"]


def apply_draws(n, clauses, draws, argv_flags):
    """the shuffle the recorded draws describe: flips (choices), variable permutation (first shuffle unless -v),
    clause permutation (last shuffle unless -c); None if the draws do not have that shape"""
    choices = [v for k, v in draws if k == "c"]
    shuffles = [v for k, v in draws if k == "s"]
    m = len(clauses)
    nof, nov, noc = argv_flags
    fl = [1] * n if nof else choices
    if nof and choices:
        return "polarity flips were drawn although they are switched off"
    if len(fl) != n:
        return "{} polarity flips drawn for {} variables".format(len(fl), n)
    want = (0 if nov else 1) + (0 if noc else 1)
    if len(shuffles) != want:
        return "{} lists shuffled, {} permuted components requested".format(len(shuffles), want)
    vp = list(range(1, n + 1)) if nov else shuffles[0]
    cp = list(range(m)) if noc else shuffles[-1]
    if sorted(vp) != list(range(1, n + 1)) or sorted(cp) != list(range(m)) or any(abs(x) != 1 for x in fl):
        return "the draws are not flips in {-1,1} and permutations of the variables / clause positions"
    out = [None] * m
    for i, c in enumerate(clauses):
        out[cp[i]] = [(1 if l > 0 else -1) * fl[abs(l) - 1] * vp[abs(l) - 1] for l in c]
    return out


def model_count(n, clauses):
    return sum(1 for a in common.assignments(n) if common.cnf_holds(clauses, a))


def property_oracle(suite, tool, argv, files, obs, senv):
    where = {"tool": tool, "argv": argv, "stdin": (senv[0][1] or "")[:200] if senv[0][0] == "text" else senv[0][0],
             "files": [(n, None if d is None else d.decode("latin-1")[:200]) for n, d in files]}
    if obs["exc"]:
        return dict(where, outcome="unhandled " + obs["exc"], stderr=obs["stderr"][-300:])
    if obs["help"]:
        return None
    nonempty = {p: d for p, d in obs["written"].items() if d}
    if obs["status"] != 0:
        if obs["status"] != 255:
            return dict(where, outcome="exit status {}".format(obs["status"]))
        if obs["stdout"] or nonempty:
            return dict(where, outcome="error after output was written", stdout=obs["stdout"][:200], files_written=sorted(nonempty))
        if not obs["stderr"].strip():
            return dict(where, outcome="error without a report")
        if suite == "t_report":
            lines = [l for l in obs["stderr"].split("\n") if l != ""]
            if not all(l.startswith("c ") or l == "c" for l in lines):
                return dict(where, outcome="the error report is not prefixed with the comment marker", stderr=obs["stderr"][:300])
        return None
    # exit status 0, no help: a complete formula must have been written
    if obs["stdout"] and nonempty:
        return dict(where, outcome="text both on stdout and in a file")
    if not obs["stdout"] and not nonempty:
        return dict(where, outcome="exit status 0 and nothing written", stderr=obs["stderr"][-200:])
    if len(nonempty) > 1:
        return dict(where, outcome="several files written", files_written=sorted(nonempty))
    text = obs["stdout"] or list(nonempty.values())[0].decode("utf-8", "replace")
    got = strict_read(text)
    if isinstance(got, str):
        return dict(where, outcome="output refused by the strict reader", why=got, text=text[:300])
    gn, gcl = got
    if "-q" in argv or "--quiet" in argv:
        if not text.startswith("p cnf"):
            return dict(where, outcome="header written although quiet", text=text[:200])
    inputs = named_inputs(argv, files, senv)
    if tool == "cnfshuffle":
        flags = (any(t in ("-p", "--no-polarity-flips") for t in argv), any(t in ("-v", "--no-variables-permutation") for t in argv),
                 any(t in ("-c", "--no-clauses-permutation") for t in argv))
        plain = all(t in ("-p", "-v", "-c", "-q", "--quiet", "--no-polarity-flips", "--no-variables-permutation",
                          "--no-clauses-permutation") or not t.startswith("-") or t == "-" for t in argv)
        why = None
        for name, t in inputs:
            F = denote_dimacs(t)
            if F is None:
                why = why or "the input text denotes no formula, yet a formula was written"
                continue
            n, cl = F
            if gn != n or len(gcl) != len(cl):
                why = "counts differ: input {} vars {} clauses, output {} vars {} clauses".format(n, len(cl), gn, len(gcl))
                continue
            if sorted(map(len, gcl)) != sorted(map(len, cl)):
                why = "clause widths differ"
                continue
            if plain:
                exp = apply_draws(n, cl, obs["draws"], flags)
                if isinstance(exp, str):
                    why = exp
                    continue
                if exp != gcl:
                    why = "output is not the input renamed and reordered as drawn"
                    continue
                if all(flags) and gcl != cl:
                    why = "-p -v -c changed the formula"
                    continue
            if n <= 10 and len(cl) <= 40 and model_count(n, cl) != model_count(gn, gcl):
                why = "model count differs"
                continue
            return None
        return dict(where, outcome=why or "no input explains the output", output=[gn, gcl[:20]])
    # kthlist2pebbling
    if obs["sub"]:
        return None     # a transformation was applied: the output is a formula (checked above), not the pebbling formula
    why = None
    for name, t in inputs:
        D = denote_kth(t)
        if D is None or D == "notdag":
            why = why or "the text is not a DAG in increasing order, yet a formula was written"
            continue
        n, preds = D
        exp = pebbling_clauses(n, preds)
        if gn != n or gcl != exp:
            why = "output is not the pebbling formula of the DAG the text denotes"
            continue
        if 1 <= n <= 12 and satisfiable(gn, gcl):
            return dict(where, outcome="pebbling formula is satisfiable", output=[gn, gcl])
        if (n + len(gcl)) % 4 == 0 or n <= 3:
            # `cnfgen peb <file>` on the same text must build the same formula (sampled: the big parser is slow)
            other = peb_via_cnfgen(t)
            if other != (gn, gcl):
                return dict(where, outcome="kthlist2pebbling and `cnfgen peb <file>` differ", peb=[other[0], other[1][:20]],
                            output=[gn, gcl[:20]])
        return None
    return dict(where, outcome=why or "no input explains the output", output=[gn, gcl[:20]])


# ------------------------------------------------------------------------------------------------ generators
def rand_cnf(rng, shape=None):
    shape = shape or rng.choice(["small", "small", "empty", "novars", "emptyclause", "unused", "wide", "repeat"])
    if shape == "empty":
        return rng.choice([0, 3]), []
    if shape == "novars":
        return 0, [[] for _ in range(rng.randint(0, 2))]
    n = rng.randint(1, 6)
    m = rng.randint(1, 7)
    cl = []
    for _ in range(m):
        w = rng.randint(0 if shape == "emptyclause" else 1, 8 if shape == "wide" else 3)
        c = [rng.choice([1, -1]) * rng.randint(1, n) for _ in range(w)]
        if shape == "repeat" and c:
            c.append(c[0])
        cl.append(c)
    if shape == "unused":
        n += rng.randint(1, 3)
    return n, cl


def render_cnf(rng, n, cl, style):
    """a DIMACS text denoting (n, cl), laid out in one of several legal ways"""
    if style == "canonical":
        return "p cnf {} {}\n".format(n, len(cl)) + "".join(" ".join(map(str, c + [0])) + "\n" for c in cl)
    if style == "comments":
        return ("c a comment\nc\nc p cnf 9 9\n\np cnf {} {}\n".format(n, len(cl)) +
                "".join("c between\n" + " ".join(map(str, c + [0])) + "\n" for c in cl) + "c trailing comment\n")
    if style == "oneline":
        return "p cnf {} {}\n".format(n, len(cl)) + " ".join(" ".join(map(str, c + [0])) for c in cl) + ("\n" if cl else "")
    if style == "split":
        toks = [str(x) for c in cl for x in c + [0]]
        return "p cnf {} {}\n".format(n, len(cl)) + "\n".join(toks) + ("\n" if toks else "")
    if style == "white":
        sep = rng.choice(["\t", "  ", " \t ", "\x0b", "\x1c", "\x0c "])
        return ("  p   cnf\t{}  {} \n".format(n, len(cl)) +
                "".join(" " + sep.join(map(str, c + [0])) + " \n" for c in cl))
    if style == "crlf":
        return render_cnf(rng, n, cl, "canonical").replace("\n", "\r\n")
    if style == "cr":
        return render_cnf(rng, n, cl, "canonical").replace("\n", "\r")
    if style == "noeol":
        return render_cnf(rng, n, cl, "canonical").rstrip("\n")
    if style == "plus":
        return "p cnf +{} {}\n".format(n, len(cl)) + "".join(" ".join(("+" + str(x) if x > 0 else str(x)) for x in c + [0]).replace("+0", "0") + "\n" for c in cl)
    if style == "pother":
        return "p anything {} {}\n".format(n, len(cl)) + "".join(" ".join(map(str, c + [0])) + "\n" for c in cl)
    raise ValueError(style)


STYLES = ["canonical", "comments", "oneline", "split", "white", "crlf", "cr", "noeol", "plus", "pother"]

BAD_DIMACS = ["", "\n", "garbage", "c only a comment\n", "p cnf 2 1\n3 0\n", "p cnf 2 2\n1 0\n", "p cnf 2 1\n1 0\n2 0\n",
              "p cnf 2 1\n1 2\n", "1 0\np cnf 2 1\n", "p cnf 2 1\np cnf 2 1\n1 0\n", "p cnf 2\n", "p cnf x 1\n1 0\n",
              "p cnf -1 0\n", "p cnf 1 -1\n", "p cnf 2 1\n1 x 0\n", "p cnf 2 1\n1 0 \x85 2\n", "p cnf 2 1 3\n1 0\n",
              "pcnf 2 1\n1 0\n", "p cnf 2 1\n1 0\n\x00", "p cnf " + "9" * 5000 + " 0\n", "p cnf 2 1\n" + "1" * 5000 + " 0\n",
              "p cnf 2 1\n-0 1 0\n", "p cnf 1_0 1\n1_0 0\n", "p cnf 2 1\n1 0\n0\n", " c indented comment\np cnf 1 1\n1 0\n",
              "p cnf 0 0", "p cnf 0 1\n0\n", "p cnf 3 1\n1 -2\n\n3 0"]


def rand_dag(rng, shape=None):
    shape = shape or rng.choice(["small", "small", "path", "pyramid", "isolated", "one", "zero", "dense"])
    if shape == "zero":
        return 0, {}
    if shape == "one":
        return 1, {1: []}
    n = rng.randint(2, 8)
    preds = {}
    for v in range(1, n + 1):
        if shape == "path":
            preds[v] = [v - 1] if v > 1 else []
        elif shape == "isolated":
            preds[v] = []
        elif shape == "dense":
            preds[v] = list(range(1, v))
        elif shape == "pyramid":
            preds[v] = sorted(set(p for p in (v - 2, v - 1) if p >= 1 and v > 2))
        else:
            preds[v] = sorted(rng.sample(range(1, v), rng.randint(0, min(3, v - 1)))) if v > 1 else []
    return n, preds


def render_kth(rng, n, preds, style):
    body = "".join("{} : {}\n".format(v, " ".join(map(str, preds[v] + [0]))) for v in sorted(preds))
    if style == "canonical":
        return "c a graph name\n{}\n".format(n) + body
    if style == "noname":
        return "{}\n".format(n) + body
    if style == "blank":
        return "\nc\nc   \nc the name \n\n{}\n\n".format(n) + body.replace("\n", "\n\n") + "c end\n"
    if style == "white":
        return " {} \n".format(n) + "".join(" {}\t:\t{} \n".format(v, "  ".join(map(str, preds[v] + [0]))) for v in sorted(preds))
    if style == "crlf":
        return render_kth(rng, n, preds, "canonical").replace("\n", "\r\n")
    if style == "cr":
        return render_kth(rng, n, preds, "canonical").replace("\n", "\r")
    if style == "noeol":
        return render_kth(rng, n, preds, "canonical").rstrip("\n")
    if style == "sparse":       # vertices without predecessors may be left out
        return "{}\n".format(n) + "".join("{} : {}\n".format(v, " ".join(map(str, preds[v] + [0]))) for v in sorted(preds) if preds[v])
    if style == "unsorted":     # predecessors in decreasing order, repeated
        return "{}\n".format(n) + "".join("{} : {}\n".format(v, " ".join(map(str, preds[v][::-1] + preds[v][:1] + [0]))) for v in sorted(preds))
    if style == "oddname":
        return "c \x0bname\x1cwith\x85breaks \u00e9\n{}\n".format(n) + body
    raise ValueError(style)


KSTYLES = ["canonical", "noname", "blank", "white", "crlf", "cr", "noeol", "sparse", "unsorted", "oddname"]

BAD_KTH = ["", "\n", "x", "c name only\n", "3\n1 : 0\n2 : 3 0\n3 : 0\n", "3\n2 : 2 0\n", "3\n1 : 0\n1 : 0\n", "3\n2 : 1 0\n1 : 0\n",
           "3\n4 : 0\n", "3\n1 : 4 0\n", "3\n1 : 0\n3\n", "-1\n", "3\n1 : 2\n", "3\n1 : \n", "3\n1 : 0 : 0\n", "1 : 0\n3\n",
           "3\n1 : x 0\n", "3\nx : 0\n", "3 4\n", "3\n0 : 0\n", "2\n1 : 2 0\n2 : 0\n", "2\n1 : 0\n2 : 2 0\n", " c indented\n2\n",
           "c n\n2\n2 : 1 0\n\x00", "+2\n+1 : 0\n2 : +1 0\n", "2\n1:0\n2:1 0\n", "1_0\n"]


def gen_argvs(rng, tool, tier, fixed_only=False):
    """command lines in every spelling; file names refer to the standard scratch files"""
    inp = "in.cnf" if tool == "cnfshuffle" else "g.kth"
    flags = ["-q", "--quiet"] + (["-p", "-v", "-c", "--no-polarity-flips", "--no-variables-permutation", "--no-clauses-permutation"]
                                 if tool == "cnfshuffle" else [])
    out = [[], ["-q"], ["--quiet"], ["-h"], ["--help"], ["-o", "out.cnf"], ["--output", "out.cnf"], ["-oout.cnf"], ["-o=out.cnf"],
           ["--output=out.cnf"], ["--out", "out.cnf"], ["--o=out.cnf"], ["-i", inp], ["--input", inp], ["-i" + inp],
           ["--inp=" + inp], ["--in", inp], ["-i", "-"], ["-o", "-"], ["--input=-", "--output=-"], ["-i", inp, "-o", "out.cnf"],
           ["-o", "out.cnf", "-i", inp], ["-i", inp, "-o", inp], ["-o", inp, "-i", inp], ["-o", "new.cnf", "-i", "new.cnf"],
           ["-i", "missing"], ["-i", "adir"], ["-o", "adir"], ["-o", "nodir/x"], ["-o", ""], ["--output="], ["-i", ""], ["-o"], ["-i"],
           ["-o", "-q"], ["-o", "-5"], ["-o", "-1.5"], ["-o", "-x"], ["-o", "a b"], ["-x y"], ["-5"], ["-.5"], ["-5."], ["foo"],
           ["--"], ["--", "-q"], ["-q", "--"], ["-q", "--", "x"], ["--bogus"], ["-x"], ["-"], [""], ["--q"], ["--qui"], ["--h"],
           ["--he"], ["-h", "--bogus"], ["--bogus", "-h"], ["foo", "-h"], ["-h", "foo"], ["-o", "-h"], ["-h", "-o"], ["-qh"],
           ["-hq"], ["-hx"], ["-qx"], ["-q=1"], ["--quiet=1"], ["--quiet="], ["-q="], ["-qo", "out.cnf"], ["-qoout.cnf"],
           ["-qo=out.cnf"], ["-oq"], ["-i", "missing", "-h"], ["-h", "-i", "missing"], ["-o", "nodir/x", "-h"], ["--=x"], ["--="],
           ["-=x"], ["-q-"], ["-q--"], ["-o", "out.cnf", "-o", "out2.cnf"], ["-o", "out.cnf", "-o", "-"], ["-i", inp, "-i", "-"],
           ["-q", "-q"], ["-o", "-5\n"], ["-5\n"], ["-\u0663"], ["-o", "-\u0663"], ["-o", "\u00e9.cnf"], ["-i", UNREADABLE]]
    if tool == "cnfshuffle":
        out += [["-p"], ["-v"], ["-c"], ["-p", "-v", "-c"], ["-pvc"], ["-pvcq"], ["-cvp"], ["--no-p", "--no-v", "--no-c"],
                ["--no"], ["--no-"], ["--no-polarity-flips", "--no-variables-permutation", "--no-clauses-permutation"],
                ["--seed", "5"], ["--seed=5"], ["-S", "5"], ["-S5"], ["-S=5"], ["--seed", ""], ["--seed="], ["--seed", "-3"],
                ["--seed", "-x"], ["--se", "abc"], ["-S"], ["-pS", "7"], ["-pS7", "-c"], ["--seed", "5", "-p", "-v", "-c", "-q"],
                ["-p", "-i", inp, "-o", "out.cnf", "-q"], ["--no-polarity-flips=1"], ["-p=1"], ["-pv", "-x"], ["-ph"], ["-pi", inp],
                ["-pi" + inp], ["-pofile.cnf"], ["-S", "--seed"], ["--seed", "--"]]
    else:
        names = ["none", "xor", "shuffle", "lift", "flip", "or", "nosuch", "NONE", "xo"]
        out += [[n] for n in names] + [["xor", "2"], ["-q", "xor", "2"], ["xor", "2", "-q"], ["xor", "-h"], ["-i", inp, "or", "2"],
                ["--", "xor", "2"], ["xor", "--", "2"], ["-x", "xor", "2"], ["foo", "xor", "2"], ["xor", "2", "--bogus"],
                ["shuffle", "-p"], ["none", "--=x"], ["-o", "out.cnf", "none"], ["-5", "-h"], ["-x", "-h"], ["xor", "--="]]
    # random assembly and edits
    vocab = flags + ["-h", "-o", "-i", "--output", "--input", "out.cnf", inp, "-", "--", "missing", "x", "-5", "", "-o=out.cnf",
                     "--outp", "-oq.cnf", "-q-", "--bogus", "nodir/x", "adir", "a b"]
    if tool == "cnfshuffle":
        vocab += ["--seed", "-S", "7", "-S3", "--seed=9", "-pv", "-cq", "--no-c", "--no"]
    else:
        vocab += ["xor", "2", "none", "nosuch"]
    if fixed_only:
        return [a for a in out if all("/" not in t or t == UNREADABLE or t.endswith("nodir/x") for t in a)]
    n_rand = 60 if tier == "quick" else 1500
    for _ in range(n_rand):
        k = rng.randint(1, 5)
        out.append([rng.choice(vocab) for _ in range(k)])
    base = [a for a in out if a]
    for _ in range(40 if tier == "quick" else 1200):
        a = list(rng.choice(base))
        i = rng.randrange(len(a))
        t = a[i]
        op = rng.randrange(5)
        if op == 0 and t:
            j = rng.randrange(len(t))
            a[i] = t[:j] + t[j + 1:]
        elif op == 1:
            j = rng.randrange(len(t) + 1)
            a[i] = t[:j] + rng.choice("-=qpvcohiS x5.") + t[j:]
        elif op == 2:
            a.insert(i, rng.choice(vocab))
        elif op == 3 and len(a) > 1:
            del a[i]
        else:
            a[i] = t + rng.choice(["=", "=x", "--", "q", "h"])
        out.append(a)
    # the process runs inside a scratch directory: no token may name a path outside it
    return [a for a in out if all("/" not in t or t == UNREADABLE or t.endswith("nodir/x") for t in a)]


DASHDASH = [["-o=--"], ["-o--"], ["--output=--"], ["-i=--"], ["--input=--"], ["-i--"], ["-qo--"], ["-q", "-o=--", "-i", "-"]]
DASHDASH_SHUFFLE = [["--seed=--"], ["-S--"], ["-po--"]]


def uniq(items, key=lambda x: x):
    seen, out = set(), []
    for x in items:
        k = key(x)
        if k not in seen:
            seen.add(k)
            out.append(x)
    return out


def lat(s):
    """bytes payload as a latin-1 string (JSON-able, exact)"""
    return s.encode("utf-8").decode("latin-1") if isinstance(s, str) else s.decode("latin-1")


def cases(ctx):
    tier, seed = ctx["tier"], ctx["seed"]
    rng = common.sub_rng(seed, "C18tools")
    out = []
    std = [(n, None if d is None else d.decode("latin-1")) for n, d in STD_FILES]

    # ---- t_args
    for tool in ("cnfshuffle", "kthlist2pebbling"):
        argvs = gen_argvs(rng, tool, tier) + DASHDASH + (DASHDASH_SHUFFLE if tool == "cnfshuffle" else [])
        argvs = [a for a in argvs if UNREADABLE not in a]
        for a in uniq(argvs, key=tuple):
            out.append(build("t_args", {"tool": tool, "argv": a, "files": std}))

    # ---- t_shuffle
    dim_ok = []
    for style in STYLES:
        for _ in range(2 if tier == "quick" else 25):
            n, cl = rand_cnf(rng)
            dim_ok.append((style, render_cnf(rng, n, cl, style)))
    for shape in ("empty", "novars", "emptyclause", "unused", "wide", "repeat"):
        n, cl = rand_cnf(rng, shape)
        dim_ok.append((shape, render_cnf(rng, n, cl, "canonical")))
    big_n = 40 if tier == "quick" else 300
    n, cl = big_n, [[rng.choice([1, -1]) * rng.randint(1, big_n) for _ in range(3)] for _ in range(big_n * 3)]
    dim_ok.append(("large", render_cnf(rng, n, cl, "canonical")))
    sw = [[], ["-p"], ["-v"], ["-c"], ["-p", "-v"], ["-p", "-c"], ["-v", "-c"], ["-p", "-v", "-c"]]
    k = 0
    for style, text in dim_ok:
        for flags in (sw if tier != "quick" else [sw[k % 8], sw[(k + 3) % 8], ["-p", "-v", "-c"]]):
            k += 1
            how = k % 4
            a = list(flags) + (["-q"] if k % 3 == 0 else []) + (["--seed", str(k)] if k % 2 else [])
            info = {"tool": "cnfshuffle", "seed": k, "cls": "valid:" + style}
            if how == 0:
                info.update(argv=a, stdin=["bytes", lat(text)])
            elif how == 1:
                info.update(argv=a, stdin=["string", text])
            elif how == 2:
                info.update(argv=a + ["-i", "f.cnf"], files=[("f.cnf", lat(text))], stdin=["bytes", ""])
            else:
                info.update(argv=a + ["-i", "f.cnf", "-o", "o.cnf"], files=[("f.cnf", lat(text))], stdin=["bytes", "garbage"])
            out.append(build("t_shuffle", info))
    for i, text in enumerate(BAD_DIMACS):
        for how in ((i % 3,) if tier == "quick" else (0, 1, 2)):
            info = {"tool": "cnfshuffle", "seed": i, "cls": "malformed-text"}
            if how == 0:
                info.update(argv=[], stdin=["bytes", lat(text)])
            elif how == 1:
                info.update(argv=["-q", "-o", "o.cnf"], stdin=["string", text])
            else:
                info.update(argv=["--input", "f.cnf"], files=[("f.cnf", lat(text))], stdin=["bytes", ""])
            out.append(build("t_shuffle", info))
    # mutated valid texts
    for _ in range(25 if tier == "quick" else 600):
        n, cl = rand_cnf(rng, "small")
        t = render_cnf(rng, n, cl, rng.choice(STYLES))
        t = mutate_text(rng, t)
        out.append(build("t_shuffle", {"tool": "cnfshuffle", "argv": rng.choice(sw), "stdin": ["bytes", lat(t)], "seed": 1,
                                       "cls": "mutated-text"}))
    good = "p cnf 3 2\n1 -2 0\n2 3 0\n"
    # quick tier: the hand-written command lines only (the random ones are parsed in t_args)
    argvs = gen_argvs(rng, "cnfshuffle", tier, fixed_only=(tier == "quick"))
    for a in uniq(argvs, key=tuple):
        out.append(build("t_shuffle", {"tool": "cnfshuffle", "argv": a, "stdin": ["bytes", good], "seed": 2,
                                       "files": std, "cls": ("unreadable-input" if UNREADABLE in a else "argv:" + arg_class(a))}))
    out.append(build("t_shuffle", {"tool": "cnfshuffle", "argv": [], "stdin": ["bytes", "p cnf 1 1\n1 0\n\xff\xfe"], "seed": 0,
                                   "cls": "undecodable"}))
    out.append(build("t_shuffle", {"tool": "cnfshuffle", "argv": ["-i", "bad"], "files": [("bad", "\xff\xfe")], "stdin": ["bytes", ""],
                                   "seed": 0, "cls": "undecodable"}))
    out.append(build("t_shuffle", {"tool": "cnfshuffle", "argv": [], "stdin": ["broken", ""], "seed": 0, "cls": "unreadable-input"}))
    for a in DASHDASH + DASHDASH_SHUFFLE:
        out.append(build("t_shuffle", {"tool": "cnfshuffle", "argv": a, "stdin": ["bytes", good], "seed": 0, "files": std,
                                       "cls": "argv:dashdash-value"}))

    # ---- t_k2p
    kth_ok = []
    for style in KSTYLES:
        for _ in range(2 if tier == "quick" else 25):
            n, preds = rand_dag(rng)
            kth_ok.append((style, render_kth(rng, n, preds, style)))
    for shape in ("zero", "one", "path", "pyramid", "isolated", "dense"):
        n, preds = rand_dag(rng, shape)
        kth_ok.append((shape, render_kth(rng, n, preds, "canonical")))
    bn = 60 if tier == "quick" else 400
    preds = {v: sorted(rng.sample(range(1, v), min(2, v - 1))) for v in range(1, bn + 1)}
    kth_ok.append(("large", render_kth(rng, bn, preds, "canonical")))
    k = 0
    for style, text in kth_ok:
        for how in ((k % 4,) if tier == "quick" else (0, 1, 2, 3)):
            k += 1
            a = ["-q"] if k % 3 == 0 else []
            info = {"tool": "kthlist2pebbling", "cls": "valid:" + style}
            if how == 0:
                info.update(argv=a, stdin=["bytes", lat(text)])
            elif how == 1:
                info.update(argv=a, stdin=["string", text])
            elif how == 2:
                info.update(argv=a + ["-i", "f.kth"], files=[("f.kth", lat(text))], stdin=["bytes", ""])
            else:
                info.update(argv=a + ["--input=f.kth", "-oo.cnf"], files=[("f.kth", lat(text))], stdin=["bytes", "x"])
            out.append(build("t_k2p", info))
    for i, text in enumerate(BAD_KTH):
        for how in ((i % 3,) if tier == "quick" else (0, 1, 2)):
            info = {"tool": "kthlist2pebbling", "cls": "malformed-text"}
            if how == 0:
                info.update(argv=[], stdin=["bytes", lat(text)])
            elif how == 1:
                info.update(argv=["-q", "-o", "o.cnf"], stdin=["string", text])
            else:
                info.update(argv=["--input", "f.kth"], files=[("f.kth", lat(text))], stdin=["bytes", ""])
            out.append(build("t_k2p", info))
    for _ in range(25 if tier == "quick" else 600):
        n, preds = rand_dag(rng, "small")
        t = mutate_text(rng, render_kth(rng, n, preds, rng.choice(KSTYLES)), kth=True)
        out.append(build("t_k2p", {"tool": "kthlist2pebbling", "argv": [], "stdin": ["bytes", lat(t)], "cls": "mutated-text"}))
    goodk = "3\n1 : 0\n2 : 0\n3 : 1 2 0\n"
    for a in uniq(gen_argvs(rng, "kthlist2pebbling", tier, fixed_only=(tier == "quick")), key=tuple):
        out.append(build("t_k2p", {"tool": "kthlist2pebbling", "argv": a, "stdin": ["bytes", goodk], "files": std,
                                   "cls": ("unreadable-input" if UNREADABLE in a else "argv:" + arg_class(a))}))
    out.append(build("t_k2p", {"tool": "kthlist2pebbling", "argv": [], "stdin": ["bytes", "2\n1 : 0\n\xff"], "cls": "undecodable"}))
    out.append(build("t_k2p", {"tool": "kthlist2pebbling", "argv": [], "stdin": ["broken", ""], "cls": "unreadable-input"}))
    for a in DASHDASH:
        out.append(build("t_k2p", {"tool": "kthlist2pebbling", "argv": a, "stdin": ["bytes", goodk], "files": std,
                                   "cls": "argv:dashdash-value"}))

    # ---- t_report: the report of a refused command line / input, line by line
    for tool, argv, txt, cls in (("cnfshuffle", ["--bogus"], good, "report"), ("cnfshuffle", [], "garbage", "report"),
                                 ("cnfshuffle", ["-i", "missing"], "", "report"),
                                 ("kthlist2pebbling", ["--bogus"], goodk, "report"),
                                 ("kthlist2pebbling", ["nosuch"], goodk, "report"),
                                 ("kthlist2pebbling", [], "x", "report"),
                                 ("kthlist2pebbling", [], "2\n1 : 2 0\n", "report")):
        out.append(build("t_report", {"tool": tool, "argv": argv, "stdin": ["bytes", txt], "cls": cls}))
    for c in out:
        c.info.setdefault("tier", tier)
    return out


def mutate_text(rng, t, kth=False):
    alphabet = "0123456789 -\n:cp\t\r+x" if kth else "0123456789 -\ncp\t\r+x"
    for _ in range(rng.choice([1, 1, 2, 3])):
        if not t:
            t = rng.choice(alphabet)
            continue
        i = rng.randrange(len(t))
        op = rng.randrange(4)
        if op == 0:
            t = t[:i] + t[i + 1:]
        elif op == 1:
            t = t[:i] + rng.choice(alphabet) + t[i:]
        elif op == 2:
            t = t[:i] + rng.choice(alphabet) + t[i + 1:]
        else:
            j = t.find("\n", i)
            t = t[:i] + (t[j + 1:] if j >= 0 else "")
    return t


def search(ctx, case):
    """a disagreement is turned into a failing input by the oracle of the case itself"""
    if case.oracle is None:
        return None
    return case.oracle()
