"""C20, resource / control-flow half — fault injection against the REAL `cnfgen/utils/solver.py`.

Inside the harness process only (no source hook), the entry points that solver.py uses to reach the outside world are
replaced for the duration of one call:

    solver.tempfile.NamedTemporaryFile   solver.subprocess.Popen (+ .communicate)   solver.open (module global,
    shadows the builtin)   file objects (.write .read .close)   solver.os.unlink   F.to_dimacs

Each of these calls is one *resource call*; the k-th one consults the k-th entry of a FAULT SCHEDULE: `ok`, `os:<class>`
(an OSError subclass is raised) or `other:<class>` (an exception that is not an OSError).  The process behind `Popen` is
the fake solver of harness/fake_solver.py (a real child process in a private PATH / TMPDIR) with a chosen BEHAVIOUR:
raw standard output, raw result file or none, exit status, and whether it deletes its input / result file.

Suites
  fault      : one interface function called directly (`_satsolve_stdin_stdout` / `_filein_stdout` / `_filein_fileout`)
  faultsolve : the same through `CNF.solve(cmd, sameas)` and `CNF.is_satisfiable` (selection + probe + interface)
Correspondence (both): outcome (verdict or exception KIND), indices of the temporary files that survive, those whose
removal was refused, whether a solver was started, and the exact sequence of resource calls — against the Lean model
`runProg .current` / `solveW .current` (driver requests `frun`, `fsolve`) for the same schedule and behaviour.
ORACLE (independent of the model): every temporary file created by the call is gone unless its removal was attempted
and refused by an injected fault; the outcome is the verdict the fake solver really gave, or the documented RuntimeError
(ValueError for an unknown `sameas`) — a non-OSError exception injected by the schedule may propagate; `is_satisfiable`
gives the first component / the same error kind.

Known findings (real defects of the current source, model follows the code, see notes/C20.md):
  C20-R1  class `prologue-fault`: a failure between the creation of the temporary file(s) and the `try` leaves them behind
          and comes out as a raw OSError
  C20-R2  class `cleanup-fault` : an OSError of os.unlink in the `finally` (also: the solver deleted the file) comes out raw
          and the second removal is skipped
A case keeps such a label only while the real code behaves exactly as the model of the current source predicts
(`<label>:deviates` otherwise), so a known finding never masks a different failure.
"""
import json
import os
import subprocess
import tempfile

from harness import common
from harness.common import Case, req, enc_list
from harness.props import C20 as base

from cnfgen import CNF
from cnfgen.utils import solver as real_solver

RULE = ("fault/faultsolve: for each of the three conventions, EVERY position k of a single fault (OSError subclasses "
        "PermissionError / FileNotFoundError / ENOSPC / EMFILE / BrokenPipeError and non-OSErrors MemoryError / KeyError / "
        "RecursionError) × solver behaviours (satisfiable, unsatisfiable, silent, garbled, non-ASCII + split answer, empty "
        "result file, deletes its input file, deletes its result file, both; exit status 0/1/10/20), all pairs of faults "
        "(thorough) or a sample (quick), random schedules of up to 14 entries; through the interface functions directly "
        "and through CNF.solve / is_satisfiable with auto-selection, named command with options and `sameas`; "
        "distinct = distinct request; non-trivial = at least one resource call was made")
ASSUMPTIONS = [
    "a fault at os.unlink is always an OSError (os.unlink raises nothing else); the model treats every fault there as one",
    "the solver process has finished all its file operations when communicate() returns or raises (the harness lets the "
    "real communicate() finish before raising the injected exception)",
    "KeyboardInterrupt / SystemExit during the call are out of scope",
]
TRUSTED_EXTRA = [
    "the proxies of harness/props/C20_run.py count exactly the calls of tempfile.NamedTemporaryFile, file .write/.read/.close, "
    "F.to_dimacs, subprocess.Popen, Popen.communicate, open and os.unlink made by cnfgen/utils/solver.py",
]
NOTES = [
    "temporary files and exception kinds at every fault point are PROVEN on the model (Props/C20/Run.lean) and compared "
    "call by call with the real code here; the OS, subprocess and tempfile themselves remain trusted",
]

FUNC = ["_satsolve_stdin_stdout", "_satsolve_filein_stdout", "_satsolve_filein_fileout"]
NAME_OF_IFACE = ["lingeling", "sat4j", "minisat"]
PROLOGUE = [0, 4, 6]            # resource calls before the `try` of the current source (input-class labels only)
NCALLS = [3, 7, 13]             # resource calls of a fault-free run
KNOWN_LABELS = ("prologue-fault", "cleanup-fault")
# which model the requests ask for: 2 = the reviewed snapshot that the regenerated skeletons of solver.py match
# (`Solver.sourceVariant`: `current` = /repo with C20-R1 / C20-R2 open, `patched` = with notes/C20_proposed.patch); any other
# skeleton breaks the theorem `source_is_a_reviewed_snapshot`.  0 / 1 force one of them (C20_MODEL_VARIANT, experiments).
VARIANT = int(os.environ.get("C20_MODEL_VARIANT", "2"))

OS_FAULTS = ["os:PermissionError", "os:FileNotFoundError", "os:ENOSPC", "os:EMFILE", "os:BrokenPipeError"]
OTHER_FAULTS = ["other:MemoryError", "other:KeyError", "other:RecursionError"]


def make_exc(spec):
    kind, _, cls = spec.partition(":")
    if kind == "os":
        table = {"PermissionError": PermissionError(13, "injected"), "FileNotFoundError": FileNotFoundError(2, "injected"),
                 "ENOSPC": OSError(28, "injected: no space left on device"), "EMFILE": OSError(24, "injected: too many open files"),
                 "BrokenPipeError": BrokenPipeError(32, "injected")}
        return table.get(cls, OSError(5, "injected")), "os"
    table = {"MemoryError": MemoryError("injected"), "KeyError": KeyError("injected"),
             "RecursionError": RecursionError("injected")}
    return table.get(cls, MemoryError("injected")), "other"


# ------------------------------------------------------------------ solver behaviours
def beh(stdout, file, exit=0, rm_in=False, rm_out=False, expect_out=None, expect_file=None):
    return {"stdout": stdout, "file": file, "exit": exit, "rm_in": rm_in, "rm_out": rm_out,
            "expect": [expect_out, expect_out, expect_file]}


SAT = [True, [1, -2]]
UNSAT = [False, None]
BEHAVIOURS = {
    "sat": beh("c fake\ns SATISFIABLE\nv 1 -2 0\n", "SAT\n1 -2 0\n", 10, expect_out=SAT, expect_file=SAT),
    "unsat": beh("s UNSATISFIABLE\n", "UNSAT\n", 20, expect_out=UNSAT, expect_file=UNSAT),
    "silent": beh("", None, 1),
    "garbled": beh("s SATISFIABLE\nv 1 x 0\n", "SAT\n1 x 0\n", 0),
    "split": beh("c caf\xe9\nv 2\ns SATISFIABLE\nv -1 0\n", "SAT\n2\n-1 0\n", 10, expect_out=[True, [-1, 2]],
                 expect_file=[True, [-1, 2]]),
    "emptyfile": beh("s SATISFIABLE\nv 1 -2 0\n", "", 0, expect_out=SAT),
    "rude-in": beh("s SATISFIABLE\nv 1 -2 0\n", "SAT\n1 -2 0\n", 10, rm_in=True, expect_out=SAT, expect_file=SAT),
    "rude-out": beh("s UNSATISFIABLE\n", "UNSAT\n", 20, rm_out=True, expect_out=UNSAT),
    "rude-both": beh("s SATISFIABLE\nv 1 -2 0\n", None, 0, rm_in=True, rm_out=True, expect_out=SAT),
}
FORMULA = {"n": 2, "clauses": [[1, 2], [-2]]}


# ------------------------------------------------------------------ the proxies
class Inj:
    def __init__(self, sched):
        self.sched = list(sched)
        self.k = 0
        self.trace = []
        self.names = []        # temporary files created through NamedTemporaryFile, in order
        self.refused = []
        self.injected = []     # (exception instance, kind)
        self.started = False
        self.procs = []

    def fid(self, path):
        return "f{}".format(self.names.index(path)) if path in self.names else "f?"

    def fault(self, label, only_os=False):
        self.trace.append(label)
        spec = self.sched[self.k] if self.k < len(self.sched) else "ok"
        self.k += 1
        if spec == "ok":
            return None
        if only_os and not spec.startswith("os:"):
            spec = "os:PermissionError"          # os.unlink raises nothing but OSError
        exc, kind = make_exc(spec)
        self.injected.append((exc, kind))
        return exc


class ModProxy:
    def __init__(self, real, **over):
        self.__dict__["_real"] = real
        self.__dict__.update(over)

    def __getattr__(self, name):
        return getattr(self.__dict__["_real"], name)


class TmpHandle:
    def __init__(self, inj, real):
        self._inj, self._real, self.name = inj, real, real.name

    def write(self, data):
        exc = self._inj.fault("write:" + self._inj.fid(self.name))
        if exc is not None:
            raise exc
        return self._real.write(data)

    def close(self):
        self._real.close()
        exc = self._inj.fault("close:" + self._inj.fid(self.name))
        if exc is not None:
            raise exc

    def __getattr__(self, name):
        return getattr(self._real, name)


class ReadHandle:
    def __init__(self, inj, real, path):
        self._inj, self._real, self.name = inj, real, path

    def read(self, *a):
        exc = self._inj.fault("read:" + self._inj.fid(self.name))
        if exc is not None:
            raise exc
        return self._real.read(*a)

    def close(self):
        self._real.close()
        exc = self._inj.fault("close:" + self._inj.fid(self.name))
        if exc is not None:
            raise exc

    def __del__(self):
        try:
            self._real.close()
        except Exception:
            pass

    def __getattr__(self, name):
        return getattr(self._real, name)


class PopenProxy:
    def __init__(self, inj, *a, **kw):
        args = list(kw.get("args", a[0] if a else []))
        self._inj = inj
        self._probe = args[1:2] == ["--help"]
        if self._probe:
            self._p = subprocess.Popen(*a, **kw)
            self._p.communicate()                 # reap the probe (solver.py never waits for it)
            return
        files = []
        for x in args:
            if x in inj.names:
                files.append(inj.fid(x))
        exc = inj.fault("spawn:" + ",".join(files))
        if exc is not None:
            raise exc
        self._p = subprocess.Popen(*a, **kw)
        inj.started = True
        inj.procs.append(self._p)

    def communicate(self, input=None, **kw):
        out = self._p.communicate(input, **kw)   # the process runs to completion first
        exc = self._inj.fault("communicate:" + ("0" if input is None else "1"))
        if exc is not None:
            raise exc
        return out

    def __getattr__(self, name):
        return getattr(self._p, name)


class FCNF(CNF):
    """a CNF whose rendering is a resource call"""
    _inj = None

    def to_dimacs(self, *a, **kw):
        if self._inj is not None:
            exc = self._inj.fault("render")
            if exc is not None:
                raise exc
        return super().to_dimacs(*a, **kw)


def install(inj):
    def named_temporary_file(*a, **kw):
        exc = inj.fault("mktemp:f{}".format(len(inj.names)))
        if exc is not None:
            raise exc
        real = tempfile.NamedTemporaryFile(*a, **kw)
        inj.names.append(real.name)
        return TmpHandle(inj, real)

    def fake_open(path, *a, **kw):
        exc = inj.fault("open:" + inj.fid(path))
        if exc is not None:
            raise exc
        return ReadHandle(inj, open(path, *a, **kw), path)

    def unlink(path, *a, **kw):
        exc = inj.fault("unlink:" + inj.fid(path), only_os=True)
        if exc is not None:
            inj.refused.append(path)
            raise exc
        return os.unlink(path, *a, **kw)

    saved = {k: real_solver.__dict__.get(k, None) for k in ("tempfile", "os", "subprocess", "open")}
    real_solver.tempfile = ModProxy(tempfile, NamedTemporaryFile=named_temporary_file)
    real_solver.os = ModProxy(os, unlink=unlink, remove=unlink)
    real_solver.subprocess = ModProxy(subprocess, Popen=lambda *a, **kw: PopenProxy(inj, *a, **kw))
    real_solver.open = fake_open
    return saved


def uninstall(saved):
    for k, v in saved.items():
        if v is None:
            real_solver.__dict__.pop(k, None)
        else:
            setattr(real_solver, k, v)


# ------------------------------------------------------------------ one real call
RUNS = {}


def classify_exc(inj, e):
    for exc, kind in inj.injected:
        if e is exc:
            return "OSError" if kind == "os" else "Other"
    if isinstance(e, OSError):
        return "OSError"
    return type(e).__name__


def one_call(spec, what):
    """what: 'iface' (direct), 'solve', 'issat'.  Returns the observation dict."""
    b = spec["beh"]
    tmp = base.SANDBOX.tmp
    bind = base.SANDBOX.bindir(spec["installed"])
    cfg = {"mode": "raw", "stdout": b["stdout"], "file": b["file"], "exit": b["exit"],
           "rm_in": b["rm_in"], "rm_out": b["rm_out"]}
    with open(os.path.join(bind, "config.json"), "w") as fh:
        json.dump(cfg, fh)
    F = FCNF([list(c) for c in FORMULA["clauses"]])
    inj = Inj(spec["sched"])
    saved_env = (os.environ.get("PATH"), os.environ.get("TMPDIR"), tempfile.tempdir)
    os.environ["PATH"] = bind
    os.environ["TMPDIR"] = tmp
    tempfile.tempdir = tmp
    before = set(os.listdir(tmp))
    saved = install(inj)
    F._inj = inj
    try:
        try:
            if what == "iface":
                r = getattr(real_solver, FUNC[spec["iface"]])(F, spec["cmd"])
            elif what == "solve":
                r = F.solve(cmd=spec["cmd"], sameas=spec["sameas"])
            else:
                r = F.is_satisfiable(cmd=spec["cmd"], sameas=spec["sameas"])
            out = ["ok", r]
        except Exception as e:     # noqa: the kind of the exception is the observation
            out = ["err", classify_exc(inj, e)]
    finally:
        F._inj = None
        uninstall(saved)
        for p in inj.procs:        # a process whose communicate() was never reached
            if p.poll() is None:
                try:
                    p.kill()
                except OSError:
                    pass
            try:
                p.communicate()
            except Exception:
                pass
        if saved_env[0] is None:
            os.environ.pop("PATH", None)
        else:
            os.environ["PATH"] = saved_env[0]
        if saved_env[1] is None:
            os.environ.pop("TMPDIR", None)
        else:
            os.environ["TMPDIR"] = saved_env[1]
        tempfile.tempdir = saved_env[2]
    after = sorted(set(os.listdir(tmp)) - before)
    left, foreign = [], []
    for i, p in enumerate(inj.names):          # wherever the code created them (TMPDIR or elsewhere)
        if os.path.lexists(p):
            left.append(i)
            try:
                os.unlink(p)
            except OSError:
                pass
    for f in after:                            # anything else that appeared in the private TMPDIR
        p = os.path.join(tmp, f)
        if p not in inj.names:
            foreign.append(f)
            try:
                os.unlink(p)
            except OSError:
                pass
    return {"out": out, "left": sorted(left), "foreign": foreign,
            "refused": [inj.names.index(p) for p in inj.refused if p in inj.names],
            "started": inj.started, "trace": inj.trace, "created": len(inj.names),
            "injected": [k for _, k in inj.injected], "consumed": inj.k}


def do_run(spec, what):
    key = what + json.dumps(spec, sort_keys=True)
    if key not in RUNS:
        RUNS[key] = one_call(spec, what)
    return RUNS[key]


def fmt_obs(o):
    if o["out"][0] == "err":
        head = "E " + o["out"][1]
    else:
        head = base.fmt_verdict(o["out"])[3:]
    left = "".join(" {}".format(i) for i in o["left"]) + "".join(" x" for _ in o["foreign"])
    return "OK {} | left{} | refused{} | started {} |{}".format(
        head, left, "".join(" {}".format(i) for i in o["refused"]), 1 if o["started"] else 0,
        "".join(" " + t for t in o["trace"]))


# ------------------------------------------------------------------ requests
FAULT_CODE = {"ok": 0, "os": 1, "other": 2}


def enc_sched(sched):
    return enc_list(FAULT_CODE[s.partition(":")[0]] for s in sched)


def enc_beh(b):
    out = b["stdout"]
    return [1 if b["rm_in"] else 0, 1 if b["rm_out"] else 0, 0 if b["file"] is None else 1] + \
        base.enc_text(out) + base.enc_text(b["file"] or "") + [b["exit"]]


def request(suite, spec):
    if suite == "fault":
        return req("frun", VARIANT, spec["iface"], enc_sched(spec["sched"]), enc_beh(spec["beh"]))
    inst = [len(spec["installed"])]
    for n in spec["installed"]:
        inst += base.enc_text(n)
    return req("fsolve", VARIANT, base.enc_opt(spec["cmd"]), base.enc_opt(spec["sameas"]), inst,
               enc_sched(spec["sched"]), enc_beh(spec["beh"]))


PREDICTED = {}


def predicted(r):
    """the model's answer for a request of this module (one driver call for all of them, see `cases`)"""
    if r not in PREDICTED:
        PREDICTED[r] = common.run_driver([r])[0]
    return PREDICTED[r]


# ------------------------------------------------------------------ labels and oracle
def label_of(iface, spec, o):
    """input class, from what the schedule and the solver did to THIS run (positions of the faults met)"""
    if iface is None:
        return "no-interface"
    met = [i for i, s in enumerate(spec["sched"][:o["consumed"]]) if s != "ok"]
    b = spec["beh"]
    rude = o["started"] and ((b["rm_in"] and iface >= 1) or (b["rm_out"] and iface == 2))
    if iface == 0:
        return "stdin-fault" if met else "stdin-clean"
    if met and met[0] < PROLOGUE[iface]:
        return "prologue-fault"
    if rude or any(o["trace"][i].startswith("unlink") for i in met if i < len(o["trace"])):
        return "cleanup-fault"
    return "body-fault" if met else "clean"


def iface_of(spec):
    """the convention a `faultsolve` spec ends up with, from the implementation's own table (labels only)"""
    cmd, sameas, inst = spec["cmd"], spec["sameas"], spec["installed"]
    sup = base.SUPPORTED
    if sameas is not None and sameas not in sup:
        return None
    if cmd is None or not cmd.split():
        for n in sup:
            if n in inst:
                return base.real_iface(n)
        return None
    first = cmd.split()[0]
    if first not in sup and sameas is None:
        return None
    if first not in inst:
        return None
    return base.real_iface(sameas or first)


def check_property(spec, iface, o, o2=None):
    """the property itself on one observed call; None if it holds"""
    if o["foreign"]:
        return {"files_in_TMPDIR_not_created_through_NamedTemporaryFile": o["foreign"]}
    stray = [i for i in o["left"] if i not in o["refused"]]
    if stray:
        return {"temporary_files_left_behind": ["f{}".format(i) for i in stray], "outcome": o["out"],
                "resource_calls": o["trace"], "schedule": spec["sched"][:o["consumed"]]}
    expect = None if iface is None else spec["beh"]["expect"][iface]
    other_injected = "other" in o["injected"]
    if o["out"][0] == "ok":
        b, w = o["out"][1]
        if expect is None or [b, w] != expect:
            return {"verdict": [b, w], "but_the_solver_answered": expect, "resource_calls": o["trace"]}
        if not o["started"]:
            return {"verdict_without_a_solver": [b, w]}
    else:
        kind = o["out"][1]
        want = "ValueError" if (spec.get("sameas") is not None and spec["sameas"] not in base.SUPPORTED) else "RuntimeError"
        if not (kind == want or (kind == "Other" and other_injected)):
            return {"exception": kind, "documented": want, "resource_calls": o["trace"],
                    "schedule": spec["sched"][:o["consumed"]]}
        if not o["injected"] and iface is not None and expect is not None and \
                not (spec["beh"]["rm_in"] or spec["beh"]["rm_out"]):
            return {"no_fault_and_a_usable_answer_but": o["out"], "expected": expect}
    if o2 is not None:
        a, c = o["out"], o2["out"]
        same = (a[0] == "err" and c == a) or (a[0] == "ok" and c == ["ok", a[1][0]])
        if not same:
            return {"solve": a, "is_satisfiable": c}
        stray2 = [i for i in o2["left"] if i not in o2["refused"]]
        if stray2 or o2["foreign"]:
            return {"temporary_files_left_behind_by_is_satisfiable": stray2 + o2["foreign"]}
    return None


# ------------------------------------------------------------------ cases
def build(suite, info):
    if suite not in ("fault", "faultsolve"):
        raise ValueError("unknown suite " + suite)
    spec = dict(info)
    if suite == "fault":
        spec.setdefault("installed", [NAME_OF_IFACE[spec["iface"]]])
        spec.setdefault("cmd", NAME_OF_IFACE[spec["iface"]])
        spec.setdefault("sameas", None)
        iface, what = spec["iface"], "iface"
    else:
        iface, what = iface_of(spec), "solve"
    r = request(suite, spec)

    def impl():
        o = do_run(spec, what)
        s = fmt_obs(o)
        lab = label_of(iface, spec, o)
        if lab in KNOWN_LABELS and s != predicted(r):
            lab += ":deviates"
        case.cls = lab
        return s

    def oracle():
        o = do_run(spec, what)
        o2 = do_run(spec, "issat") if suite == "faultsolve" else None
        return check_property(spec, iface, o, o2)
    case = Case(suite, r, impl, oracle, cls="pending", nontrivial=True, info=info)
    return case


def single_fault_scheds(n):
    out = []
    for k in range(n + 1):
        out.append((k, "os"))
        out.append((k, "other"))
    return out


def cases(ctx):
    quick = ctx["tier"] == "quick"
    rng = common.sub_rng(ctx["seed"], "C20_run")
    infos = []
    names = list(BEHAVIOURS)

    def sched_with(faults, rot):
        """faults: {position: 'os'|'other'} → schedule with concrete classes"""
        n = max(faults) + 1 if faults else 0
        s = ["ok"] * n
        for i, (k, kind) in enumerate(sorted(faults.items())):
            pool = OS_FAULTS if kind == "os" else OTHER_FAULTS
            s[k] = pool[(rot + i) % len(pool)]
        return s

    rot = rng.randrange(1000)
    for iface in (0, 1, 2):
        n = NCALLS[iface]
        # no fault, every behaviour
        for bn in names:
            infos.append(("fault", {"iface": iface, "sched": [], "beh": BEHAVIOURS[bn], "bname": bn}))
        # every single fault position × kind; behaviours: all (thorough) / `sat` + two rotating ones (quick)
        for k, kind in single_fault_scheds(n):
            rot += 1
            chosen = names if not quick else ["sat", names[1 + rot % (len(names) - 1)], names[1 + (rot * 7 + 3) % (len(names) - 1)]]
            for bn in dict.fromkeys(chosen):
                infos.append(("fault", {"iface": iface, "sched": sched_with({k: kind}, rot), "beh": BEHAVIOURS[bn], "bname": bn}))
        # pairs of faults
        pairs = [(a, b) for a in range(n) for b in range(a + 1, n + 1)]
        if quick:
            pairs = rng.sample(pairs, min(len(pairs), 14))
        for a, b in pairs:
            for ka, kb in (("os", "os"), ("os", "other"), ("other", "os")) if not quick else (rng.choice([("os", "os"), ("os", "other"), ("other", "os")]),):
                rot += 1
                bn = rng.choice(names)
                infos.append(("fault", {"iface": iface, "sched": sched_with({a: ka, b: kb}, rot), "beh": BEHAVIOURS[bn], "bname": bn}))
        # random schedules
        for _ in range(12 if quick else 150):
            L = rng.randint(1, 14)
            s = [rng.choice(["ok", "ok", "ok"] + [rng.choice(OS_FAULTS)] + ([rng.choice(OTHER_FAULTS)] if rng.random() < .4 else []))
                 for _ in range(L)]
            if rng.random() < .6:                       # most of them get past the calls made before the `try`
                s = ["ok"] * PROLOGUE[iface] + s
            bn = rng.choice(names)
            infos.append(("fault", {"iface": iface, "sched": s, "beh": BEHAVIOURS[bn], "bname": bn}))
        # command line with options (the file names must still be the last arguments)
        infos.append(("fault", {"iface": iface, "cmd": NAME_OF_IFACE[iface] + " --opt -k", "sched": [], "beh": BEHAVIOURS["sat"], "bname": "sat"}))

    # through CNF.solve / is_satisfiable
    for iface in (0, 1, 2):
        name = NAME_OF_IFACE[iface]
        n = NCALLS[iface]
        shapes = [{"cmd": name, "sameas": None, "installed": [name]},
                  {"cmd": None, "sameas": None, "installed": [name]},
                  {"cmd": "mysolver --x", "sameas": name, "installed": ["mysolver"]}]
        ks = list(range(n + 1)) if not quick else sorted(rng.sample(range(n + 1), min(n + 1, 5)))
        for sh in shapes:
            infos.append(("faultsolve", dict(sh, sched=[], beh=BEHAVIOURS["sat"], bname="sat")))
            for k in ks:
                rot += 1
                kind = "os" if rot % 3 else "other"
                bn = rng.choice(["sat", "unsat", "silent", "rude-in", "rude-out"])
                infos.append(("faultsolve", dict(sh, sched=sched_with({k: kind}, rot), beh=BEHAVIOURS[bn], bname=bn)))
    # selection errors: nothing may be touched, whatever the schedule
    for sh in ({"cmd": "minisat", "sameas": "nosuch", "installed": ["minisat"]},
               {"cmd": "nosuchsolver", "sameas": None, "installed": ["minisat"]},
               {"cmd": "minisat", "sameas": None, "installed": []},
               {"cmd": None, "sameas": None, "installed": []}):
        infos.append(("faultsolve", dict(sh, sched=["os:PermissionError"], beh=BEHAVIOURS["sat"], bname="sat")))

    built = []
    seen = set()
    for suite, info in infos:
        k = (suite, json.dumps(info, sort_keys=True))
        if k in seen:
            continue
        seen.add(k)
        built.append(build(suite, info))
    # the model's predictions, in one driver call (used only to decide whether a known-finding label still applies)
    reqs = [c.req for c in built if c.req not in PREDICTED]
    if reqs:
        try:
            for r, a in zip(reqs, common.run_driver(reqs)):
                PREDICTED[r] = a
        except Exception:
            pass
    for c in built:
        yield c


# ------------------------------------------------------------------ failing-input search
def _sweep(ifaces, behaviours):
    for iface in ifaces:
        for k in range(NCALLS[iface] + 1):
            for kind in ("os:PermissionError", "other:MemoryError"):
                for bn in behaviours:
                    info = {"iface": iface, "sched": ["ok"] * k + [kind], "beh": BEHAVIOURS[bn], "bname": bn}
                    c = build("fault", info)
                    common.run_impl(c)
                    r = common.run_oracle(c)
                    if r is not None and c.cls not in KNOWN_LABELS:
                        return {"suite": "fault", "info": info, "cls": c.cls, "failure": r}
    return None


def search(ctx, case):
    """the correspondence broke: look for a fault point on which the PROPERTY fails outside the known classes"""
    spec = case.info
    iface = spec.get("iface")
    if iface is None:
        iface = iface_of(spec)
    order = [iface] + [i for i in (2, 1, 0) if i != iface] if iface is not None else [2, 1, 0]
    return _sweep(order, ["sat", "unsat", "silent", "rude-out"])


def search_global(ctx):
    return _sweep([2, 1, 0], ["sat", "silent"])
