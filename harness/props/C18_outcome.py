"""C18 (outcome) — a command line, end to end: model `cliOutcome` vs the real `cnfgen`.

`cliOutcome` (lean/CnfgenModel/Cli/Outcome.lean) composes the command line -> library call interpreter
(`dispatch`, over the call templates regenerated from the helpers' source) with the family models
(`Fam.php`, `bphp`, `rphp`, `counting`, `cliqueColoring`, `Ordering.op`, `Ramsey.ptn/ramseyNumber/vdw`,
`Cpls.cpls`, `Pitfall.check`) and the `try/except` of `cli()` (`shield`).  Here the outcome CLASS of the real
tool, run in process on the same tokens — `ok`, `cliError`, `escaped:<Exception>`, `internalBug` — is
compared with it, on command lines synthesised around every validator bound AND every precondition
boundary of the generators (all small tuples over -1..5 and a few larger values, malformed tokens, wrong
arities, flags).  No oracle of its own: harness/props/C18.py evaluates the property on every argv.
"""
import contextlib
import io
import itertools
import sys

from harness import common
from harness.common import Case, req, enc_str

from cnfgen.clitools.cmdline import CLIError
from cnfgen.clitools.msg import InternalBug
from cnfgen.clitools.cnfgen import cli as cli_cnfgen
import cnfgen.clitools.msg as msgmod

RULE = ("o_*: numeric sub-commands (bphp cliquecoloring count cpls parity pitfall ptn ram rphp; php, op, vdw in their "
        "numeric forms) x all tuples over a small integer range around the validator bounds and the generators' "
        "preconditions x malformed tokens x wrong arities x flags; lines the model does not map (graph forms) are "
        "not generated; distinct = distinct (sub-command, argv)")
ASSUMPTIONS = ["PitfallFormula: the model answers with the generator's parameter checks; the graph networkx then draws "
               "is outside the model (Props/C03 proves accepted parameters satisfy networkx's precondition)"]
NOTES = ["outcome correspondence: dispatch ∘ family models ∘ shield vs the real cnfgen in process"]


def outcome_req(name, argv):
    parts = [0] + enc_str(name) + [len(argv)]
    for t in argv:
        parts += enc_str(t)
    return req("cli_outcome", parts)


def run_real(name, argv):
    msgmod._prefix = ""
    old_in = sys.stdin
    sys.stdin = io.StringIO("")
    try:
        with contextlib.redirect_stdout(io.StringIO()), contextlib.redirect_stderr(io.StringIO()):
            try:
                cli_cnfgen(["cnfgen", "-q", name] + list(argv), mode="string")
                return "OK ok"
            except CLIError:
                return "OK cliError"
            except InternalBug:
                return "OK internalBug"
            except SystemExit as e:
                return "EXIT {}".format(e.code)
            except BaseException as e:  # noqa: the kind of exception is the observation
                return "OK escaped:" + type(e).__name__
    finally:
        sys.stdin = old_in
        msgmod._prefix = ""


SMALL = ["-1", "0", "1", "2", "3", "4", "5"]
ODD = ["x", "", "1.5", "+2", "1_0", " 3", "-0", "1e1", "8", "16", "6"]
ARITY = {"bphp": 2, "cliquecoloring": 3, "count": 2, "cpls": 3, "parity": 1, "pitfall": 5, "ptn": 1, "ram": 3,
         "rphp": 3, "vdw": 3}


CORPUS = [("pitfall", ["2", "2", "2", "2", "2"]), ("pitfall", ["4", "5", "2", "2", "2"]), ("pitfall", ["4", "3", "1", "2", "2"]),
          ("pitfall", ["4", "3", "1", "1", "2"]), ("pitfall", ["4", "3", "1", "2", "3"]), ("pitfall", ["3", "1", "1", "2", "2"]),
          ("cpls", ["2", "3", "4"]), ("cpls", ["1", "4", "2"]), ("cpls", ["0", "2", "2"]), ("bphp", ["0", "3"]), ("bphp", ["3", "0"]),
          ("count", ["4", "0"]), ("count", ["0", "1"]), ("ram", ["0", "3", "5"]), ("ram", ["3", "3", "0"]), ("ptn", ["-1"]),
          ("ptn", ["0"]), ("rphp", ["0", "0", "0"]), ("cliquecoloring", ["0", "1", "1"]), ("vdw", ["0", "1", "1"]),
          ("vdw", ["5", "2", "2", "0"]), ("php", ["-1"]), ("php", ["3", "-2"]), ("op", ["-1"]), ("op", ["--total", "--smart", "3"])]


def lines(rng, tier):
    out = list(CORPUS)
    for name, n in sorted(ARITY.items()):
        if n <= 3:
            pool = SMALL if name != "cpls" else ["-1", "0", "1", "2", "3", "4", "8"]
            if name == "ram":
                pool = ["-1", "0", "1", "2", "3", "4"]
            if name == "ptn":
                pool = SMALL + ["6", "13", "26"]
            tuples = list(itertools.product(pool, repeat=n))
        else:
            # pitfall v d ny nz k: all boundaries of check (k even, nz >= 2, d < v, v*d even)
            tuples = list(itertools.product(["0", "2", "3", "4", "5"], ["0", "1", "2", "3", "4"], ["0", "1", "2"],
                                            ["1", "2", "3"], ["0", "1", "2", "3", "4"]))
            tuples += [("2", "2", "2", "2", "2"), ("4", "3", "1", "2", "2"), ("3", "1", "1", "2", "2"), ("-1", "1", "1", "2", "2")]
        for t in tuples:
            out.append((name, list(t)))
        good = [rng.choice(["1", "2", "3", "4"]) for _ in range(n)]
        for i in range(n):
            for b in ODD:
                a = list(good)
                a[i] = b
                out.append((name, a))
        for k in range(n):
            out.append((name, good[:k]))
        out.append((name, good + ["1"]))
        if name == "vdw":
            for ks in (["2"], ["0"], ["2", "3"], ["3", "-1"], ["x"], ["1", "1", "1"]):
                for base in (["6", "2", "2"], ["0", "1", "1"], ["5", "0", "2"], ["-1", "2", "2"]):
                    out.append((name, base + ks))
    # php: N, M N, M N D with D == N (the complete graph form is the plain principle)
    for fl in ([], ["--functional"], ["--onto"], ["--functional", "--onto"]):
        for a in SMALL + ["x", "1.5", ""]:
            out.append(("php", fl + [a]))
        for a, b in itertools.product(["-1", "0", "1", "3", "x"], ["-1", "0", "2", "3", "2.0"]):
            out.append(("php", [a, b] + fl))
        for a, b in (("4", "3"), ("0", "0"), ("3", "5")):
            out.append(("php", fl[:1] + [a, b, b] + fl[1:]))
        out.append(("php", fl))
    # op N with its flags (mutually exclusive group: --total --smart --knuth2 --knuth3)
    flags = ["--total", "-t", "--smart", "-s", "--knuth2", "--knuth3", "--plant", "-p"]
    for n in ["-1", "0", "1", "3", "4", "x", "2.5", "+2"]:
        out.append(("op", [n]))
        for f in flags:
            out.append(("op", [f, n]))
            out.append(("op", [n, f]))
        for f, g in itertools.combinations(["--total", "--smart", "--knuth2", "--knuth3", "--plant"], 2):
            out.append(("op", [f, g, n]))
    out.append(("op", []))
    out.append(("op", ["--plant"]))
    return out


# ---------------------------------------------------------------- o_run: graph arguments, both tools, the formula
from cnfgen.clitools.pbgen import cli as cli_pbgen   # noqa: E402


def run_req(cls, name, argv):
    parts = [cls] + enc_str(name) + [len(argv)]
    for t in argv:
        parts += enc_str(t)
    return req("cli_run", parts)


def run_real_formula(cls, name, argv):
    msgmod._prefix = ""
    old_in = sys.stdin
    sys.stdin = io.StringIO("")
    tool, cli = ("cnfgen", cli_cnfgen) if cls == 0 else ("pbgen", cli_pbgen)
    try:
        with contextlib.redirect_stdout(io.StringIO()), contextlib.redirect_stderr(io.StringIO()):
            try:
                F = cli([tool, "-q", name] + list(argv), mode="formula")
                return "OK ok " + common.fmt_formula(F)
            except CLIError:
                return "OK cliError"
            except InternalBug:
                return "OK internalBug"
            except SystemExit as e:
                return "EXIT {}".format(e.code)
            except BaseException as e:  # noqa: the kind of exception is the observation
                return "OK escaped:" + type(e).__name__
    finally:
        sys.stdin = old_in
        msgmod._prefix = ""


S_GOOD = [["complete", "3"], ["complete", "4"], ["empty", "3"], ["complete", "1"], ["empty", "1"], ["complete", "2"]]
S_BAD = [["complete", "0"], ["complete", "-1"], ["complete", "x"], ["complete"], ["empty", "0"], ["foo", "3"], ["pyramid", "2"],
         ["complete", "3", "plantclique"], ["complete", "3", ""], ["complete", "3", "-x"], ["complete", "3", "simple"],
         ["empty"], ["complete", "2.5"], ["complete", "3", "addedges"], ["complete", "3", "save"], ["kthlist"],
         ["complete", "1e1"], ["complete", "3", "complete", "3"], ["empty", "3", "4"], ["complete", "+3"], ["complete", "1_0"]]
D_GOOD = [["pyramid", "1"], ["pyramid", "2"], ["path", "2"], ["path", "0"], ["tree", "1"], ["tree", "2"], ["pyramid", "0"], ["tree", "0"]]
D_BAD = [["pyramid", "-1"], ["pyramid"], ["pyramid", "x"], ["path", "1", "2"], ["complete", "3"], ["tree", "1", "addedges", "1"],
         ["pyramid", "1", "save"], ["gml"], ["tree", "-1"], ["path", "1.0"]]
B_GOOD = [["complete", "3", "2"], ["complete", "2", "2"], ["empty", "2", "2"], ["shift", "3", "4", "1", "2"], ["shift", "2", "3", "1"],
          ["complete", "1", "1"], ["shift", "3", "3"], ["shift", "4", "3", "3", "1"]]
B_BAD = [["complete", "3"], ["complete", "0", "2"], ["complete", "3", "x"], ["shift", "3"], ["shift", "3", "4", "1", "1"],
         ["shift", "3", "4", "5"], ["shift", "3", "4", "-1"], ["empty", "2"], ["foo"], ["complete", "2", "2", "plantbiclique", "1"],
         ["complete", "3", "2", "splitedges", "1"], ["shift", "0", "3", "1"], ["empty", "2", "-2"]]


def graph_lines(rng, tier):
    out = []
    SG, DG, BG = S_GOOD + S_BAD, D_GOOD + D_BAD, B_GOOD + B_BAD
    ints = ["-1", "0", "1", "2", "3", "x", "1.5", ""]
    for g in SG:
        for k in ints:
            out.append(("kclique", [k] + g))
            out.append(("kcolor", [k] + g))
            out.append(("domset", [k] + g))
        for k in ["0", "1", "2", "3"]:
            out.append(("kcliquebin", [k] + g))
            out.append(("kclique", [k] + g + ["--no-symmetry-breaking"]))
            out.append(("kclique", ["--no-symmetry-breaking", k] + g))
            out.append(("domset", ["-a", k] + g))
            out.append(("domset", [k] + g + ["--alternative"]))
        for k, s2 in (("2", "2"), ("3", "2"), ("0", "1"), ("2", "x"), ("-1", "2")):
            out.append(("ramlb", [k, s2] + g))
        for name in ("ec", "tiling", "matching", "iso"):
            out.append((name, list(g)))
        out.append(("kclique", list(g)))            # the number is missing
        out.append(("kcolor", ["2", "3"] + g))      # a number too many: it becomes the first word of the graph
        for fl in ([], ["--total"], ["-s"], ["--knuth2"], ["--knuth3"], ["--plant"], ["--total", "--smart"], ["-t", "-p"]):
            out.append(("op", fl + g))
            out.append(("op", g + fl))
        for ch in ("first", "zero", "one", "second", ""):
            out.append(("tseitin", [ch] + g))
    for g1, g2 in itertools.product(SG[:8] + S_BAD[:4], S_GOOD[:4] + S_BAD[:5]):
        out.append(("iso", g1 + ["-e"] + g2))
        out.append(("subgraph", ["-G"] + g1 + ["-H"] + g2))
    out += [("iso", ["-e", "complete", "3"]), ("iso", ["complete", "3", "-e"]), ("subgraph", ["-G", "complete", "3"]),
            ("subgraph", ["-H", "complete", "2", "-G", "complete", "3"]), ("subgraph", []), ("iso", []),
            ("subgraph", ["-G", "complete", "3", "-G", "complete", "2", "-H", "empty", "2"])]
    for d in DG:
        out.append(("peb", list(d)))
        for s2 in ints:
            out.append(("stone", [s2] + d))
        out.append(("stone", list(d)))
        out.append(("stone", ["2"] + d + ["--sparse", "3"]))     # degree > stones: the helper's own ValueError
        out.append(("stone", ["--sparse", "x", "2"] + d))
    out += [("peb", []), ("stone", []), ("stone", ["2"])]
    for b in BG:
        for fl in ([], ["--functional"], ["--onto"], ["--functional", "--onto"]):
            out.append(("php", b + fl))
            out.append(("php", fl + b))
    return out


def build_run(info):
    cls, name, argv = info["cls"], info["name"], [str(a) for a in info["argv"]]

    memo = {}

    def impl():
        memo["real"] = run_real_formula(cls, name, argv)
        return memo["real"]

    def oracle():
        real = memo["real"] if "real" in memo else run_real_formula(cls, name, argv)
        if real.startswith("OK escaped") or real == "OK internalBug" or real.startswith("EXIT"):
            return {"command_line": [("cnfgen", "pbgen")[cls], name] + argv, "outcome": real[3:]}
        return None
    return Case("o_run", run_req(cls, name, argv), impl, oracle,
                cls=("cnfgen:", "pbgen:")[cls] + name, nontrivial=bool(argv), info=info)


# ---------------------------------------------------------------- o_chain: -T chains after a formula sub-command
def line_req(line):
    parts = [len(line)]
    for t in line:
        parts += enc_str(t)
    return req("cli_line", parts)


def run_real_line(line):
    msgmod._prefix = ""
    old_in = sys.stdin
    sys.stdin = io.StringIO("")
    try:
        with contextlib.redirect_stdout(io.StringIO()), contextlib.redirect_stderr(io.StringIO()):
            try:
                F = cli_cnfgen(["cnfgen", "-q"] + list(line), mode="formula")
                return "OK ok " + common.fmt_cnf(F)
            except CLIError:
                return "OK cliError"
            except InternalBug:
                return "OK internalBug"
            except SystemExit as e:
                return "EXIT {}".format(e.code)
            except BaseException as e:  # noqa: the kind of exception is the observation
                return "OK escaped:" + type(e).__name__
    finally:
        sys.stdin = old_in
        msgmod._prefix = ""


BASES = [["php", "3", "2"], ["php", "2", "1"], ["parity", "4"], ["op", "3"], ["count", "4", "2"], ["kcolor", "2", "complete", "3"],
         ["peb", "pyramid", "1"], ["php", "complete", "2", "2"], ["tseitin", "first", "complete", "3"], ["ptn", "5"],
         ["bphp", "0", "2"], ["php", "x"], ["kcolor", "2", "complete", "0"], ["matching", "complete", "4"], ["ram", "2", "2", "3"]]
T_OK = [["xor", "2"], ["or", "2"], ["maj", "3"], ["eq", "2"], ["neq", "2"], ["one", "2"], ["ite"], ["lift", "2"], ["flip"],
        ["none"], ["exact", "3", "1"], ["atleast", "2", "1"], ["atmost", "2", "1"], ["anybut", "2", "1"], ["xor", "1"],
        ["exact", "2", "3"], ["atleast", "2", "5"], ["lift", "1"], ["maj", "1"], ["maj", "2"], ["or", "1"]]
T_BAD = [["xor", "0"], ["xor"], ["xor", "2", "3"], ["xor", "x"], ["lift", "0"], ["exact", "3"], ["exact", "0", "1"], ["flip", "1"],
         ["ite", "2"], [], ["atmost", "2", "-1"], ["eq", "1.5"], ["one", ""], ["anybut", "2"], ["neq", "-1"]]


# always run: the only ValueError a transformation can raise behind the validators (left side of the compression graph
# != number of variables), a chunk without a transformation, a refused graph argument inside a chunk, `-T none`
CHAIN_CORPUS = [["php", "2", "1", "-T", "xorcomp", "complete", "3", "2"], ["php", "2", "1", "-T", "majcomp", "complete", "3", "2", "-T", "flip"],
                ["php", "2", "1", "-T", "xorcomp", "complete", "2", "2"], ["parity", "3", "-T", "xorcomp", "shift", "4", "3", "1"],
                ["php", "2", "1", "-T"], ["php", "2", "1", "-T", "xorcomp", "complete", "x", "2"], ["php", "2", "1", "-T", "none", "-T", "xor", "2"],
                ["php", "2", "1", "-T", "flip", "-T", "xorcomp", "empty", "3", "2"], ["php", "2", "1", "-T", "xorcomp"]]


def chain_lines(rng, tier):
    out = []
    for b in BASES:
        for t in T_OK + T_BAD:
            out.append(b + ["-T"] + t)
    # two and more steps: tiny formulas and cheap gadgets only (the size is exponential in the clause width)
    small = [["php", "2", "1"], ["parity", "3"], ["peb", "path", "1"], ["php", "complete", "2", "1"], ["php", "0"]]
    cheap = [["xor", "2"], ["or", "2"], ["eq", "2"], ["neq", "2"], ["one", "2"], ["ite"], ["lift", "2"], ["flip"], ["none"],
             ["xor", "1"], ["atleast", "2", "1"], ["maj", "2"], ["exact", "2", "1"], ["anybut", "2", "2"]]
    tiny = [["flip"], ["none"], ["xor", "1"], ["or", "1"], ["maj", "1"], ["lift", "1"], ["or", "2"], ["one", "1"]]
    for b in small:
        for t1 in cheap + T_BAD[:6]:
            for t2 in cheap + T_BAD[:5]:
                out.append(b + ["-T"] + t1 + ["-T"] + t2)
    for _ in range(40 if tier == "quick" else 300):
        b = rng.choice(small[:3])
        n = rng.choice([3, 3, 4, 5])
        line = list(b)
        for _i in range(n):
            line += ["-T"] + rng.choice(tiny + T_BAD[:4])
        out.append(line)
    # compression with a bipartite graph argument whose left side is / is not the number of variables
    for b, l in ((["php", "2", "1"], 2), (["parity", "3"], 3), (["php", "2", "2"], 4)):
        for g in (["complete", str(l), "2"], ["complete", str(l + 1), "2"], ["shift", str(l), "3", "1"], ["complete", "0", "2"],
                  ["empty", str(l), "2"], ["foo"], []):
            out.append(b + ["-T", "xorcomp"] + g)
            out.append(b + ["-T", "majcomp"] + g + ["-T", "flip"])
    return out


def build_chain(info):
    line = [str(a) for a in info["line"]]
    memo = {}

    def impl():
        memo["real"] = run_real_line(line)
        return memo["real"]

    def oracle():
        real = memo["real"] if "real" in memo else run_real_line(line)
        if real.startswith("OK escaped") or real == "OK internalBug" or real.startswith("EXIT"):
            return {"command_line": ["cnfgen"] + line, "outcome": real[3:]}
        return None
    return Case("o_chain", line_req(line), impl, oracle, cls="chain:{}".format(line.count("-T")), nontrivial=True, info=info)


def build(suite, info):
    if suite == "o_run":
        return build_run(info)
    if suite == "o_chain":
        return build_chain(info)
    if suite != "o_outcome":
        raise ValueError("unknown suite " + suite)
    name, argv = info["name"], [str(a) for a in info["argv"]]
    return Case(suite, outcome_req(name, argv), lambda: run_real(name, argv), None, cls=name,
                nontrivial=bool(argv), info=info)


def cases(ctx):
    tier, seed = ctx["tier"], ctx["seed"]
    rng = common.sub_rng(seed, "C18o")
    seen, cand = set(), []
    for name, argv in lines(rng, tier):
        key = (name, tuple(argv))
        if key not in seen:
            seen.add(key)
            cand.append((name, argv))
    # lines outside the model (e.g. `php 5 4 2`: a random bipartite graph) are not compared
    answers = common.run_driver([outcome_req(n, a) for n, a in cand])
    cand = [c for c, ans in zip(cand, answers) if ans != "UNSUPPORTED"]
    if tier == "quick":
        by = {}
        for c in cand:
            by.setdefault(c[0], []).append(c)
        cand = []
        for name in sorted(by):
            xs = by[name]
            cap = 10
            fixed = [x for x in xs if (x[0], x[1]) in [(n, a) for n, a in CORPUS]]
            rest = [x for x in xs if x not in fixed]
            cand += fixed + (rest if len(rest) <= cap else rng.sample(rest, cap))
    out = [build("o_outcome", {"name": n, "argv": a}) for n, a in cand]
    # --- o_run: graph arguments (deterministic constructions), the numeric corpus again with the formula, both tools
    seen, gl = set(), []
    for name, argv in graph_lines(rng, tier) + [(n, a) for n, a in CORPUS]:
        key = (name, tuple(argv))
        if key not in seen:
            seen.add(key)
            gl.append((name, argv))
    answers = common.run_driver([run_req(0, n, a) for n, a in gl])
    gl = [c for c, ans in zip(gl, answers) if ans != "UNSUPPORTED"]
    if tier == "quick":
        by = {}
        for c in gl:
            by.setdefault(c[0], []).append(c)
        gl = []
        for name in sorted(by):
            xs = by[name]
            gl += xs if len(xs) <= 6 else rng.sample(xs, 6)
    else:
        gl = rng.sample(gl, min(len(gl), 700))
    for n, a in gl:
        out.append(build("o_run", {"cls": 0, "name": n, "argv": a}))
    for n, a in rng.sample(gl, min(len(gl), 200 if tier == "thorough" else 16)):
        out.append(build("o_run", {"cls": 1, "name": n, "argv": a}))
    # --- o_chain: transformation chains
    seen, cl = set(), []
    for line in chain_lines(rng, tier):
        if tuple(line) not in seen:
            seen.add(tuple(line))
            cl.append(line)
    answers = common.run_driver([line_req(l) for l in cl])
    cl = [l for l, ans in zip(cl, answers) if ans != "UNSUPPORTED" and len(ans) < 200000]
    corpus_ans = common.run_driver([line_req(l) for l in CHAIN_CORPUS])
    cl = [l for l, ans in zip(CHAIN_CORPUS, corpus_ans) if ans != "UNSUPPORTED"] + \
        rng.sample(cl, min(len(cl), 62 if tier == "quick" else 700))
    for l in cl:
        out.append(build("o_chain", {"line": l}))
    for c in out:
        c.info.setdefault("seed", seed)
        c.info.setdefault("tier", tier)
    return out


def search(ctx, case):
    if case.suite in ("o_run", "o_chain"):
        return case.oracle()
    real = run_real(case.info["name"], [str(a) for a in case.info["argv"]])
    if real.startswith("OK escaped") or real == "OK internalBug":
        return {"command_line": ["cnfgen", case.info["name"]] + list(case.info["argv"]), "outcome": real[3:]}
    return None
