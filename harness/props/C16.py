"""C16 — graph objects stay consistent under any sequence of updates.

Correspondence: a history of add_edge / remove_edge / update_vertex_number / add_edges_from calls
(valid and invalid arguments) is run on the real Graph / DirectedGraph / BipartiteGraph /
CompleteBipartiteGraph object and on the Lean model; after construction and after EVERY call all
views (order, number_of_edges, edges(), neighbour / predecessor / successor lists, degrees,
has_edge on a probe square including out-of-range vertices, the ValueError of the views on bad
vertices, is_dag) are rendered to a canonical text and compared.
`watch`: the same history, but the object is LOOKED at (all views rendered / judged) only after a random subset of the steps
(driver request `ghistw`); in between it is updated unobserved, mostly by runs that bring the counts back to what they were.
`batch`: the same with add_edges_from batches of every length around the powers of two and around the integer
constants of the current source (common.probe_sizes), unordered, with repeats, with a refused pair at the start /
in the middle / at the end, and the object used afterwards.  `nxraw`: from_networkx of every class on networkx
objects of every class (Graph, DiGraph, MultiGraph, MultiDiGraph, not a networkx object) whose edge listing has
repeats, loops, both orientations, edges inside a side (model: `fromNx` on the raw listing).

Oracle (independent of the model): a plain Python set of edges is updated alongside the real
object by the obvious set semantics; every view of the real object must agree with it after every
step, an invalid call must raise ValueError and change nothing, is_dag <=> every inserted edge is
increasing, and to_networkx / from_networkx preserve (n, edge set).  When it fails, the history is
shrunk (ops deleted greedily) and the minimal failing history is part of the report.
"""
import networkx

from harness import common
from harness.common import Case, req, enc_pairs

from cnfgen.graphs import Graph, DirectedGraph, BipartiteGraph, CompleteBipartiteGraph

SIMPLE, DIRECTED, BIP, CBIP = 0, 1, 2, 3
KNAME = {SIMPLE: "simple", DIRECTED: "directed", BIP: "bipartite", CBIP: "complete-bipartite"}

RULE = ("random histories of length 0..60 on graphs with at most 8 (growing to at most 11) vertices so that "
        "collisions (duplicates, removals of present edges, re-insertions) are frequent; about 25% of the calls have "
        "invalid arguments (0, negative, n+1, n+2, self-loops, removal of non-edges, add_edges_from with a bad edge "
        "at the start / middle / end); Graph, DirectedGraph, BipartiteGraph, CompleteBipartiteGraph; a hand-made "
        "corpus of boundary histories runs first; networkx conversions from shuffled / relabelled networkx objects; "
        "add_edges_from batches of every length 0..5, 2^k-1..2^k+1 and around the constants of graphs.py (refused pair "
        "at the start / middle / end / nowhere, unordered, repeats) followed by further updates; from_networkx on "
        "networkx objects of every class (multi-edges, loops, directed where undirected is expected and v.v.); "
        "watch: histories whose views are read only at a random subset of the steps (15-50%; nothing is looked at in between), "
        "built from runs that leave the counts unchanged (an edge removed and another inserted in either order, removed and put "
        "back, net-zero runs, repeated insertions) mixed with plain insertions, removals, growth and refused calls. "
        "distinct = distinct request line; non-trivial = at least one operation (or one edge for nx)")
ASSUMPTIONS = [
    "arguments of the update calls are Python ints (other types are outside the property)",
    "networkx objects handed to from_networkx have sortable labels (simple/directed) and a 'bipartite' attribute "
    "on every node (bipartite); the theorems model them as (n, edge list) with labels 1..n",
]
TRUSTED_EXTRA = ["networkx (third party): only observed through to_networkx / from_networkx on the real objects"]
NOTES = [
    "CompleteBipartiteGraph.add_edge refuses pairs outside 1..L x 1..R with ValueError and is otherwise a no-op "
    "(finding D33, fixed in /repo); its neighbour views accept out-of-range vertices (not covered by the property's "
    "text). Modelled as is (CBipG).",
    "DirectedGraph / BipartiteGraph have no remove_edge / update_vertex_number: the call is an AttributeError "
    "(Outcome.noSuchMethod in the model) and the object is unchanged.",
]


# ------------------------------------------------------------------ encoding of histories
def enc_ops(ops):
    out = [len(ops)]
    for op in ops:
        t = op[0]
        if t == "add":
            out += [0, op[1], op[2]]
        elif t == "rem":
            out += [1, op[1], op[2]]
        elif t == "upd":
            out += [2, op[1]]
        elif t == "addm":
            out += [3] + enc_pairs(op[1])
        else:
            raise ValueError(t)
    return out


def make(kind, size):
    if kind == SIMPLE:
        return Graph(size[0])
    if kind == DIRECTED:
        return DirectedGraph(size[0])
    if kind == BIP:
        return BipartiteGraph(size[0], size[1])
    return CompleteBipartiteGraph(size[0], size[1])


def apply_op(G, op):
    """runs one call on the real object; returns 'ok' or the exception class name"""
    try:
        t = op[0]
        if t == "add":
            G.add_edge(op[1], op[2])
        elif t == "rem":
            G.remove_edge(op[1], op[2])
        elif t == "upd":
            G.update_vertex_number(op[1])
        else:
            G.add_edges_from([tuple(e) for e in op[1]])
        return "ok"
    except Exception as e:  # noqa: the class of the exception is the observation
        return type(e).__name__


# ------------------------------------------------------------------ canonical views (driver format)
def nats(l):
    return " ".join(str(x) for x in l)


def fmt_pairs(es):
    es = list(es)
    return " ".join([str(len(es))] + ["{} {}".format(u, v) for u, v in es])


def rows(ls):
    return ";".join(nats(l) for l in ls)


def catch(f, fmt):
    try:
        return fmt(f())
    except Exception as e:  # noqa
        return type(e).__name__


def bits(bs):
    return "".join("1" if b else "0" for b in bs)


def view_simple(G):
    n = G.number_of_vertices()
    V = range(1, n + 1)
    P = range(-1, n + 2)
    bad = [-1, 0, n + 1]
    return " ".join([
        str(n), str(G.number_of_edges()),
        "E", fmt_pairs(G.edges()),
        "N", rows(list(G.neighbors(u)) for u in V),
        "D", ",".join(catch(lambda: G.degree(u), str) for u in V),
        "H", bits(G.has_edge(u, v) for u in P for v in P),
        "X", ",".join(catch(lambda: list(G.neighbors(u)), nats) + "/" + catch(lambda: G.degree(u), str) for u in bad),
        "G", bits([G.is_dag()])])


def view_di(G):
    n = G.number_of_vertices()
    V = range(1, n + 1)
    P = range(-1, n + 2)
    bad = [-1, 0, n + 1]
    return " ".join([
        str(n), str(G.number_of_edges()),
        "E", fmt_pairs(G.edges()),
        "ES", fmt_pairs(G.edges_ordered_by_successors()),
        "P", rows(list(G.predecessors(u)) for u in V),
        "S", rows(list(G.successors(u)) for u in V),
        "DI", ",".join(catch(lambda: G.in_degree(u), str) for u in V),
        "DO", ",".join(catch(lambda: G.out_degree(u), str) for u in V),
        "H", bits(G.has_edge(u, v) for u in P for v in P),
        "X", ",".join("/".join([catch(lambda: list(G.predecessors(u)), nats), catch(lambda: list(G.successors(u)), nats),
                                catch(lambda: G.in_degree(u), str), catch(lambda: G.out_degree(u), str)]) for u in bad),
        "G", bits([G.is_dag()])])


def view_bip(G):
    l, r = G.left_order(), G.right_order()
    LV, RV = range(1, l + 1), range(1, r + 1)
    LP, RP = range(-1, l + 2), range(-1, r + 2)
    return " ".join([
        str(l), str(r), str(G.number_of_vertices()), str(G.number_of_edges()),
        "E", fmt_pairs(G.edges()),
        "R", rows(list(G.right_neighbors(u)) for u in LV),
        "L", rows(list(G.left_neighbors(v)) for v in RV),
        "DR", ",".join(catch(lambda: G.right_degree(u), str) for u in LV),
        "DL", ",".join(catch(lambda: G.left_degree(v), str) for v in RV),
        "H", bits(G.has_edge(u, v) for u in LP for v in RP),
        "X", ",".join(
            [catch(lambda: list(G.right_neighbors(u)), nats) + "/" + catch(lambda: G.right_degree(u), str) for u in [-1, 0, l + 1]] +
            [catch(lambda: list(G.left_neighbors(v)), nats) + "/" + catch(lambda: G.left_degree(v), str) for v in [-1, 0, r + 1]])])


VIEW = {SIMPLE: view_simple, DIRECTED: view_di, BIP: view_bip, CBIP: view_bip}


class kept_view:
    """`with kept_view(G, K):` — inside, G.edges() hands out the view object K obtained once after construction
    (a caller that keeps `E = G.edges()` and looks at it again later) instead of a fresh one"""

    def __init__(self, G, K):
        self.G, self.K = G, K

    def __enter__(self):
        if self.K is not None:
            K = self.K
            self.G.edges = lambda: K

    def __exit__(self, *a):
        if self.K is not None:
            del self.G.edges


def run_history(kind, size, ops, keep=None):
    G = make(kind, size)
    view = VIEW[kind]
    K = None
    if keep is not None:
        K = G.edges()
        list(K)
    out = [view(G)]
    for i, op in enumerate(ops, start=1):
        o = apply_op(G, op)
        with kept_view(G, K if keep is not None and i in keep else None):
            out.append(o + " " + view(G))
    return "OK " + " | ".join(out)


def run_history_watched(kind, size, ops, watch):
    """the caller LOOKS at the object only after the steps in `watch` (0 = right after construction); between two looks
    the object is updated without any of its views being read"""
    G = make(kind, size)
    view = VIEW[kind]
    out = ["W" + (" " + view(G) if 0 in watch else "")]
    for i, op in enumerate(ops, start=1):
        o = apply_op(G, op)
        out.append(o + (" " + view(G) if i in watch else ""))
    return "OK " + " | ".join(out)


# ------------------------------------------------------------------ the reference: a set of edges
class Ref:
    """what the property says the object is: a vertex count and a set of edges"""

    def __init__(self, kind, size):
        self.kind = kind
        self.size = list(size)
        self.E = set()
        self.inserted = []          # every edge accepted by an insertion (for is_dag)
        if kind == CBIP:
            self.E = {(u, v) for u in range(1, size[0] + 1) for v in range(1, size[1] + 1)}

    def valid(self, u, v):
        if self.kind == SIMPLE:
            return 1 <= u <= self.size[0] and 1 <= v <= self.size[0] and u != v
        if self.kind == DIRECTED:
            return 1 <= u <= self.size[0] and 1 <= v <= self.size[0]
        return 1 <= u <= self.size[0] and 1 <= v <= self.size[1]

    def key(self, u, v):
        return (min(u, v), max(u, v)) if self.kind == SIMPLE else (u, v)

    def has(self, u, v):
        if self.kind == SIMPLE and u == v:
            return False
        return self.key(u, v) in self.E

    def add(self, u, v):
        """expected outcome of one insertion"""
        if self.kind == CBIP:
            # the edge set is fixed: a legal pair is present already, an illegal one is refused
            return "ok" if self.valid(u, v) else "ValueError"
        if not self.valid(u, v):
            return "ValueError"
        self.E.add(self.key(u, v))
        self.inserted.append((u, v))
        return "ok"

    def step(self, op):
        t = op[0]
        if t == "add":
            return self.add(op[1], op[2])
        if t == "addm":
            for u, v in op[1]:
                if self.add(u, v) != "ok":
                    return "ValueError"
            return "ok"
        if self.kind != SIMPLE:
            return "AttributeError"           # the class has no such update
        if t == "rem":
            if self.has(op[1], op[2]):
                self.E.discard(self.key(op[1], op[2]))
            return "ok"
        if t == "upd":
            if op[1] < 0:
                return "ValueError"
            self.size[0] = max(self.size[0], op[1])
            return "ok"
        raise ValueError(t)


def check_views(G, R):
    """every view of the real object against the reference; None or a description of the first difference
    (a view that raises on a legal argument is a difference too)"""
    try:
        return _check_views(G, R)
    except Exception as e:  # noqa
        return {"view": "a view raised on a legal argument", "real_object": type(e).__name__ + ": " + str(e)[:120]}


def _check_views(G, R):
    kind = R.kind
    E = R.E

    def bad(name, got, want):
        return None if got == want else {"view": name, "real_object": repr(got)[:300], "edge_set_says": repr(want)[:300]}

    checks = []
    if kind in (SIMPLE, DIRECTED):
        n = R.size[0]
        P = range(-1, n + 2)
        checks.append(("number_of_vertices", G.number_of_vertices(), n))
        checks.append(("order", G.order(), n))
        checks.append(("vertices", list(G.vertices()), list(range(1, n + 1))))
        checks.append(("number_of_edges", G.number_of_edges(), len(E)))
        checks.append(("len(edges())", len(G.edges()), len(E)))
        checks.append(("edges()", list(G.edges()), sorted(E)))
        checks.append(("has_edge", [(u, v) for u in P for v in P if G.has_edge(u, v)],
                       [(u, v) for u in P for v in P if R.has(u, v)]))
        checks.append(("in edges()", [(u, v) for u in P for v in P if (u, v) in G.edges()],
                       [(u, v) for u in P for v in P if R.has(u, v)]))
        for u in range(1, n + 1):
            if kind == SIMPLE:
                nb = sorted({a + b - u for (a, b) in E if u in (a, b)})
                checks.append(("neighbors({})".format(u), list(G.neighbors(u)), nb))
                checks.append(("degree({})".format(u), G.degree(u), len(nb)))
            else:
                pr = sorted(a for (a, b) in E if b == u)
                su = sorted(b for (a, b) in E if a == u)
                checks.append(("predecessors({})".format(u), list(G.predecessors(u)), pr))
                checks.append(("successors({})".format(u), list(G.successors(u)), su))
                checks.append(("in_degree({})".format(u), G.in_degree(u), len(pr)))
                checks.append(("out_degree({})".format(u), G.out_degree(u), len(su)))
        if kind == SIMPLE:
            checks.append(("is_dag", G.is_dag(), False))
            checks.append(("is_directed", G.is_directed(), False))
        else:
            checks.append(("edges_ordered_by_successors", list(G.edges_ordered_by_successors()),
                           sorted(E, key=lambda e: (e[1], e[0]))))
            checks.append(("is_dag", G.is_dag(), all(u < v for (u, v) in R.inserted)))
            checks.append(("is_directed", G.is_directed(), True))
    else:
        l, r = R.size
        LP, RP = range(-1, l + 2), range(-1, r + 2)
        checks.append(("left_order", G.left_order(), l))
        checks.append(("right_order", G.right_order(), r))
        checks.append(("number_of_vertices", G.number_of_vertices(), l + r))
        checks.append(("parts", [list(p) for p in G.parts()], [list(range(1, l + 1)), list(range(1, r + 1))]))
        checks.append(("number_of_edges", G.number_of_edges(), len(E)))
        checks.append(("len(edges())", len(G.edges()), len(E)))
        checks.append(("edges()", list(G.edges()), sorted(E)))
        checks.append(("has_edge", [(u, v) for u in LP for v in RP if G.has_edge(u, v)],
                       [(u, v) for u in LP for v in RP if (u, v) in E]))
        checks.append(("in edges()", [(u, v) for u in LP for v in RP if (u, v) in G.edges()],
                       [(u, v) for u in LP for v in RP if (u, v) in E]))
        for u in range(1, l + 1):
            nb = sorted(b for (a, b) in E if a == u)
            checks.append(("right_neighbors({})".format(u), list(G.right_neighbors(u)), nb))
            checks.append(("right_degree({})".format(u), G.right_degree(u), len(nb)))
        for v in range(1, r + 1):
            nb = sorted(a for (a, b) in E if b == v)
            checks.append(("left_neighbors({})".format(v), list(G.left_neighbors(v)), nb))
            checks.append(("left_degree({})".format(v), G.left_degree(v), len(nb)))
        checks.append(("is_bipartite", G.is_bipartite(), True))
    for name, got, want in checks:
        b = bad(name, got, want)
        if b is not None:
            return b
    return None


def check_networkx(G, R):
    """to_networkx has exactly the vertices and edges; from_networkx(to_networkx(G)) is the same graph"""
    try:
        return _check_networkx(G, R)
    except Exception as e:  # noqa
        return {"view": "networkx conversion raised", "real_object": type(e).__name__ + ": " + str(e)[:120]}


def _check_networkx(G, R):
    kind = R.kind
    N = G.to_networkx()
    if kind in (SIMPLE, DIRECTED):
        n = R.size[0]
        if sorted(N.nodes()) != list(range(1, n + 1)):
            return {"view": "to_networkx nodes", "real_object": sorted(N.nodes()), "edge_set_says": list(range(1, n + 1))}
        if N.is_directed() != (kind == DIRECTED):
            return {"view": "to_networkx directedness", "real_object": N.is_directed()}
        got = sorted(R.key(u, v) for (u, v) in N.edges())
        if got != sorted(R.E):
            return {"view": "to_networkx edges", "real_object": got, "edge_set_says": sorted(R.E)}
        B = type(G).from_networkx(N)
        if B.number_of_vertices() != n or list(B.edges()) != sorted(R.E) or B.number_of_edges() != len(R.E):
            return {"view": "from_networkx(to_networkx(G))", "real_object": [B.number_of_vertices(), list(B.edges())],
                    "edge_set_says": [n, sorted(R.E)]}
        if kind == DIRECTED and B.is_dag() != all(u < v for (u, v) in R.E):
            return {"view": "is_dag after from_networkx", "real_object": B.is_dag()}
        return check_views(B, _ref_like(R))
    l, r = R.size
    left = sorted(u for u, d in N.nodes(data=True) if d.get("bipartite") == 0)
    right = sorted(u for u, d in N.nodes(data=True) if d.get("bipartite") == 1)
    if left != list(range(1, l + 1)) or right != list(range(l + 1, l + r + 1)):
        return {"view": "to_networkx nodes", "real_object": [left, right]}
    got = sorted((min(u, v), max(u, v) - l) for (u, v) in N.edges())
    if got != sorted(R.E):
        return {"view": "to_networkx edges", "real_object": got, "edge_set_says": sorted(R.E)}
    B = BipartiteGraph.from_networkx(N)
    if (B.left_order(), B.right_order()) != (l, r) or list(B.edges()) != sorted(R.E):
        return {"view": "from_networkx(to_networkx(G))", "real_object": [B.left_order(), B.right_order(), list(B.edges())],
                "edge_set_says": [l, r, sorted(R.E)]}
    R2 = _ref_like(R)
    R2.kind = BIP
    return check_views(B, R2)


def _ref_like(R):
    """the reference of a freshly built copy: same vertex count and edges, every edge inserted once"""
    R2 = Ref(R.kind, R.size)
    R2.E = set(R.E)
    R2.inserted = sorted(R.E)
    return R2


def property_fails(kind, size, ops, nx_every=False, keep=None, watch=None):
    """None if the property holds on this history, else a description of the first failure.
    keep: steps after which the views are taken through the edge view obtained (and listed once) after construction
    watch: the ONLY steps after which any view is read (0 = after construction), all views and the networkx conversion
    there; the outcome of every call is judged at every step"""
    if watch is not None:
        return _property_fails_watched(kind, size, ops, watch)
    R = Ref(kind, size)
    ctor_ok = all(s >= 0 for s in size)
    try:
        G = make(kind, size)
    except ValueError:
        return None if not ctor_ok else {"step": 0, "what": "constructor refused a legal size"}
    if not ctor_ok:
        return {"step": 0, "what": "constructor accepted a negative size"}
    f = check_views(G, R)
    if f is not None:
        f.update(step=0, op=None)
        return f
    K = None
    if keep is not None:
        K = G.edges()
        list(K)
    for i, op in enumerate(ops, start=1):
        want = R.step(op)
        got = apply_op(G, op)
        if got != want:
            return {"step": i, "op": op, "view": "outcome of the call", "real_object": got, "edge_set_says": want}
        with kept_view(G, K if keep is not None and i in keep else None):
            f = check_views(G, R)
        if f is not None:
            f.update(step=i, op=op)
            if keep is not None and i in keep:
                f["through"] = "the edge view obtained after construction and kept by the caller"
            return f
        if nx_every or i == len(ops):
            f = check_networkx(G, R)
            if f is not None:
                f.update(step=i, op=op)
                return f
    if not ops:
        f = check_networkx(G, R)
        if f is not None:
            f.update(step=0, op=None)
            return f
    return None


def _property_fails_watched(kind, size, ops, watch):
    R = Ref(kind, size)
    ctor_ok = all(s >= 0 for s in size)
    try:
        G = make(kind, size)
    except ValueError:
        return None if not ctor_ok else {"step": 0, "what": "constructor refused a legal size"}
    if not ctor_ok:
        return {"step": 0, "what": "constructor accepted a negative size"}
    for i, op in enumerate([None] + list(ops)):
        if i > 0:
            want = R.step(op)
            got = apply_op(G, op)
            if got != want:
                return {"step": i, "op": op, "view": "outcome of the call", "real_object": got, "edge_set_says": want}
        if i in watch:
            f = check_views(G, R) or check_networkx(G, R)
            if f is not None:
                f.update(step=i, op=op, views_last_read_after_step=max([w for w in watch if w < i], default=None))
                return f
    return None


SHRINKS = [0]


def shrink(kind, size, ops):
    """greedy deletion of operations (and of edges inside add_edges_from) while the property still fails"""
    SHRINKS[0] += 1
    if SHRINKS[0] > 8:                      # a broken implementation fails everywhere: shrink the first few only
        return [list(o) for o in ops]

    def fails(o):
        try:
            return property_fails(kind, size, o, nx_every=True) is not None
        except Exception:  # noqa
            return True
    ops = [list(o) for o in ops]
    if not fails(ops):
        return ops
    changed = True
    while changed:
        changed = False
        i = 0
        while i < len(ops):
            cand = ops[:i] + ops[i + 1:]
            if fails(cand):
                ops = cand
                changed = True
                continue
            if ops[i][0] == "addm":
                es = ops[i][1]
                j = 0
                while j < len(es):
                    cand = ops[:i] + [["addm", es[:j] + es[j + 1:]]] + ops[i + 1:]
                    if fails(cand):
                        ops = cand
                        es = ops[i][1]
                        changed = True
                    else:
                        j += 1
            i += 1
    return ops


def hist_oracle(kind, size, ops, keep=None):
    def oracle():
        f = property_fails(kind, size, ops, keep=keep)
        if f is None:
            return None
        if keep is not None:
            return {"graph": KNAME[kind], "initial_size": list(size), "history": ops, "kept_view_listed_after_steps": sorted(keep),
                    "first_failure": f}
        small = shrink(kind, size, ops)
        f2 = property_fails(kind, size, small, nx_every=True) or f
        return {"graph": KNAME[kind], "initial_size": list(size), "minimal_failing_history": small,
                "first_failure": f2, "on_the_generated_history": f}
    return oracle


# ------------------------------------------------------------------ networkx suites
def nx_build(kind, size, edges, labels, order, flips):
    """a networkx object for the graph (size, edges) whose nodes carry `labels` (increasing, so that the sorted
    relabelling of from_networkx maps them back to 1..n) inserted in `order`, edges in the given order, each
    reported as (v,u) when flipped (undirected kinds only)"""
    if kind == DIRECTED:
        N = networkx.DiGraph()
    else:
        N = networkx.Graph()
    if kind == BIP:
        l, r = size
        for side, i in order:
            if side == 0:
                N.add_node(labels[0][i - 1], bipartite=0)
            else:
                N.add_node(labels[1][i - 1], bipartite=1)
        for (u, v), fl in zip(edges, flips):
            a, b = labels[0][u - 1], labels[1][v - 1]
            N.add_edge(*((b, a) if fl else (a, b)))
    else:
        for i in order:
            N.add_node(labels[i - 1])
        for (u, v), fl in zip(edges, flips):
            a, b = labels[u - 1], labels[v - 1]
            N.add_edge(*((b, a) if (fl and kind == SIMPLE) else (a, b)))
    return N


# ------------------------------------------------------------------ from_networkx on ANY networkx object
NXCLASSES = [networkx.Graph, networkx.DiGraph, networkx.MultiGraph, networkx.MultiDiGraph]
NOT_NX = [None, [(1, 2)], {1: [2]}, "graph", 3]


def nxraw_object(kind, nxcls, size, labels, order, listing, other=0):
    """the networkx object of class NXCLASSES[nxcls] with the nodes of `nx_build` and the edges of `listing` (pairs
    over 1..n, bipartite: 1..l left and l+1..l+r right) added one by one, repeats and loops included"""
    if nxcls == 4:
        if other == len(NOT_NX):
            return Graph(2)                              # a cnfgen graph is not a networkx graph either
        return NOT_NX[other % len(NOT_NX)]
    N = NXCLASSES[nxcls]()
    if kind == BIP:
        l = size[0]
        for side, i in order:
            N.add_node(labels[side][i - 1], bipartite=side)
        lab = lambda x: labels[0][x - 1] if x <= l else labels[1][x - l - 1]   # noqa
    else:
        for i in order:
            N.add_node(labels[i - 1])
        lab = lambda x: labels[x - 1]   # noqa
    for u, v in listing:
        N.add_edge(lab(u), lab(v))
    return N


def nxraw_pairs(kind, size, labels, N):
    """what the object reports, in the numbering 1..n that sorting the labels gives"""
    if kind == BIP:
        rank = {x: i for i, x in enumerate(labels[0], start=1)}
        rank.update({x: size[0] + j for j, x in enumerate(labels[1], start=1)})
    else:
        rank = {x: i for i, x in enumerate(labels, start=1)}
    return [(rank[e[0]], rank[e[1]]) for e in N.edges()]


def nxraw_expect(kind, nxcls, size, pairs):
    """what the property allows `from_networkx` to do with this object: (verdict, edge set of an accepted conversion);
    verdict 'refuse' = ValueError is the only consistent answer (the type cannot hold such an edge), 'accept' = a
    legal object of the documented class, 'either' = the text of the property does not say"""
    if kind == SIMPLE:
        if any(u == v for u, v in pairs):
            return "refuse", None
        return ("accept" if nxcls == 0 else "either"), {(min(u, v), max(u, v)) for u, v in pairs}
    if kind == DIRECTED:
        if nxcls in (1, 3):
            return ("accept" if nxcls == 1 else "either"), set(pairs)
        return "either", None                            # an undirected object where a directed one is documented
    l = size[0]
    if any((u <= l) == (v <= l) for u, v in pairs):
        return "refuse", None
    return ("accept" if nxcls == 0 else "either"), {(min(u, v), max(u, v) - l) for u, v in pairs}


def nxraw_oracle(kind, klass, nxcls, size, labels, order, listing, other):
    def oracle():
        if nxcls == 4:
            return None
        N = nxraw_object(kind, nxcls, size, labels, order, listing, other)
        pairs = nxraw_pairs(kind, size, labels, N)
        verdict, E = nxraw_expect(kind, nxcls, size, pairs)
        desc = {"networkx_class": type(N).__name__, "nodes": [repr(x) for x in N.nodes(data=(kind == BIP))][:24],
                "edges": [repr(x) for x in N.edges()][:40], "converted_by": klass.__name__ + ".from_networkx"}
        try:
            B = klass.from_networkx(N)
        except ValueError:
            if verdict == "accept":
                desc["what"] = "from_networkx raised on a legal networkx graph"
                return desc
            return None
        except Exception as e:  # noqa
            desc["what"] = "from_networkx raised " + type(e).__name__
            return desc
        if verdict == "refuse":
            desc["what"] = "from_networkx accepted an object with an edge the graph type cannot hold"
            desc["result"] = {"number_of_edges": B.number_of_edges(), "edges()": [list(e) for e in B.edges()][:40]}
            return desc
        if E is None:
            # undirected object accepted as a directed graph: whatever orientation was chosen, the result must be a
            # consistent object over the same vertex pairs
            E = {(u, v) for u, v in B.edges()}
            und = {(min(u, v), max(u, v)) for u, v in pairs}
            if {(min(u, v), max(u, v)) for u, v in E} != und:
                desc["what"] = "from_networkx does not preserve the edges"
                desc["result"] = sorted(E)[:40]
                return desc
        R = Ref(kind, size)
        R.E = set(E)
        R.inserted = sorted(E)
        f = check_views(B, R)
        if f is None:
            f = check_networkx(B, R)
        if f is not None:
            f["what"] = "from_networkx does not preserve vertices/edges (all views against the edge set of the networkx object)"
            f.update(desc)
        return f
    return oracle


def build(suite, info):
    if suite not in ("hist", "batch", "watch", "nx", "nxraw"):
        raise ValueError("unknown suite " + suite)
    kind = info["kind"]
    size = list(info["size"])
    if suite in ("hist", "batch"):
        ops = [list(o) for o in info["ops"]]
        for o in ops:
            if o[0] == "addm":
                o[1] = [list(e) for e in o[1]]
        r = req("ghist", kind, size, enc_ops(ops))
        keep = set(info["keep"]) if info.get("keep") is not None else None
        if any(s < 0 for s in size):
            keep = None

        def impl():
            return run_history(kind, size, ops, keep)
        cls = KNAME[kind] + (":bad-size" if any(s < 0 for s in size) else "") + (":kept-view" if keep is not None else "")
        return Case(suite, r, impl, hist_oracle(kind, size, ops, keep), cls=cls, nontrivial=len(ops) > 0, info=info)
    if suite == "watch":
        ops = [list(o) for o in info["ops"]]
        for o in ops:
            if o[0] == "addm":
                o[1] = [list(e) for e in o[1]]
        watch = sorted(set(info["watch"]))
        r = req("ghistw", kind, size, enc_ops(ops), [len(watch)] + watch)

        def oracle():
            f = property_fails(kind, size, ops, watch=set(watch))
            if f is None:
                return None
            return {"graph": KNAME[kind], "initial_size": list(size), "history": ops, "views_read_only_after_steps": watch,
                    "first_failure": f}
        return Case(suite, r, lambda: run_history_watched(kind, size, ops, set(watch)), oracle,
                    cls=KNAME[kind] + (":bad-size" if any(s < 0 for s in size) else ""), nontrivial=len(ops) > 0, info=info)
    if suite == "nx":
        edges = [tuple(e) for e in info["edges"]]
        labels, order, flips = info["labels"], info["order"], info["flips"]
        r = req("gnx", kind, size, enc_pairs(edges))
        klass = {SIMPLE: Graph, DIRECTED: DirectedGraph, BIP: BipartiteGraph}[kind]

        def impl():
            N = nx_build(kind, size, edges, labels, order, flips)
            B = klass.from_networkx(N)
            return "OK " + VIEW[kind](B)

        def oracle():
            N = nx_build(kind, size, edges, labels, order, flips)
            try:
                B = klass.from_networkx(N)
            except Exception as e:  # noqa
                return {"what": "from_networkx raised on a legal networkx graph", "real_object": type(e).__name__,
                        "nodes": [repr(x) for x in N.nodes()][:20], "edges": [repr(x) for x in N.edges()][:20]}
            R = Ref(kind, size)
            for u, v in edges:
                if R.add(u, v) != "ok":
                    return {"generator_bug": "invalid edge in nx case"}
            if kind == DIRECTED:
                R.inserted = sorted(R.E)
            f = check_views(B, R)
            if f is not None:
                f["what"] = "from_networkx does not preserve vertices/edges"
                return f
            f = check_networkx(B, R)
            if f is not None:
                f["what"] = "to_networkx after from_networkx"
            return f
        return Case(suite, r, impl, oracle, cls=KNAME[kind], nontrivial=len(edges) > 0, info=info)
    if suite == "nxraw":
        nxcls, other = info["nxcls"], info.get("other", 0)
        labels, order, listing = info["labels"], info["order"], [tuple(e) for e in info["listing"]]
        klass = {SIMPLE: Graph, DIRECTED: DirectedGraph, BIP: BipartiteGraph}[kind]
        if nxcls == 4:
            pairs = []
        else:
            pairs = nxraw_pairs(kind, size, labels, nxraw_object(kind, nxcls, size, labels, order, listing))
        r = req("gfromnx", kind, nxcls, size, enc_pairs(pairs))

        def impl():
            return "OK " + VIEW[kind](klass.from_networkx(nxraw_object(kind, nxcls, size, labels, order, listing, other)))
        verdict = "not-networkx" if nxcls == 4 else nxraw_expect(kind, nxcls, size, pairs)[0]
        cls = "{}<-{}:{}".format(KNAME[kind], "other" if nxcls == 4 else NXCLASSES[nxcls].__name__, verdict)
        return Case(suite, r, impl, nxraw_oracle(kind, klass, nxcls, size, labels, order, listing, other), cls=cls,
                    nontrivial=len(listing) > 0, info=info)
    raise ValueError("unknown suite " + suite)


# ------------------------------------------------------------------ generators
CORPUS = [
    # simple graphs
    (SIMPLE, [0], []),
    (SIMPLE, [0], [["add", 1, 1], ["add", 0, 0], ["upd", 0], ["upd", 2], ["add", 1, 2]]),
    (SIMPLE, [1], [["add", 1, 1], ["add", 1, 2], ["rem", 1, 1], ["upd", -1]]),
    (SIMPLE, [3], [["add", 1, 2], ["add", 2, 1], ["add", 1, 2], ["rem", 2, 1], ["rem", 2, 1], ["add", 2, 1]]),
    (SIMPLE, [4], [["add", 3, 1], ["add", 3, 2], ["add", 3, 4], ["add", 1, 2], ["rem", 3, 2], ["add", 2, 4], ["rem", 1, 3]]),
    (SIMPLE, [3], [["add", 0, 1], ["add", 1, 0], ["add", -1, 2], ["add", 4, 1], ["add", 1, 4], ["add", 2, 2]]),
    (SIMPLE, [3], [["addm", [[1, 2], [2, 3], [3, 3], [1, 3]]], ["addm", [[4, 1], [1, 3]]], ["addm", []], ["addm", [[1, 3], [1, 3], [3, 1]]]]),
    (SIMPLE, [2], [["add", 1, 2], ["upd", 5], ["add", 5, 1], ["add", 2, 5], ["upd", 3], ["add", 6, 1], ["rem", 1, 5], ["rem", 5, 2]]),
    (SIMPLE, [3], [["rem", 1, 2], ["rem", 0, 0], ["rem", -1, -1], ["rem", 4, 1], ["add", 1, 2], ["rem", 1, 3], ["rem", 2, 2]]),
    (SIMPLE, [5], [["add", 5, 4], ["add", 5, 3], ["add", 5, 2], ["add", 5, 1], ["add", 1, 2], ["add", 1, 3], ["rem", 5, 3], ["rem", 1, 5]]),
    (SIMPLE, [-1], []),
    # directed graphs
    (DIRECTED, [0], [["add", 1, 1]]),
    (DIRECTED, [3], [["add", 1, 2], ["add", 1, 2], ["add", 2, 3], ["add", 1, 3]]),
    (DIRECTED, [3], [["add", 1, 2], ["add", 2, 1]]),
    (DIRECTED, [3], [["add", 2, 2]]),
    (DIRECTED, [3], [["add", 3, 1], ["add", 1, 2], ["add", 1, 2]]),
    (DIRECTED, [3], [["add", 0, 1], ["add", 4, 1], ["add", 1, 4], ["add", 2, 0], ["add", -1, -1], ["add", 1, 2]]),
    (DIRECTED, [3], [["add", 2, 1], ["add", 0, 1]]),
    (DIRECTED, [4], [["addm", [[1, 2], [3, 4], [5, 1], [4, 3]]], ["addm", [[1, 2], [2, 4]]], ["rem", 1, 2], ["upd", 7]]),
    (DIRECTED, [4], [["add", 4, 1], ["add", 3, 1], ["add", 2, 1], ["add", 1, 4], ["add", 1, 3], ["add", 1, 2]]),
    (DIRECTED, [-2], []),
    # bipartite graphs
    (BIP, [0, 0], [["add", 1, 1]]),
    (BIP, [0, 3], [["add", 1, 1], ["add", 0, 1]]),
    (BIP, [3, 0], [["add", 1, 1], ["add", 1, 0]]),
    (BIP, [3, 5], [["add", 2, 3], ["add", 2, 2], ["add", 2, 3], ["add", 3, 5], ["add", 5, 3], ["add", 4, 1], ["add", 1, 6]]),
    (BIP, [2, 2], [["addm", [[1, 1], [2, 2], [0, 1], [1, 2]]], ["addm", [[1, 2], [2, 1]]], ["rem", 1, 1], ["upd", 4]]),
    (BIP, [2, 3], [["add", 1, 3], ["add", 2, 3], ["add", 1, 1], ["add", 2, 1], ["add", 3, 1], ["add", 1, 4], ["add", -1, 1]]),
    (BIP, [-1, 2], []),
    (BIP, [2, -1], []),
    # complete bipartite graphs
    (CBIP, [0, 0], [["add", 1, 1]]),
    (CBIP, [2, 3], [["add", 1, 1], ["add", 9, 9], ["add", 0, 0], ["addm", [[1, 1], [7, 7]]], ["rem", 1, 1], ["upd", 3]]),
    (CBIP, [3, 1], []),
    (CBIP, [-1, 1], []),
]


def bad_vertex(rng, n):
    return rng.choice([0, 0, -1, -3, n + 1, n + 1, n + 2])


def gen_pair(rng, kind, size, valid):
    """one (u, v) argument pair; `valid` asks for a legal insertion argument"""
    if kind in (SIMPLE, DIRECTED):
        a = b = size[0]
    else:
        a, b = size
    if valid and a >= 1 and b >= 1 and not (kind == SIMPLE and a < 2):
        u, v = rng.randint(1, a), rng.randint(1, b)
        while kind == SIMPLE and u == v:
            v = rng.randint(1, b)
        return u, v
    w = rng.randrange(4)
    if w == 0 and kind in (SIMPLE,) and a >= 1:
        u = rng.randint(1, a)
        return u, u                                   # self-loop
    if w == 1:
        return bad_vertex(rng, a), (rng.randint(1, b) if b >= 1 else bad_vertex(rng, b))
    if w == 2:
        return (rng.randint(1, a) if a >= 1 else bad_vertex(rng, a)), bad_vertex(rng, b)
    return bad_vertex(rng, a), bad_vertex(rng, b)


def gen_history(rng, kind, size, length, p_bad=0.25):
    size = list(size)
    present = []                                       # the generator's own idea of the edges (only to aim removals)
    ops = []
    for _ in range(length):
        x = rng.random()
        if kind == SIMPLE:
            t = "add" if x < .48 else "rem" if x < .74 else "upd" if x < .82 else "addm"
        else:
            t = "add" if x < .70 else "addm" if x < .92 else "rem" if x < .96 else "upd"
        bad = rng.random() < p_bad
        if t == "add":
            u, v = gen_pair(rng, kind, size, not bad)
            ops.append(["add", u, v])
            present.append((u, v))
        elif t == "rem":
            if not bad and present and rng.random() < .8:
                u, v = rng.choice(present)
                if rng.random() < .4:
                    u, v = v, u
            else:
                u, v = gen_pair(rng, kind, size, rng.random() < .5)
            ops.append(["rem", u, v])
        elif t == "upd":
            n = size[0]
            k = rng.choice([-1, -2] if bad else [0, max(n - 1, 0), n, n + 1, n + 1, n + 2])
            if k > 11:
                k = n
            ops.append(["upd", k])
            if kind == SIMPLE and k >= 0:
                size[0] = max(n, k)
        else:
            m = rng.choice([0, 1, 2, 3, 3, 4, 5])
            es = [list(gen_pair(rng, kind, size, True)) for _ in range(m)]
            if m and rng.random() < .3:
                es[rng.randrange(m)] = list(rng.choice(es))     # a duplicate inside the batch
            if bad:
                pos = rng.choice([0, m // 2, m])
                es.insert(pos, list(gen_pair(rng, kind, size, False)))
            ops.append(["addm", es])
            present += [tuple(e) for e in es]
    return ops


def gen_watched(rng, kind, size, length):
    """a history whose views are read only at a random subset of the steps.  Between two looks the object goes through
    runs of updates, many of which leave the COUNTS as they were: an edge removed and another inserted (in either order),
    a removal and a re-insertion, net-zero runs of several removals and insertions, insertions of edges that are already
    there; plus plain insertions, removals, growth and a few refused calls.  Returns (ops, watch)"""
    n = size[0]
    E = set()
    ops = []

    def key(u, v):
        return (min(u, v), max(u, v)) if kind == SIMPLE else (u, v)

    def absent():
        if kind in (SIMPLE, DIRECTED):
            c = [(u, v) for u in range(1, n + 1) for v in range(1, n + 1) if (u < v or (kind == DIRECTED and u != v))]
        else:
            c = [(u, v) for u in range(1, size[0] + 1) for v in range(1, size[1] + 1)]
        return [e for e in c if e not in E]

    def add(e):
        u, v = e
        if kind == SIMPLE and rng.random() < .5:
            u, v = v, u
        ops.append(["add", u, v])
        E.add(key(*e))

    def rem(e):
        u, v = e
        if rng.random() < .5:
            u, v = v, u
        ops.append(["rem", u, v])
        E.discard(key(*e))
    while len(ops) < length:
        x = rng.random()
        A = absent()
        if kind != SIMPLE:
            # these classes only grow
            if x < .7 and A:
                add(rng.choice(A))
            elif x < .85 and E:
                add(rng.choice(sorted(E)))                       # already there
            elif A:
                es = rng.sample(A, min(len(A), rng.randint(1, 3)))
                ops.append(["addm", [list(e) for e in es]])
                E.update(es)
            else:
                ops.append(["add"] + list(gen_pair(rng, kind, size, False)))
            continue
        if x < .30 and E and A:                                  # rewire: the counts come back to what they were
            e, f = rng.choice(sorted(E)), rng.choice(A)
            if rng.random() < .6:
                rem(e), add(f)
            else:
                add(f), rem(e)
        elif x < .40 and E and A:                                # net-zero run
            k = rng.randint(1, min(3, len(E), len(A)))
            todo = [("r", e) for e in rng.sample(sorted(E), k)] + [("a", f) for f in rng.sample(A, k)]
            rng.shuffle(todo)
            for t, e in todo:
                rem(e) if t == "r" else add(e)
        elif x < .48 and E:                                      # removed and put back
            e = rng.choice(sorted(E))
            rem(e), add(e)
        elif x < .70 and A:
            add(rng.choice(A))
        elif x < .80 and E:
            rem(rng.choice(sorted(E)))
        elif x < .85 and E:
            add(rng.choice(sorted(E)))                           # already there
        elif x < .90 and n < 9:
            n += 1
            ops.append(["upd", n])
        elif x < .95:
            ops.append(["rem"] + list(gen_pair(rng, kind, [n], rng.random() < .5)))   # mostly not an edge
            if len(ops[-1]) == 3 and key(ops[-1][1], ops[-1][2]) in E and ops[-1][1] != ops[-1][2]:
                E.discard(key(ops[-1][1], ops[-1][2]))
        else:
            ops.append(["add"] + list(gen_pair(rng, kind, [n], False)))          # refused
    p = rng.choice([.15, .3, .5])
    watch = [i for i in range(0, len(ops) + 1) if rng.random() < p]
    if not watch or watch[-1] != len(ops):
        if rng.random() < .7:
            watch.append(len(ops))
    return ops, watch


def gen_nx(rng, kind):
    if kind == BIP:
        l, r = rng.randint(0, 6), rng.randint(0, 6)
        size = [l, r]
        allp = [(u, v) for u in range(1, l + 1) for v in range(1, r + 1)]
    else:
        n = rng.choice([0, 1, 2, 3, 5, 8, 10, 11, 12])
        size = [n]
        if kind == SIMPLE:
            allp = [(u, v) for u in range(1, n + 1) for v in range(u + 1, n + 1)]
        else:
            allp = [(u, v) for u in range(1, n + 1) for v in range(1, n + 1)]
    k = rng.randint(0, len(allp)) if rng.random() < .7 else min(len(allp), 3)
    edges = rng.sample(allp, k)
    flips = [rng.random() < .5 for _ in edges]
    style = rng.randrange(3)
    if kind == BIP:
        tot = size[0] + size[1]
        if style == 0:       # the labels to_networkx itself uses
            labels = [list(range(1, size[0] + 1)), list(range(size[0] + 1, tot + 1))]
        else:                # interleaved arbitrary increasing labels
            pool = sorted(rng.sample(range(-5, 40), tot))
            rng2 = list(pool)
            rng.shuffle(rng2)
            labels = [sorted(rng2[:size[0]]), sorted(rng2[size[0]:])]
        # from_networkx numbers each side in node order: keep each side increasing, interleave the sides
        order = [(0, i) for i in range(1, size[0] + 1)] + [(1, i) for i in range(1, size[1] + 1)]
        if style == 2:
            marks = [0] * size[0] + [1] * size[1]
            rng.shuffle(marks)
            cnt = [0, 0]
            order = []
            for s in marks:
                cnt[s] += 1
                order.append((s, cnt[s]))
        order = [list(o) for o in order]
    else:
        n = size[0]
        if style == 0:
            labels = list(range(1, n + 1))
        elif style == 1:
            labels = list(range(0, n))                 # networkx's own generators start at 0
        else:
            labels = sorted(rng.sample(range(-5, 60), n))
        order = list(range(1, n + 1))
        if rng.random() < .5:
            rng.shuffle(order)                         # sorted relabelling must not depend on insertion order
    return dict(kind=kind, size=size, edges=[list(e) for e in edges], labels=labels, order=order, flips=flips)


def gen_nxraw(rng, kind, nxcls, clean):
    """a networkx object of class `nxcls` for `from_networkx` of class `kind`; `clean` = only edges the target
    type can hold (repeats and both orientations are still there)"""
    base = gen_nx(rng, kind)
    size, labels, order = base["size"], base["labels"], base["order"]
    if kind == BIP:
        l, r = size
        n = l + r
        legal = [(u, l + v) for u in range(1, l + 1) for v in range(1, r + 1)]
        illegal = [(u, v) for u in range(1, n + 1) for v in range(1, n + 1) if (u <= l) == (v <= l)]
    else:
        n = size[0]
        legal = [(u, v) for u in range(1, n + 1) for v in range(1, n + 1) if u != v]
        illegal = [(u, u) for u in range(1, n + 1)]
        if kind == DIRECTED:
            legal, illegal = legal + illegal, []
    listing = []
    for _ in range(rng.choice([0, 1, 2, 3, 5, 8, 12, 20])):
        x = rng.random()
        if listing and x < .3:
            u, v = rng.choice(listing)                     # a parallel edge, in the same or the other orientation
            listing.append((v, u) if rng.random() < .5 else (u, v))
        elif legal:
            u, v = rng.choice(legal)
            listing.append((v, u) if (kind == BIP and rng.random() < .5) else (u, v))
    if not clean and illegal:
        for _ in range(rng.choice([1, 1, 2])):
            listing.insert(rng.randint(0, len(listing)), rng.choice(illegal))
    return dict(kind=kind, nxcls=nxcls, size=size, labels=labels, order=order, listing=[list(e) for e in listing],
                other=rng.randrange(len(NOT_NX) + 1))


def batch_lengths(tier, rng):
    """lengths of add_edges_from batches: tiny ones, around every power of two, around the integer constants of the
    current graphs.py (thresholds of fast paths cross here)"""
    top = 8 if tier == "quick" else 11
    out = {0, 1, 2, 3, 4, 5, 6, 10, 12, 20, 24, 40, 48, 100}
    for k in range(3, top + 1):
        out.update([(1 << k) - 1, 1 << k, (1 << k) + 1])
    out.update(common.probe_sizes(["graphs.py"], 0, 1 << top))
    return sorted(out)


def gen_batch(rng, kind, size, length, where):
    """a history around one long add_edges_from call: a few single insertions, the batch (pairs in no particular
    order, repeats, backward pairs and loops where the type allows them; one refused pair at `where` in
    start / middle / end / none), then the object is used again: single insertions next to what the batch touched,
    a second short batch, removals and growth for simple graphs"""
    ops = []
    for _ in range(rng.choice([0, 0, 2, 4])):
        ops.append(["add"] + list(gen_pair(rng, kind, size, True)))
    if kind in (SIMPLE, DIRECTED):
        a = b = size[0]
    else:
        a, b = size
    pool = [(u, v) for u in range(1, a + 1) for v in range(1, b + 1) if not (kind == SIMPLE and u == v)]
    style = rng.choice(["random", "random", "decreasing", "few-sources", "no-repeats"])
    if not pool:
        es = []
    elif style == "no-repeats":
        es = [list(e) for e in rng.sample(pool, min(length, len(pool)))]
    elif style == "few-sources":
        srcs = rng.sample(range(1, a + 1), min(a, 2))
        sub = [e for e in pool if e[0] in srcs]
        es = [list(rng.choice(sub)) for _ in range(length)]
    else:
        es = [list(rng.choice(pool)) for _ in range(length)]
        if style == "decreasing":
            es.sort(reverse=True)
    if where != "none":
        bad = list(gen_pair(rng, kind, size, False))
        pos = {"start": 0, "middle": len(es) // 2, "end": len(es)}[where]
        if where == "middle" and len(es) > 2 and rng.random() < .5:
            pos = rng.randint(1, len(es) - 1)
        es.insert(pos, bad)
    ops.append(["addm", es])
    for _ in range(rng.choice([1, 3, 6])):
        x = rng.random()
        if x < .6:
            ops.append(["add"] + list(gen_pair(rng, kind, size, rng.random() < .85)))
        elif x < .8:
            m = rng.choice([1, 2, 3])
            ops.append(["addm", [list(gen_pair(rng, kind, size, True)) for _ in range(m)]])
        elif kind == SIMPLE and es:
            u, v = rng.choice(es)
            ops.append(["rem", u, v])
        else:
            ops.append(["upd", size[0] + 1] if kind == SIMPLE and size[0] < 11 else ["add"] + list(gen_pair(rng, kind, size, True)))
            if ops[-1][0] == "upd":
                size = [size[0] + 1]
    return ops


def cases(ctx):
    tier, seed = ctx["tier"], ctx["seed"]
    rng = common.sub_rng(seed, "C16")
    SHRINKS[0] = 0
    for kind, size, ops in CORPUS:
        yield build("hist", dict(kind=kind, size=size, ops=ops))
    reps = 1500 if tier == "quick" else 20000
    for i in range(reps):
        kind = rng.choice([SIMPLE, SIMPLE, SIMPLE, DIRECTED, DIRECTED, BIP, BIP, CBIP] if i % 12 else [CBIP])
        if kind in (SIMPLE, DIRECTED):
            size = [rng.choice([0, 1, 2, 3, 3, 4, 4, 5, 5, 6, 7, 8])]
        else:
            size = [rng.choice([0, 1, 2, 3, 4, 5]), rng.choice([0, 1, 2, 3, 4, 5])]
        length = rng.choice([0, 1, 2, 5, 10, 20, 30, 40, 60, 60]) if rng.random() < .5 else rng.randint(0, 60)
        if kind == CBIP:
            length = min(length, 6)
        ops = gen_history(rng, kind, size, length)
        info = dict(kind=kind, size=size, ops=ops)
        if i % 3 == 0:
            # the caller keeps the edge view of the fresh object and looks at it again after some of the updates
            info["keep"] = [j for j in range(1, len(ops) + 1) if rng.random() < .3]
        yield build("hist", info)
    for i in range(reps // 3):
        yield build("nx", gen_nx(rng, rng.choice([SIMPLE, DIRECTED, BIP])))
    # ---- views read only at a random subset of the steps (the object is NOT looked at in between)
    rngw = common.sub_rng(seed, "C16-watch")
    for kind, size, ops, watch in [(SIMPLE, [4], [["add", 1, 2], ["add", 2, 3], ["rem", 2, 3], ["add", 3, 4]], [2, 4]),
                                   (SIMPLE, [4], [["add", 1, 2], ["add", 2, 3], ["add", 3, 4], ["rem", 2, 3]], [0, 1, 4]),
                                   (SIMPLE, [3], [["add", 1, 2], ["rem", 2, 1], ["add", 1, 2], ["upd", 5], ["add", 5, 1]], [1, 3, 5]),
                                   (DIRECTED, [3], [["add", 1, 2], ["add", 1, 2], ["add", 3, 1]], [1, 3]),
                                   (BIP, [2, 2], [["add", 1, 1], ["addm", [[1, 2], [2, 1]]], ["add", 1, 2]], [1, 3])]:
        yield build("watch", dict(kind=kind, size=size, ops=ops, watch=watch))
    for i in range(260 if tier == "quick" else 5000):
        kind = rngw.choice([SIMPLE, SIMPLE, SIMPLE, SIMPLE, DIRECTED, BIP])
        size = [rngw.randint(3, 7)] if kind != BIP else [rngw.randint(2, 4), rngw.randint(2, 4)]
        ops, watch = gen_watched(rngw, kind, size, rngw.choice([3, 5, 8, 12, 20, 30]))
        yield build("watch", dict(kind=kind, size=size, ops=ops, watch=watch))
    # ---- long batches with a refused pair somewhere, object used afterwards
    rngb = common.sub_rng(seed, "C16-batch")
    lengths = batch_lengths(tier, rngb)
    for length in lengths:
        for where in ("none", "start", "middle", "end"):
            kinds = [SIMPLE, DIRECTED, BIP] if (tier != "quick" or length <= 70) else [rngb.choice([SIMPLE, DIRECTED, BIP])]
            if where == "middle" and rngb.random() < .15:
                kinds = kinds + [CBIP]
            for kind in kinds:
                if kind in (SIMPLE, DIRECTED):
                    size = [rngb.choice([2, 4, 6, 8, 9, 10])]
                else:
                    size = [rngb.choice([1, 3, 5, 7]), rngb.choice([2, 4, 6])]
                yield build("batch", dict(kind=kind, size=size, ops=gen_batch(rngb, kind, size, length, where)))
    # ---- from_networkx of every class on networkx objects of every class
    rngn = common.sub_rng(seed, "C16-nxraw")
    for i in range(240 if tier == "quick" else 4000):
        kind = [SIMPLE, DIRECTED, BIP][i % 3]
        nxcls = (i // 3) % 4 if i % 13 else 4
        yield build("nxraw", gen_nxraw(rngn, kind, nxcls, clean=rngn.random() < .45))


def search(ctx, case):
    """the correspondence broke on this case: is there a history on which the PROPERTY fails?"""
    info = case.info
    if case.suite == "watch":
        r = common.run_oracle(case)
        if r is not None:
            return r
        rng = common.sub_rng(ctx["seed"], "C16-search-watch", case.req[:80])
        for _ in range(300):
            o, w = gen_watched(rng, info["kind"], list(info["size"]), rng.randint(2, 20))
            f = property_fails(info["kind"], list(info["size"]), o, watch=set(w))
            if f is not None:
                return {"graph": KNAME[info["kind"]], "initial_size": list(info["size"]), "history": o,
                        "views_read_only_after_steps": w, "first_failure": f}
        return None
    if case.suite not in ("hist", "batch"):
        return None
    kind, size = info["kind"], list(info["size"])
    ops = info["ops"]
    f = property_fails(kind, size, ops, nx_every=True)
    if f is not None:
        small = shrink(kind, size, ops)
        return {"graph": KNAME[kind], "initial_size": size, "minimal_failing_history": small,
                "first_failure": property_fails(kind, size, small, nx_every=True) or f}
    # neighbourhood: fresh random histories on the same kind and size
    rng = common.sub_rng(ctx["seed"], "C16-search", case.req[:80])
    for _ in range(300):
        o = gen_history(rng, kind, size, rng.randint(1, 40))
        f = property_fails(kind, size, o, nx_every=True)
        if f is not None:
            small = shrink(kind, size, o)
            return {"graph": KNAME[kind], "initial_size": size, "minimal_failing_history": small,
                    "first_failure": property_fails(kind, size, small, nx_every=True) or f}
    return None


def search_global(ctx):
    rng = common.sub_rng(ctx["seed"], "C16-global")
    for _ in range(600):
        kind = rng.choice([SIMPLE, DIRECTED, BIP])
        size = [rng.randint(0, 6)] if kind != BIP else [rng.randint(0, 4), rng.randint(0, 4)]
        o = gen_history(rng, kind, size, rng.randint(1, 40))
        f = property_fails(kind, size, o, nx_every=True)
        if f is not None:
            small = shrink(kind, size, o)
            return {"graph": KNAME[kind], "initial_size": size, "minimal_failing_history": small,
                    "first_failure": property_fails(kind, size, small, nx_every=True) or f}
    return None
