"""C05 — substitution, lifting, compression, flip (cnfgen/transformations/substitutions.py).

Correspondence: the transformed formula (number of variables + clause list, in order) built by
the real code equals the Lean model's, exactly.

Oracle (independent of the model): bit-parallel truth table of the REAL transformed formula
against "F composed with the gadget", the gadget being written here directly on counts of true
variables per block; exhaustive when the transformed formula has <= 16 variables, 4096 random
assignments otherwise; plus the documented variable count.

Suite "header" (property C19): the input formula (clauses, nvars, header) is deep-equal before and
after the call, the result header is the input header plus exactly one new 'transformation k'
entry with the next free number, the description is kept, nothing is shared with the input.
"""
import copy
import re
from collections import OrderedDict

from harness import common, histlib
from harness.common import Case, req, enc_list, enc_pairs, enc_str, ok, fmt_cnf, OPCODE

from cnfgen.formula.cnf import CNF
from cnfgen.graphs import BipartiteGraph
from cnfgen.transformations import substitutions as S

OPS = ["<=", ">=", "<", ">", "==", "!="]
KSUB = ["xor", "or", "maj", "eq", "neq", "one", "lift"]
NKSUB = {"atleast": ">=", "atmost": "<=", "exactly": "==", "anybut": "!="}
NOARG = ["ite", "flip"]
ALL_T = KSUB + ["lin"] + sorted(NKSUB) + NOARG + ["xorcomp", "majcomp"]
EXHAUSTIVE_VARS = 16
SAMPLE_BITS = 4096

RULE = ("per transformation (xor or maj eq neq one lin(6 operators) atleast atmost exactly anybut ite lift flip "
        "xorcomp majcomp): structured random CNFs with 0..5 variables (empty formula, empty clauses, unused top "
        "variables, repeated and opposite literals, unit clauses), arity 1..4, thresholds -1..k+1, random bipartite "
        "compression graphs (isolated left vertices, empty right side); plus a malformed stream (literal 0, literals "
        "beyond nvars, k <= 0, wrong graph size, unknown function) compared by outcome class only; "
        "subst_hist: the input is ONE formula object with a history (harness/histlib.py: grown by clauses with fresh indices, raised "
        "counts, new variables / groups, batches, header edits or by becoming its own transformation, and looked at on the way by "
        "transformations, renderings, label lists, shuffles), minimal shapes per transformation x growth kind and random histories "
        "judged after growth steps; "
        "distinct = distinct request line; non-trivial = the input formula has at least one non-empty clause")
ASSUMPTIONS = [
    "input formulas are well formed (non-zero literals within the declared variable count) in the theorems; "
    "malformed formulas are only compared model vs code",
    "'majority' is the loose majority X(1)+...+X(N) >= N/2 of the command line documentation",
    "the induced assignment of lifting is 'some copy whose selector is true is true'; under exactly one selector "
    "this is the selected copy",
]
NOTES = ["variable labels of the result are not compared (variable manager: C10/C11)"]


# ----------------------------------------------------------------------------- formulas
def enc_cnf(nv, clauses):
    out = [nv, len(clauses)]
    for c in clauses:
        out += enc_list(c)
    return out


def mk_formula(nv, clauses, header=None, wellformed=True):
    F = CNF()
    if header is not None:
        F.header = OrderedDict(header)
    F.update_variable_number(nv)
    for c in clauses:
        F.add_clause(list(c), check=wellformed)
    return F


def mk_graph(g):
    B = BipartiteGraph(g["l"], g["r"])
    for u, v in g["edges"]:
        B.add_edge(u, v)
    return B


def apply_real(t, F, info):
    k = info.get("k")
    if t == "xor":
        return S.XorSubstitution(F, k)
    if t == "or":
        return S.OrSubstitution(F, k)
    if t == "maj":
        return S.MajoritySubstitution(F, k)
    if t == "eq":
        return S.AllEqualSubstitution(F, k)
    if t == "neq":
        return S.NotAllEqualSubstitution(F, k)
    if t == "one":
        return S.ExactlyOneSubstitution(F, k)
    if t == "lift":
        return S.FormulaLifting(F, k)
    if t == "lin":
        return S.LinearSubstitution(F, k, info["op"], info["C"])
    if t == "atleast":
        return S.AtLeastKSubstitution(F, k, info["C"])
    if t == "atmost":
        return S.AtMostKSubstitution(F, k, info["C"])
    if t == "exactly":
        return S.ExactlyKSubstitution(F, k, info["C"])
    if t == "anybut":
        return S.AnythingButKSubstitution(F, k, info["C"])
    if t == "ite":
        return S.IfThenElseSubstitution(F)
    if t == "flip":
        return S.FlipPolarity(F)
    if t in ("xorcomp", "majcomp", "badcomp"):
        fn = {"xorcomp": "xor", "majcomp": "maj", "badcomp": info.get("fname", "and")}[t]
        return S.VariableCompression(F, mk_graph(info["graph"]), fn)
    raise ValueError("unknown transformation " + t)


def request(t, info):
    F = enc_cnf(info["nv"], info["clauses"])
    k = info.get("k")
    if t in ("xor", "or", "maj", "eq", "neq", "one", "lift"):
        return req("sub." + t, k, F)
    if t == "lin":
        return req("sub.lin", k, OPCODE[info["op"]], info["C"], F)
    if t in NKSUB:
        return req("sub." + t, k, info["C"], F)
    if t in NOARG:
        return req("sub." + t, F)
    if t in ("xorcomp", "majcomp", "badcomp"):
        g = info["graph"]
        fn = {"xorcomp": 0, "majcomp": 1, "badcomp": 7}[t]
        return req("sub.compress", fn, F, [g["l"], g["r"]], enc_pairs(g["edges"]))
    raise ValueError("unknown transformation " + t)


# ----------------------------------------------------------------------------- bit-parallel truth tables
class Tables:
    """truth tables as Python integers: bit a of `var[i]` is the value of variable i under assignment a.
    exhaustive (all 2^n assignments) when n <= EXHAUSTIVE_VARS, otherwise SAMPLE_BITS random assignments"""

    def __init__(self, n, rng):
        self.n = n
        if n <= EXHAUSTIVE_VARS:
            self.width = 1 << n
            self.mask = (1 << self.width) - 1
            self.var = [0] * (n + 1)
            for b in range(n):
                zeros = self.mask // ((1 << (1 << b)) + 1)      # assignments whose bit b is 0
                self.var[b + 1] = self.mask ^ zeros
            self.exhaustive = True
        else:
            self.width = SAMPLE_BITS
            self.mask = (1 << self.width) - 1
            self.var = [0] + [rng.getrandbits(self.width) for _ in range(n)]
            self.exhaustive = False

    def lit(self, vals, l):
        return vals[l] if l > 0 else self.mask ^ vals[-l]

    def cnf(self, clauses, vals):
        acc = self.mask
        for c in clauses:
            t = 0
            for l in c:
                t |= self.lit(vals, l)
            acc &= t
            if not acc:
                break
        return acc

    def exactly(self, ts):
        """ex[j] = assignments under which exactly j of the tables `ts` are true"""
        ex = [self.mask]
        for t in ts:
            nt = self.mask ^ t
            new = [ex[0] & nt]
            for j in range(1, len(ex)):
                new.append((ex[j] & nt) | (ex[j - 1] & t))
            new.append(ex[-1] & t)
            ex = new
        return ex

    def count_pred(self, ts, pred):
        ex = self.exactly(ts)
        acc = 0
        for j, e in enumerate(ex):
            if pred(j):
                acc |= e
        return acc

    def assignment(self, a):
        """the a-th assignment as the list of true variables"""
        return [i for i in range(1, self.n + 1) if (self.var[i] >> a) & 1]


def denote(op, a, b):
    return {"<=": a <= b, ">=": a >= b, "<": a < b, ">": a > b, "==": a == b, "!=": a != b}[op]


def documented_nvars(t, info):
    N, k = info["nv"], info.get("k")
    if t in KSUB[:-1] or t == "lin" or t in NKSUB:
        return k * N
    if t == "lift":
        return 2 * k * N
    if t == "ite":
        return 3 * N
    if t == "flip":
        return N
    return info["graph"]["r"]


def induced(T, t, info):
    """tables of the original variables 1..N induced by the tables of the new variables, and the
    table of the side condition (lifting: exactly one selector per original variable)"""
    N, k = info["nv"], info.get("k")
    X = T.var
    side = T.mask
    g = [0] * (N + 1)
    for v in range(1, N + 1):
        if t in ("xorcomp", "majcomp"):
            nb = sorted(set(b for a, b in info["graph"]["edges"] if a == v))
            blk = [X[b] for b in nb]
        elif t == "ite":
            blk = []
        elif t == "flip":
            blk = []
        elif t == "lift":
            blk = []
        else:
            blk = [X[(v - 1) * k + i] for i in range(1, k + 1)]
        n = len(blk)
        if t in ("xor", "xorcomp"):
            g[v] = T.count_pred(blk, lambda c: c % 2 == 1)
        elif t == "or":
            g[v] = T.count_pred(blk, lambda c: c >= 1)
        elif t in ("maj", "majcomp"):
            g[v] = T.count_pred(blk, lambda c: 2 * c >= n)
        elif t == "eq":
            g[v] = T.count_pred(blk, lambda c: c == 0 or c == n)
        elif t == "neq":
            g[v] = T.count_pred(blk, lambda c: not (c == 0 or c == n))
        elif t == "one":
            g[v] = T.count_pred(blk, lambda c: c == 1)
        elif t == "lin":
            g[v] = T.count_pred(blk, lambda c: denote(info["op"], c, info["C"]))
        elif t in NKSUB:
            g[v] = T.count_pred(blk, lambda c: denote(NKSUB[t], c, info["C"]))
        elif t == "ite":
            g[v] = (X[v] & X[N + v]) | ((T.mask ^ X[v]) & X[2 * N + v])
        elif t == "flip":
            g[v] = T.mask ^ X[v]
        elif t == "lift":
            xs = [X[(v - 1) * 2 * k + i] for i in range(1, k + 1)]
            ys = [X[(v - 1) * 2 * k + k + i] for i in range(1, k + 1)]
            side &= T.count_pred(ys, lambda c: c == 1)
            sel = 0
            for x, y in zip(xs, ys):
                sel |= x & y
            g[v] = sel
        else:
            raise ValueError(t)
    return g, side


def semantic_oracle(t, info, state, check_count=True):
    def oracle():
        G = state.get("G")
        if G is None:
            if state.get("legal", True):
                return {"transformation_raised_on_legal_input": state.get("exc")}
            return None
        nv_new = G.number_of_variables()
        doc = documented_nvars(t, info)
        if check_count and nv_new != doc:
            return {"nvars": nv_new, "documented": doc}
        clauses = [list(c) for c in G.clauses()]
        top = max([abs(l) for c in clauses for l in c] + [0])
        if top > max(nv_new, doc):
            return {"literal_beyond_nvars": top, "nvars": nv_new}
        M = max(nv_new, doc)
        rng = common.sub_rng(0, "C05-oracle", info.get("nv"), len(clauses), M)
        T = Tables(M, rng)
        g, side = induced(T, t, info)
        want = T.cnf(info["clauses"], g) & side
        got = T.cnf(clauses, T.var)
        if want != got:
            diff = want ^ got
            a = (diff & -diff).bit_length() - 1
            return {"assignment_true_vars": T.assignment(a), "transformed_formula": bool((got >> a) & 1),
                    "composition_says": bool((want >> a) & 1), "exhaustive": T.exhaustive}
        return None
    return oracle


# ----------------------------------------------------------------------------- header (C19)
KEYRE = re.compile(r"transformation (0|[1-9][0-9]*)")
TCODE = {"xor": 0, "or": 1, "maj": 2, "eq": 3, "neq": 4, "one": 5, "lin": 6, "atleast": 6, "atmost": 6,
         "exactly": 6, "anybut": 6, "ite": 7, "lift": 8, "flip": 9, "xorcomp": 10, "majcomp": 10}


def enc_header(items):
    out = [len(items)]
    for key, val in items:
        m = KEYRE.fullmatch(key)
        if m:
            out += [1, int(m.group(1))]
        else:
            out += [0] + enc_str(key)
        out += enc_str(val)
    return out


def fmt_header(items):
    return " ".join(str(x) for x in enc_header(items))


def header_request(t, info):
    op = info.get("op") or NKSUB.get(t) or "=="
    g = info.get("graph") or {"l": 0, "r": 0}
    fn = 1 if t == "majcomp" else 0
    return req("sub.hdr", TCODE[t], info.get("k") or 0, OPCODE[op], info.get("C") or 0, fn, g["l"], g["r"],
               enc_header(info["header"]))


def snapshot(F):
    return (F.number_of_variables(), [list(c) for c in F.clauses()], [(k, v) for k, v in F.header.items()],
            list(F.all_variable_labels()))


def header_oracle(t, info, state):
    def oracle():
        if "before" not in state:
            return {"transformation_raised_on_legal_input": state.get("exc")}
        if state["before"] != state["after"]:
            return {"input_formula_changed": {"before": state["before"][:3], "after": state["after"][:3]}}
        if state["before"] != state["after_mutation"]:
            return {"result_shares_state_with_input": True}
        old = [tuple(x) for x in info["header"]]
        new = state["result_header"]
        if new[:len(old)] != old:
            return {"earlier_entries_not_kept": new, "input": old}
        extra = new[len(old):]
        if len(extra) != 1:
            return {"new_entries": extra}
        keys = set(k for k, _ in old)
        i = 1
        while "transformation {}".format(i) in keys:
            i += 1
        if extra[0][0] != "transformation {}".format(i):
            return {"new_key": extra[0][0], "expected": "transformation {}".format(i)}
        if not isinstance(extra[0][1], str) or not extra[0][1]:
            return {"new_value": repr(extra[0][1])}
        if dict(old).get("description") != dict(new).get("description"):
            return {"description_changed": dict(new).get("description")}
        return None
    return oracle


# ----------------------------------------------------------------------------- cases
def classify(t, info):
    nv, clauses = info["nv"], info["clauses"]
    if t == "flip":
        top = max([abs(l) for c in clauses for l in c] + [0])
        return "flip:unused-top" if top < nv else "flip:top-used"
    if t == "lin":
        return "lin:" + info["op"]
    return t


def build(suite, info):
    t = info["t"]
    state = {}
    if suite in ("subst", "flipcount"):
        def impl():
            F = mk_formula(info["nv"], info["clauses"])
            try:
                G = apply_real(t, F, info)
            except Exception as e:
                state["exc"] = type(e).__name__
                raise
            state["G"] = G
            return ok(fmt_cnf(G))
        nontrivial = any(len(c) > 0 for c in info["clauses"])
        if suite == "flipcount":
            def oracle():
                G = state.get("G")
                if G is None:
                    return {"transformation_raised_on_legal_input": state.get("exc")}
                if G.number_of_variables() != info["nv"]:
                    return {"nvars": G.number_of_variables(), "documented": info["nv"]}
                return None
            return Case(suite, request(t, info), impl, oracle, cls=classify(t, info).split(":")[1],
                        nontrivial=nontrivial, info=info)
        return Case(suite, request(t, info), impl, semantic_oracle(t, info, state, check_count=(t != "flip")),
                    cls=classify(t, info), nontrivial=nontrivial, info=info)
    if suite == "subst_hist":
        # the input is ONE formula object with a history (harness/histlib.py): grown step by step and looked at on the
        # way (rendered, labels listed, transformed, shuffled), possibly itself the result of a transformation (chains);
        # the model and the oracle are given the CURRENT content: that of a twin built by the same growth steps and
        # never looked at
        tr = info["tr"]
        R = histlib.twin(info["steps"])
        d = histlib.trans_info(tr, R.number_of_variables(), [list(c) for c in R.clauses()])

        def impl():
            F = histlib.play(info["steps"])
            try:
                G = apply_real(t, F, d)
            except Exception as e:
                state["exc"] = type(e).__name__
                raise
            state["G"] = G
            return ok(fmt_cnf(G))
        return Case(suite, request(t, d), impl, semantic_oracle(t, d, state), cls=t + ":after:" + histlib.describe(info["steps"][-1:]),
                    nontrivial=any(len(c) > 0 for c in d["clauses"]), info=info)
    if suite == "malformed":
        # outside the property's domain: outcome of the model and of the code are compared, nothing else
        def impl():
            F = mk_formula(info["nv"], info["clauses"], wellformed=False)
            return ok(fmt_cnf(apply_real(t, F, info)))
        return Case(suite, request(t, info), impl, None, cls=info.get("why", "malformed"), nontrivial=True, info=info)
    if suite == "header":
        def impl():
            F = mk_formula(info["nv"], info["clauses"], header=[tuple(x) for x in info["header"]])
            state["before"] = snapshot(F)
            try:
                G = apply_real(t, F, info)
            except Exception as e:
                state["exc"] = type(e).__name__
                del state["before"]
                raise
            state["after"] = snapshot(F)
            state["result_header"] = [(k, v) for k, v in G.header.items()]
            # mutate the result: nothing of it may be shared with the input
            G.header["description"] = "mutated"
            G.header["zzz"] = "mutated"
            for c in G._clauses:
                c.append(12345)
            G.add_clause([1, 2, 3])
            state["after_mutation"] = snapshot(F)
            return ok(fmt_header(state["result_header"]))
        return Case(suite, header_request(t, info), impl, header_oracle(t, info, state), cls=t,
                    nontrivial=True, info=info)
    raise ValueError("unknown suite " + suite)


def gen_cnf(rng, maxnv=4, maxclauses=4, maxwidth=3):
    """structured random CNF: (nvars, clauses)"""
    shape = rng.randrange(10)
    nv = rng.randint(0, maxnv)
    if shape == 0:
        return nv, []                                   # no clause at all
    if shape == 1:
        return nv, [[]] * rng.randint(1, 2)             # only empty clauses
    if nv == 0:
        return 0, [[]] if rng.random() < .5 else []
    used = nv
    if shape == 2 and nv > 1:
        used = rng.randint(1, nv - 1)                   # unused top variables
    m = rng.randint(1, maxclauses)
    clauses = []
    for _ in range(m):
        w = min(rng.choice([0, 1, 1, 2, 2, 2, 3, 3, 4]), maxwidth)
        if shape == 3:                                   # repeated / opposite literals
            v = rng.randint(1, used)
            c = [rng.choice([v, -v]) for _ in range(max(w, 2))][:max(2, maxwidth)]
        else:
            c = [rng.choice([1, -1]) * rng.randint(1, used) for _ in range(w)]
        clauses.append(c)
    if shape == 4:
        clauses.insert(rng.randrange(len(clauses) + 1), [])   # an empty clause among the others
    return nv, clauses


def gen_graph(rng, L):
    R = rng.choice([0, 1, 2, 3, 4, 5, 6])
    edges = []
    if R > 0:
        p = rng.choice([.2, .5, .8, 1.0])
        for u in range(1, L + 1):
            if rng.random() < .15:
                continue                                 # isolated left vertex
            for v in range(1, R + 1):
                if rng.random() < p:
                    edges.append((u, v))
        rng.shuffle(edges)
    return {"l": L, "r": R, "edges": [list(e) for e in edges]}


CORPUS_FORMULAS = [
    (0, []), (0, [[]]), (1, []), (1, [[]]), (1, [[1]]), (1, [[-1]]), (1, [[1], [-1]]), (1, [[1, 1]]), (1, [[1, -1]]),
    (2, [[1, 2]]), (2, [[1, -2], [-1, 2]]), (3, [[1]]), (2, [[], [1, 2], []]), (3, [[1, -2, 3], [-3]]),
    (5, [[1, -2]]),
]


def cases(ctx):
    tier, seed = ctx["tier"], ctx["seed"]
    rng = common.sub_rng(seed, "C05")
    infos = []
    # ---- corpus (always first): D5 regression (fixed in df5809d), then every transformation on the degenerate shapes
    infos.append(("flipcount", dict(t="flip", nv=5, clauses=[[1, -2]])))
    for nv, cl in CORPUS_FORMULAS:
        for t in KSUB:
            for k in (1, 2, 3):
                if (2 if t == "lift" else 1) * k * nv <= 18:
                    infos.append(("subst", dict(t=t, k=k, nv=nv, clauses=cl)))
        for t in NOARG:
            infos.append(("subst", dict(t=t, nv=nv, clauses=cl)))
        infos.append(("flipcount", dict(t="flip", nv=nv, clauses=cl)))
        for k in (1, 2, 3):
            for C in range(-1, k + 2):
                for op in OPS:
                    infos.append(("subst", dict(t="lin", k=k, op=op, C=C, nv=nv, clauses=cl)))
        for fn in ("xorcomp", "majcomp"):
            for g in ({"l": nv, "r": 0, "edges": []}, {"l": nv, "r": 3, "edges": [[u, v] for u in range(1, nv + 1) for v in (3, 1)]},
                      {"l": nv, "r": 4, "edges": [[u, 1 + (u % 4)] for u in range(1, nv + 1)]}):
                infos.append(("subst", dict(t=fn, nv=nv, clauses=cl, graph=g)))
    # ---- wide gadgets (arity beyond 16: sampled assignments; seeded change C05-6 only shows at arity >= 17)
    wide = [("xor", 17), ("maj", 17), ("or", 40), ("eq", 33), ("one", 18)] + ([("xor", 18)] if tier != "quick" else [])      # arity 19 / maj 18 cost the Lean driver minutes each under load (thorough tier timed out)
    for t, k in wide:
        for cl in ([[1]], [[-1]]):
            if cl == [[1]] or t != "xor" or tier != "quick":
                infos.append(("subst", dict(t=t, k=k, nv=1, clauses=cl)))
    infos.append(("subst", dict(t="xorcomp", nv=2, clauses=[[-1], [2]],
                                graph={"l": 2, "r": 19, "edges": [[1, v] for v in range(1, 18)] + [[2, 18], [2, 19], [2, 1]]})))
    # ---- argument checks and malformed formulas (outcome class only)
    for t in KSUB + ["lin"] + sorted(NKSUB):
        for k in (0, -1):
            infos.append(("malformed", dict(t=t, k=k, op="==", C=1, nv=2, clauses=[[1, -2]], why="k<1")))
    for t in ("xorcomp", "majcomp"):
        infos.append(("malformed", dict(t=t, nv=2, clauses=[[1, -2]], graph={"l": 3, "r": 2, "edges": [[1, 1]]}, why="left-size")))
        infos.append(("malformed", dict(t=t, nv=2, clauses=[[1, -2]], graph={"l": 1, "r": 2, "edges": [[1, 1]]}, why="left-size")))
    infos.append(("malformed", dict(t="badcomp", nv=2, clauses=[[1, -2]], graph={"l": 2, "r": 2, "edges": [[1, 1]]}, why="function")))
    infos.append(("malformed", dict(t="badcomp", nv=2, clauses=[[1, -2]], graph={"l": 3, "r": 2, "edges": []}, why="function")))
    bad = [(2, [[1, 0]], "zero"), (2, [[3]], "wrap"), (2, [[-4], [1]], "wrap"), (2, [[-5]], "none"), (2, [[5]], "index"),
           (2, [[1], [-6, 0]], "index"), (2, [[0, 7]], "index"), (0, [[1]], "index"), (0, [[-1]], "none"), (0, [[0]], "zero"),
           (3, [[1, 2], [4, -5], [9]], "index")]
    for nv, cl, why in bad:
        for t in ("flip", "ite", "xor", "or", "lift", "one"):
            infos.append(("malformed", dict(t=t, k=2, nv=nv, clauses=cl, why=why)))
        infos.append(("malformed", dict(t="xorcomp", nv=nv, clauses=cl, why=why,
                                        graph={"l": nv, "r": 2, "edges": [[u, 1] for u in range(1, nv + 1)]})))
    # ---- header corpus
    base = [("description", "Formula in CNF"), ("generator", "CNFgen (x)"), ("copyright", "(C)"), ("url", "https://x")]
    headers = [
        base,
        [],
        [("description", "php {3,2} é")],
        base + [("transformation 1", "first")],
        base + [("transformation 1", "first"), ("transformation 2", "second")],
        base + [("transformation 2", "second")],
        [("transformation 1", "a"), ("description", "late description"), ("transformation 3", "c")],
        base + [("transformation 01", "not canonical"), ("transformation 0", "zero"), ("Transformation 1", "case")],
        base + [("transformation 1 ", "trailing blank"), ("transformation", "no number"), ("transformation -1", "neg")],
        base + [("transformation {}".format(i), "t{}".format(i)) for i in (3, 1, 2, 5)],
        base + [("transformation {}".format(i), "t{}".format(i)) for i in range(1, 12)],
    ]
    hdr_ts = [dict(t="xor", k=2), dict(t="or", k=3), dict(t="maj", k=3), dict(t="eq", k=2), dict(t="neq", k=2),
              dict(t="one", k=2), dict(t="lin", k=3, op="<", C=-1), dict(t="lin", k=2, op="!=", C=2),
              dict(t="atleast", k=3, C=2), dict(t="atmost", k=3, C=0), dict(t="exactly", k=2, C=1),
              dict(t="anybut", k=2, C=3), dict(t="ite"), dict(t="lift", k=2), dict(t="flip"),
              dict(t="xorcomp", graph={"l": 3, "r": 4, "edges": [[1, 2], [2, 4], [3, 1], [1, 3]]}),
              dict(t="majcomp", graph={"l": 3, "r": 2, "edges": [[1, 2], [2, 1]]})]
    for h in headers:
        for p in hdr_ts:
            infos.append(("header", dict(nv=3, clauses=[[1, -2], [3], [-1, 2, -3]], header=[list(x) for x in h], **p)))

    # ---- random part
    reps = 3000 if tier == "quick" else 40000
    for _ in range(reps):
        t = rng.choice(ALL_T)
        if t in ("xorcomp", "majcomp"):
            nv, cl = gen_cnf(rng, maxnv=5, maxclauses=4, maxwidth=3)
            infos.append(("subst", dict(t=t, nv=nv, clauses=cl, graph=gen_graph(rng, nv))))
            continue
        if t in NOARG:
            nv, cl = gen_cnf(rng, maxnv=5, maxclauses=5, maxwidth=4)
            infos.append(("subst", dict(t=t, nv=nv, clauses=cl)))
            if t == "flip":
                infos.append(("flipcount", dict(t=t, nv=nv, clauses=cl)))
            continue
        k = rng.choice([1, 2, 2, 3, 3, 4])
        width = 3 if k <= 2 else 2
        maxnv = min(4, 8 // k) if t == "lift" else (4 if k <= 3 else 3)
        nv, cl = gen_cnf(rng, maxnv=maxnv, maxclauses=3, maxwidth=width)
        info = dict(t=t, k=k, nv=nv, clauses=cl)
        if t == "lin":
            info.update(op=rng.choice(OPS), C=rng.randint(-1, k + 1))
        elif t in NKSUB:
            info.update(C=rng.randint(-1, k + 1))
        infos.append(("subst", info))
    # larger instances: sampled assignments instead of the full table
    for _ in range(reps // 12):
        t = rng.choice(["xor", "or", "maj", "one", "lin", "ite", "flip", "eq", "neq"])
        k = rng.choice([2, 3])
        nv, cl = gen_cnf(rng, maxnv=9, maxclauses=5, maxwidth=2)
        info = dict(t=t, k=k, nv=nv, clauses=cl)
        if t == "lin":
            info.update(op=rng.choice(OPS), C=rng.randint(0, k))
        infos.append(("subst", info))
    # random headers
    for _ in range(reps // 8):
        h = list(base[:rng.randint(0, 4)])
        for i in rng.sample(range(0, 7), rng.randint(0, 4)):
            h.insert(rng.randint(0, len(h)), ("transformation {}".format(i), "old {}".format(i)))
        if rng.random() < .3:
            h.append(("note", "".join(rng.choice("ab {}éλ") for _ in range(rng.randint(0, 6)))))
        p = dict(rng.choice(hdr_ts))
        nv, cl = gen_cnf(rng, maxnv=3, maxclauses=3, maxwidth=2)
        if "graph" in p:
            p["graph"] = gen_graph(rng, nv)
        infos.append(("header", dict(nv=nv, clauses=cl, header=[list(x) for x in h], **p)))
    infos += history_infos(common.sub_rng(seed, "C05", "hist"), tier)
    for suite, info in infos:
        c = build(suite, info)
        if suite == "subst" and wide_gadget(info):
            common.HEAVY_REQUESTS.add(c.req)        # wide gadgets: seconds each in the model
        yield c


def wide_gadget(info):
    """requests that cost the model seconds: arity (or compression degree) 17 and more (2^16 clauses per literal), or a
    parity / majority gadget whose clause-by-clause product has thousands of clauses"""
    if (info.get("k") or 0) >= 17:
        return True
    g = info.get("graph")
    if g is not None:
        deg = {v: len(set(b for a, b in g["edges"] if a == v)) for v in range(1, g["l"] + 1)}
    elif info.get("t") in ("xor", "maj"):
        deg = {v: info.get("k") or 1 for v in range(1, info.get("nv", 0) + 1)}
    else:
        return False
    if any(d >= 17 for d in deg.values()):
        return True
    total = 0
    for c in info.get("clauses", []):
        size = 1
        for l in c:
            size *= 2 ** max(deg.get(abs(l), 1) - 1, 0)
        total += size
    return total >= 4000


def history_infos(rng, tier):
    """every transformation applied to a formula that HAS A HISTORY: it was looked at (the same transformation, other
    transformations and chains, renderings with variable names, label lists, shuffles …), then grew in every way
    (clauses with fresh indices, raised counts, new variables / groups, batches, header edits; or it became its own
    transformation), then is transformed"""
    out = []
    quick = tier == "quick"
    # minimal shapes: transform, ONE growth step of each kind, transform again (every transformation)
    for tr in histlib.all_trans(rng):
        hs = histlib.minimal_histories([{"obs": "trans", "chain": [tr]}])
        for h in (hs if not quick or tr["t"] in ("xor", "lift", "ite", "flip", "xorcomp") else rng.sample(hs, 5)):
            out.append(("subst_hist", dict(t=tr["t"], tr=tr, steps=h)))
    # other ways of having been looked at before, same growth steps
    for ob in histlib.obs_pool(3, solve=not quick):
        hs = histlib.minimal_histories([ob])
        for h in (rng.sample(hs, 2) if quick else hs):
            tr = rng.choice(histlib.all_trans(rng))
            out.append(("subst_hist", dict(t=tr["t"], tr=tr, steps=h)))
    for _ in range(50 if quick else 2500):
        cap = rng.choice([4, 5, 6, 8])
        steps, cuts = histlib.gen_history(rng, rng.randint(2, 6), cap, become=.15,
                                          favourite=lambda n: {"obs": "trans", "chain": [histlib.gen_trans(rng, n, maxk=2)]})
        for cut in (cuts if not quick else rng.sample(cuts, min(3, len(cuts)))):
            n = histlib.twin(steps[:cut]).number_of_variables()
            tr = histlib.gen_trans(rng, n, maxk=3 if n <= 4 else 2)
            out.append(("subst_hist", dict(t=tr["t"], tr=tr, steps=steps[:cut])))
    return out


def search(ctx, case):
    """the correspondence broke on `case`: look for an input on which the PROPERTY fails, among the
    case itself and small formulas with the same transformation (all arities / thresholds)"""
    if case.suite == "subst_hist":
        common.run_impl(case)
        r = common.run_oracle(case)
        return {"suite": case.suite, "info": case.info, "failure": r} if r is not None else None
    if case.suite not in ("subst", "flipcount", "malformed"):
        return None
    info = dict(case.info)
    t = info["t"]
    if t == "badcomp":
        return None
    cands = []
    if case.suite != "malformed":
        cands.append(info)
    for nv, cl in CORPUS_FORMULAS:
        for k in (1, 2, 3, 4):
            if t in NOARG and k > 1:
                continue
            if (2 if t == "lift" else 1) * k * nv > EXHAUSTIVE_VARS:
                continue
            cs = [info.get("C")] if t not in NKSUB and t != "lin" else list(range(-1, k + 2))
            for C in cs:
                d = dict(t=t, k=k, nv=nv, clauses=cl)
                if C is not None:
                    d["C"] = C
                if t == "lin":
                    d["op"] = info["op"]
                if t in ("xorcomp", "majcomp"):
                    if k > 1:
                        continue
                    for g in ({"l": nv, "r": 3, "edges": [[u, v] for u in range(1, nv + 1) for v in (1, 2, 3)]},
                              {"l": nv, "r": 4, "edges": [[u, 1 + (u % 4)] for u in range(1, nv + 1)]},
                              {"l": nv, "r": 2, "edges": [[u, v] for u in range(1, nv + 1) for v in (1, 2)]}):
                        cands.append(dict(d, graph=g))
                else:
                    cands.append(d)
    for d in cands:
        c = build("subst", d)
        common.run_impl(c)
        r = common.run_oracle(c)
        if r is not None:
            return {"suite": "subst", "info": d, "failure": r}
    return None
