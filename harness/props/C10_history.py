"""C10 (formula objects with a history) — a formula that was looked at, then grew, then is transformed still gets what
the transformation promises: k new variables per variable it has NOW (3 for if-then-else, 2k for lifting, the right
side of the graph for compression, the same number for flip), and every literal of the result inside the declared range.

Two sources of objects (histories themselves: harness/histlib.py):

  fam_grown  : the formula object a FAMILY returns (one case of the family modules C01, C02_*, C03_*, built in this
               process under the `Recorder` of C10_families, the object recognised by its rendering) is looked at in one
               or two ways (label lists in both default formats, renderings with variable names, a first transformation,
               a shuffle, …), grows (clauses with fresh indices, clauses written with the variables its own groups hand
               out, raised counts, batches, sometimes a new variable / group), and is transformed;
  hist_labels: hand-made histories of the manager steps (clauses, raised counts, groups of every kind, clauses written with
               group variables) with observations interleaved: after every step the declared count, at the end the list
               of names in BOTH default formats — request `vg_hist` (the manager model of C10 / C11);
  hist_trans : hand-made histories of every growth step (groups of every kind included) with observations interleaved,
               then a transformation — sizes up to the neighbourhood of the source's integer constants.

Correspondence: the transformed formula against the Lean model of the transformation (`sub.*`) applied to the CURRENT
content — that of a twin object reached by the same growth steps and never looked at.
Oracle (independent of the model): looking at the formula did not change it; the growth steps raised the count to at
least every identifier they mention; for EVERY transformation of C05 (cheap arities on large formulas) and one chain
of two, the result declares exactly the promised count, lists that many names, and mentions only non-zero integer
literals inside the declared range.
"""
import importlib

from harness import common, histlib
from harness.common import Case, ok, fmt_cnf
from harness.props import C05, C11
from harness.props import C10_families as CF

from cnfgen.formula.cnf import CNF
from cnfgen.formula.baseopb import BaseOPB

RULE = ("fam_grown: per family module a spread of its quick cases, the returned object observed / grown / transformed as "
        "drawn from the case's own seed; hist_trans: minimal shapes (observe, ONE growth step of each kind, transform) for "
        "every transformation, and random histories of 2..7 growth steps with up to 30 (and around the source's constants) variables")
NOTES = ["fam_grown sets its request line while the implementation runs (the family is built inside the case, like fam_after_user)"]
BLOWUP = 5000


def check_result(G, want, what):
    """the C10 invariant on a transformed formula"""
    n = G.number_of_variables()
    if n != want:
        return dict(what, declared=n, promised=want)
    names = sum(1 for _ in G.all_variable_labels())
    if names != n:
        return dict(what, declared=n, names_listed=names)
    bad = []
    for c in G.clauses():
        for lit in c:
            if not isinstance(lit, int) or isinstance(lit, bool) or lit == 0 or abs(lit) > n:
                bad.append(lit)
    if bad:
        return dict(what, declared=n, literals_outside=sorted(set(map(repr, bad)))[:8])
    return None


def affordable(tr, n, clauses):
    """transformations whose output stays small on this formula (k-ary gadgets multiply clause by clause)"""
    w = max([len(c) for c in clauses] + [0])
    k = tr.get("k", 1)
    t = tr["t"]
    if t == "flip" or (k == 1 and t in ("xor", "or", "maj", "one", "lift")):
        return True             # renamings: one clause per clause
    per = {"ite": 2, "lift": k, "or": k}.get(t, 2 ** max(k - 1, 1) if t not in histlib.TRANS_G else 4)
    return len(clauses) * per ** w <= BLOWUP and n * k <= 4000


def all_results(A, n, clauses, rng):
    """every transformation of C05 on the object A: promised count and range"""
    trs = histlib.all_trans(rng)
    trs += [dict(t, k=1) for t in trs if t.get("k", 1) > 1 and t["t"] in ("xor", "or", "maj", "one", "lift")]
    first = None
    for tr in trs:
        if not affordable(tr, n, clauses):
            continue
        try:
            G = histlib.transform(A, tr)
        except Exception as e:
            return {"transformation": tr, "raised": type(e).__name__}
        r = check_result(G, histlib.promised(tr, n), {"transformation": tr, "variables_now": n})
        if r is not None:
            return r
        if first is None and tr["t"] not in histlib.TRANS_G and G.number_of_variables() <= 200 and len(G) <= 400:
            first = (tr, G)
    if first is not None:
        tr1, G1 = first
        tr2 = rng.choice([{"t": "xor", "k": 1}, {"t": "or", "k": 2}, {"t": "flip"}, {"t": "lift", "k": 1}, {"t": "ite"}])
        if affordable(tr2, G1.number_of_variables(), [list(c) for c in G1.clauses()]):
            G2 = histlib.transform(G1, tr2)
            r = check_result(G2, histlib.promised(tr2, histlib.promised(tr1, n)), {"chain": [tr1, tr2], "variables_now": n})
            if r is not None:
                return r
    return None


def judge(state, rng_key):
    def oracle():
        if "skip" in state:
            return None
        if "A" not in state:
            return {"history_not_played": state.get("exc")}
        A, n, clauses = state["A"], state["n"], state["clauses"]
        if (A.number_of_variables(), [list(c) for c in A.clauses()]) != (n, clauses):
            return dict(state["what"], looking_at_the_formula_changed_it=[A.number_of_variables(), len(A)],
                        same_steps_never_observed=[n, len(clauses)])
        top = max([abs(l) for c in clauses for l in c] + [0])
        if top > n or n < state.get("n0", 0):
            return dict(state["what"], declared=n, largest_mentioned=top, variables_before_growth=state.get("n0"))
        G = state.get("G")
        if G is None:
            return dict(state["what"], transformation=state["tr"], raised=state.get("exc"))
        r = check_result(G, histlib.promised(state["tr"], n), {"transformation": state["tr"], "variables_now": n})
        if r is None:
            r = all_results(A, n, clauses, common.sub_rng(0, "C10h-all", *rng_key))
        return dict(state["what"], **r) if r is not None else None
    return oracle


# ------------------------------------------------------------------ family objects
def family_object(inner):
    """the CNF object the family case builds in this process (recognised by its rendering), or None"""
    with CF.Recorder() as rec:
        a = common.run_impl(inner)
    if not a.startswith("OK "):
        return None
    seen = []
    for F, *_ in reversed(rec.calls):
        if any(F is G for G in seen):
            continue
        seen.append(F)
        if isinstance(F, CNF) and not isinstance(F, BaseOPB) and common.fmt_formula(F) == a[3:]:
            return F
    return None


def grow_family(rng, B, ngrow):
    """growth steps for the family object B, drawn while they are applied to it; its own groups can be used"""
    created = C11.Created()
    created.extend(g for g in B._groups if len(g) > 0)
    created.specs = []
    n0 = B.number_of_variables()
    ops = []
    kinds = ["clause_fresh", "clause_fresh", "clause_old", "update", "use", "batch_fresh", "batch", "header", "var", "group"]
    for _ in range(ngrow):
        op = histlib.gen_grow(rng, B, created, n0 + 8, kind=rng.choice(kinds))
        histlib.apply_grow(B, op, created)
        ops.append(op)
    return ops


def build_fam(info):
    mod = importlib.import_module("harness.props." + info["mod"])
    inner = mod.build(info["suite"], info["info"])
    state = {}
    box = []
    key = (info["mod"], info["suite"], info["hseed"])

    def impl():
        state.clear()
        rng = common.sub_rng(info["hseed"], "C10h-fam")
        A, B = family_object(inner), family_object(inner)
        if A is None or B is None or A is B or A.number_of_variables() > 400 or len(A) > 1500:
            state["skip"] = True            # an OPB-class family, a refused request, a very large instance
            box[0].req = "nop"
            return "OK -"
        state["n0"] = B.number_of_variables()
        early = [histlib.gen_obs(rng, 99, trans=False) for _ in range(rng.randint(1, 2))]
        if rng.random() < .5:
            early.append({"obs": "trans", "chain": [rng.choice([{"t": "or", "k": 1}, {"t": "flip"}, {"t": "xor", "k": 1}])]})
        ops = grow_family(rng, B, rng.randint(1, 3))
        cA = C11.Created()
        cA.extend(g for g in A._groups if len(g) > 0)
        steps = list(early)
        for ob in early:
            try:
                histlib.observe(A, ob)
            except Exception:
                pass
        for i, op in enumerate(ops):
            histlib.apply_grow(A, op, cA)
            steps.append(op)
            if i + 1 < len(ops) and rng.random() < .3:
                ob = histlib.gen_obs(rng, 99, trans=False)
                steps.append(ob)
                try:
                    histlib.observe(A, ob)
                except Exception:
                    pass
        n, clauses = B.number_of_variables(), [list(c) for c in B.clauses()]
        cands = [t for t in histlib.all_trans(rng) if affordable(t, n, clauses)] or [{"t": "flip"}]
        tr = rng.choice(cands)
        d = histlib.trans_info(tr, n, clauses)
        box[0].req = C05.request(tr["t"], d)
        state.update(A=A, n=n, clauses=clauses, tr=tr,
                     what={"family_case": [info["mod"], info["suite"], info["info"]], "then": steps})
        try:
            G = C05.apply_real(tr["t"], A, d)
        except Exception as e:
            state["exc"] = type(e).__name__
            raise
        state["G"] = G
        return ok(fmt_cnf(G))

    c = Case("fam_grown", "nop", impl, judge(state, key), cls=info["suite"], nontrivial=True, info=info)
    box.append(c)
    return c


# ------------------------------------------------------------------ hand-made histories
def build_hist(info):
    steps, tr = info["steps"], info["tr"]
    R = histlib.twin(steps)
    n, clauses = R.number_of_variables(), [list(c) for c in R.clauses()]
    d = histlib.trans_info(tr, n, clauses)
    state = {}

    def impl():
        state.clear()
        A = histlib.play(steps)
        state.update(A=A, n=n, clauses=clauses, tr=tr, what={"history": steps})
        try:
            G = C05.apply_real(tr["t"], A, d)
        except Exception as e:
            state["exc"] = type(e).__name__
            raise
        state["G"] = G
        return ok(fmt_cnf(G))
    return Case("hist_trans", C05.request(tr["t"], d), impl, judge(state, ("hist", len(steps), n)),
                cls=tr["t"] + ":after:" + histlib.describe(steps[-1:]), nontrivial=len(clauses) > 0, info=info)


# ------------------------------------------------------------------ counts and names after a history with observations
def group_size(spec):
    """the number of variables a group of this specification has, from the documentation of its kind"""
    from math import comb, perm
    k = spec["kind"]
    if k == "variable":
        return 1
    if k == "block":
        size = 1
        for r in spec["ranges"]:
            size *= r
        return size
    if k == "combinations":
        return comb(spec["n"], spec["k"])
    if k == "combinations_with_replacement":
        return comb(spec["n"] + spec["k"] - 1, spec["k"]) if spec["n"] + spec["k"] > 0 else 1
    if k == "permutations":
        return perm(spec["n"], spec["n"] if spec.get("k") is None else spec["k"])
    if k == "words":
        return spec["n"] ** spec["k"]
    if k in ("bipartite", "sparse_mapping", "digraph"):
        return len(set(tuple(e) for e in spec["G"]["edges"]))
    if k == "graph":
        return len(set(tuple(sorted(e)) for e in spec["G"]["edges"]))
    if k == "mapping":
        return spec["n"] * spec["m"]
    if k == "binary_mapping":
        return spec["n"] * max(spec["m"] - 1, 0).bit_length()
    raise ValueError(k)


LABEL_KINDS = ["clause_fresh", "clause_fresh", "clause_old", "clause_empty", "update", "update", "var", "var_anon", "group", "group", "use"]


def promised_count(n, op):
    """the number of variables after one growth step, from the documentation of the step"""
    if op["op"] == "clause":
        return max([n] + [abs(l) for l in op["lits"]]) if op["check"] else n
    if op["op"] == "update":
        return max(n, op["n"])
    if op["op"] == "group":
        return n + group_size(op["spec"])
    return n        # use (variables handed out by existing groups), header


def build_labels(info):
    """the manager history request of C11 / C10 (`vg_hist`: count, largest mentioned variable, outcome after every growth
    step, then the list of names) on an object that is also LOOKED AT between the steps"""
    steps, dfmt = info["steps"], info["dfmt"]
    ops = histlib.model_ops(steps)
    enc = []
    for op in ops:
        enc += C11.enc_op(op)
    state = {}

    def impl():
        state.clear()
        F, created = CNF(), C11.Created()
        parts, n, trace = [], 0, []
        for st in steps:
            if histlib.is_obs(st):
                try:
                    histlib.observe(F, st)
                except Exception:
                    pass
                continue
            out = histlib.apply_grow(F, st, created)
            if st["op"] == "header":
                continue
            n = promised_count(n, st)
            trace.append((st, n, F.number_of_variables()))
            parts.append("{}:{}:{}".format(F.number_of_variables(), C11.max_mentioned(F), out))
        names = {d: list(F.all_variable_labels(d)) for d in histlib.DFMTS}
        state.update(trace=trace, names=names, n=n, F=F)
        parts.append(C11.fmt_list(C11.fmt_label(x) for x in names[dfmt]))
        return ok(" ; ".join(parts))

    def oracle():
        if "trace" not in state:
            return {"history_raised": True, "history": steps}
        for st, want, got in state["trace"]:
            if want != got:
                return {"history": steps, "after": st, "declared": got, "promised": want}
        F, n = state["F"], state["n"]
        owned = set()
        for g in F._groups:
            owned.update(g.ids)
        for d, names in state["names"].items():
            if len(names) != n:
                return {"history": steps, "default_format": d, "names_listed": len(names), "declared": n}
            for v in range(1, n + 1):
                if v not in owned and names[v - 1] != d.format(v):
                    return {"history": steps, "default_format": d, "variable": v, "reported_name": names[v - 1]}
        return None
    return Case("hist_labels", common.req("vg_hist", common.enc_str(dfmt), len(ops), enc), impl, oracle,
                cls=dfmt + ":after:" + histlib.describe(steps[-1:]), nontrivial=len(ops) > 1, info=info)


def build(suite, info):
    if suite == "hist_labels":
        return build_labels(info)
    if suite == "fam_grown":
        return build_fam(info)
    if suite == "hist_trans":
        return build_hist(info)
    raise ValueError("unknown suite " + suite)


def infos(ctx):
    tier, seed = ctx["tier"], ctx["seed"]
    quick = tier == "quick"
    rng = common.sub_rng(seed, "C10hist")
    out = []
    # ---- hand-made histories: minimal shapes for every transformation, the early look being a label list
    looks = [{"obs": "labels", "dfmt": None}, {"obs": "labels", "dfmt": "x_{}"}, {"obs": "to_file", "fmt": "dimacs", "header": False, "names": True},
             {"obs": "to_latex"}, {"obs": "trans", "chain": [{"t": "or", "k": 2}]}, {"obs": "to_file", "fmt": "opb", "header": True, "names": True}]
    for tr in histlib.all_trans(rng):
        hs = histlib.minimal_histories([rng.choice(looks)] if quick else looks)
        for h in (rng.sample(hs, 4) if quick else hs):
            out.append(("hist_trans", dict(steps=h, tr=tr)))
    sizes = [8, 16, 30] + common.probe_sizes(["formula/variables.py", "formula/basecnf.py", "transformations/substitutions.py"], 9, 120)[:5]
    for _ in range(40 if quick else 1500):
        steps, cuts = histlib.gen_history(rng, rng.randint(2, 7), rng.choice(sizes), favourite=rng.choice(looks), trans=True, become=.1)
        for cut in (rng.sample(cuts, min(2, len(cuts))) if quick else cuts):
            R = histlib.twin(steps[:cut])
            n, clauses = R.number_of_variables(), [list(c) for c in R.clauses()]
            cands = [t for t in histlib.all_trans(rng) if affordable(t, n, clauses)] or [{"t": "flip"}]
            out.append(("hist_trans", dict(steps=steps[:cut], tr=rng.choice(cands))))
    # ---- counts and names (both default formats) after histories with observations: minimal shapes, then random ones
    looks2 = [{"obs": "labels", "dfmt": d} for d in histlib.DFMTS + [None]] + [{"obs": "nvars"}, {"obs": "to_latex"}, {"obs": "to_file", "fmt": "dimacs", "header": True, "names": True}]
    for d in histlib.DFMTS:
        for h in histlib.minimal_histories(looks2 if not quick else [{"obs": "labels", "dfmt": d}, {"obs": "labels", "dfmt": None}]):
            if all(histlib.is_obs(s) or s["op"] in ("clause", "update", "group", "use", "header") for s in h):
                out.append(("hist_labels", dict(steps=h + [{"obs": "labels", "dfmt": d}, {"op": "clause", "lits": [-1, 9], "check": True}], dfmt=d)))
    for _ in range(60 if quick else 2000):
        steps, cuts = histlib.gen_history(rng, rng.randint(2, 8), rng.choice(sizes), favourite=rng.choice(looks2), become=0, init=0, kinds=LABEL_KINDS)
        out.append(("hist_labels", dict(steps=steps, dfmt=rng.choice(histlib.DFMTS))))
    # ---- family objects
    per_suite = 2 if quick else 12
    for m in CF.SOURCES:
        mod = importlib.import_module("harness.props." + m)
        by_suite = {}
        for c in mod.cases({"tier": "quick", "seed": seed, "prop": m[:3]}):
            if c.info is None or c.cls.startswith("D") or c.suite == getattr(mod, "MODE_SUITE", None):
                continue
            if c.info.get("opb") or any(w in (c.cls or "") for w in ("illegal", "rejected", "opb")):
                continue        # transformations are for CNF objects; refused requests return no object
            if len(c.req) > 4000:
                continue
            by_suite.setdefault(c.suite, []).append(c)
        for s in sorted(by_suite):
            for c in CF.pick(rng, by_suite[s], per_suite):
                out.append(("fam_grown", dict(mod=m, suite=s, info=c.info, hseed=rng.randrange(1 << 30))))
    return out


def cases(ctx):
    for suite, info in infos(ctx):
        try:
            yield build(suite, info)
        except Exception:
            continue


def search(ctx, case):
    common.run_impl(case)
    r = common.run_oracle(case)
    if r is not None:
        return {"suite": case.suite, "info": case.info, "failure": r}
    return None
