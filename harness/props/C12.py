"""C12 — OPB and LaTeX renderings denote the formula held in memory.

Suites
  wopb      : `to_opb()` / `to_file(…, 'opb')` text of a CNF or OPB formula      vs the model's text, byte for byte
  ropb      : the model's strict OPB reader (specification side of T-C12.1)      vs the same grammar over Python's tokens
  wlatex    : `to_latex()` (snippet)                                            vs the model's text
  wlatexdoc : `to_file(…, 'latex')` / `to_latex_document` (full document)       vs the model's text
  wlatexbody: `_print_latex(F, out, split_every, compact)` for other page sizes vs the model's text
  rlatexrow : the model's LaTeX row reader applied to rows of the REAL output    vs the in-memory clause / constraint
  rlatexbody: the model's reader of a whole body TEXT (`readLatexClausesText` / `readLatexConstraintsText`, the function of
              Props/C12/LatexText.lean: lines, white-space split, un-glued coefficients, page delimiters) applied to the
              characters the REAL writer wrote (snippet, other page sizes, the body cut out of the full document)
              vs the in-memory clause / constraint list
  guessfmt  : `guess_output_format` and the writer chosen by `to_file`          vs the model's table

Oracles (independent of the model)
  wopb   : a regex reader written from the OPB format reads the real text back: declared counts, then
           constraint by constraint the same coefficients, literals, relation, degree; every other line starts with `*`.
  wlatex*: an independent reader of the align skeleton: one row per clause/constraint in order, each row's
           literals decode to the in-memory ones (name, polarity, coefficient, bound), `\\square` iff empty clause,
           `\\top` iff empty formula, blocks of `split` rows, `\\\\` between rows of a block.
  guessfmt: the answer is the explicit request, else the extension (.tex/.opb), else dimacs; ValueError only
           for an unknown request.
"""
import io
import os
import re
from collections import OrderedDict

from harness import common, iolib, histlib
from harness.common import Case, req, ok, enc_str, fmt_pbc, fmt_pbcs
from harness.iolib import (enc_opt, enc_header, enc_names, enc_cnf, enc_pbcs, fmt_text, py_lex, tmpname, read_raw)

from cnfgen.formula.cnf import CNF
from cnfgen.formula.opb import OPB
from cnfgen.formula.baseopb import BaseOPB
from cnfgen.formula.cnfio import guess_output_format
from cnfgen.utils.latexoutput import _print_latex

RULE = ("formulas: hand-built degenerate ones (empty formula, empty clause / constraint, unused variables, coefficients 0, 1, >1, "
        "equalities, negative literals, every input operator), random ones, real cnfgen / pbgen command lines; "
        "0/1/34/35/36/70/71 rows for the page split; with/without header and variable names, odd characters in both; "
        "StringIO and real files; distinct = distinct request line; non-trivial = at least one row")
ASSUMPTIONS = ["the token-level theorems speak about token rows; text -> rows is proven for the OPB writer's own output "
               "(Props/C12/Text.lean: opb_text_roundtrip, numbers up to 4300 digits) and for the LaTeX writer's own output "
               "(Props/C12/LatexText.lean: latex_text_lex, latex_text_rows_*; names without white space); the lexers on other texts are compared, not proven",
               "typographic meaning of the LaTeX (alignment blanks, what \\overline covers) is not part of any theorem"]
NOTES = ["D46-s6 (known finding): to_file(..., 'latex') raises KeyError for a formula whose header has no 'description' entry (the user deleted it "
         "or replaced the header); str(F) and the DIMACS / OPB writers cope; corpus cls nodescription keeps exercising it",
         "D14 (fixed 81c9102): header value / label with a line break -> non-comment line in the OPB file; corpus cls linebreak keeps exercising it",
         "D31 (fixed 47b0608): LaTeX omitted every coefficient <= 1, so a zero coefficient was shown as 1; corpus cls zerocoef keeps exercising it",
         "D30 (fixed 8a26dc4): guess_output_format raised TypeError for a file object whose .name is an int; corpus cls fdname"]


def is_opb(F):
    return isinstance(F, BaseOPB)


def make_formula(info):
    if info["src"] == "hist":
        # ONE formula object with a history: grown step by step and looked at on the way (harness/histlib.py)
        return histlib.play(info["steps"])
    if info["src"] == "cli":
        F = iolib.cli_formula(info.get("tool", "cnfgen"), info["argv"], info.get("seed", 0))
        if F is None:
            return None
        for k, v in info.get("hdr_extra", []):
            F.header[k] = v
        return F
    F = OPB() if info.get("cls") == "opb" else CNF()
    for lab in info.get("labels", []):
        F.new_variable(label=lab)
    F.update_variable_number(info["n"])
    if info.get("cls") == "opb":
        for c in info["constraints"]:
            if c and c[0] == "clause":
                F.add_clause(c[1])
            else:
                F.add_constraint([tuple(t) for t in c[:-2]] + [c[-2], c[-1]])
    else:
        for c in info["clauses"]:
            F.add_clause(c)
    if info.get("hdr") is not None:
        F.header = OrderedDict((k, v) for k, v in info["hdr"])
    return F


def reference(F, info):
    """the CURRENT content: the object itself, or (history) a twin built by the same growth steps and never looked at"""
    return histlib.twin(info["steps"]) if info["src"] == "hist" else F


def changed_by_looking(F, R):
    if R is not F and (F.number_of_variables(), items_of(F)) != (R.number_of_variables(), items_of(R)):
        return {"looking_at_the_formula_changed_it": [F.number_of_variables(), items_of(F)[:20]],
                "same_steps_never_observed": [R.number_of_variables(), items_of(R)[:20]]}
    return None


def enc_any(F):
    if is_opb(F):
        return [1, F.number_of_variables()] + enc_pbcs([list(c) for c in F])
    return [0] + enc_cnf(F.number_of_variables(), [list(c) for c in F])


def items_of(F):
    return [list(c) for c in F]


def has_zero_coef(F):
    return is_opb(F) and any(c == 0 for lin in F for c, _ in lin[:-2])


def has_break(strings, u):
    return any(("\n" in s) or (u and "\r" in s) for s in strings)


def clean(names):
    return all(not any(ch.isspace() for ch in s) for s in names)


def header_of(F):
    return [("{}".format(k), "{}".format(v)) for k, v in F.header.items()]


# ------------------------------------------------------------------ OPB writer
def build_wopb(info):
    F = make_formula(info)
    if F is None:
        return None
    u = bool(info.get("u", False))
    eh = bool(info.get("export_header", True))
    ev = bool(info.get("export_varnames", False))
    R = reference(F, info)
    hdr = header_of(R)
    names = ["{}".format(x) for x in R.all_variable_labels()] if ev else []
    r = req("wopb", u, enc_any(R), enc_opt(hdr if eh else None, enc_header), enc_opt(names if ev else None, enc_names))
    state = {}

    def impl():
        if u:
            path = tmpname(".opb")
            F.to_file(path, fileformat=info.get("fmt"), export_header=eh, export_varnames=ev)
            text = read_raw(path)
        elif not eh and not ev and info.get("via") == "to_opb":
            text = F.to_opb()
        else:
            out = io.StringIO()
            F.to_file(out, fileformat="opb", export_header=eh, export_varnames=ev)
            text = out.getvalue()
        state["text"] = text
        return ok("1 " + fmt_text(text))

    def oracle():
        text = state.get("text")
        if text is None:
            return {"writer_raised_on_a_legal_formula": True}
        if changed_by_looking(F, R):
            return changed_by_looking(F, R)
        n, cons = iolib.opb_expected(F)
        got = iolib.indep_opb(text, u)
        if got[0] != "ok":
            return {"independent_reader_rejects": got[1], "text": text[:400]}
        if got[1] != n or len(got[2]) != len(cons):
            return {"declared": [got[1], len(got[2])], "in_memory": [n, len(cons)]}
        for i, (a, b) in enumerate(zip(got[2], cons)):
            if a != b:
                return {"constraint": i, "file_says": str(a)[:200], "in_memory": str(b)[:200]}
        return None

    strings = [s for kv in (hdr if eh else []) for s in kv] + (names if ev else [])
    if has_break(strings, u):
        cls = "linebreak"
    else:
        cls = ("opb" if is_opb(F) else "cnf") + (":hdr" if eh else ":nohdr") + ("+names" if ev else "") + (":file" if u else ":str") + ":" + info["src"]
    return Case("wopb", r, impl, oracle, cls=cls, nontrivial=len(F) > 0, info=info)


def build_ropb(info):
    text = "".join(chr(c) for c in info["text"])
    u = bool(info.get("u", False))

    def impl():
        n, cons = iolib.opb_rows_read(py_lex(text, u))
        return ok("{} {}".format(n, fmt_pbcs(cons)))

    def oracle():
        # the two specification-side readers (regex / token grammar) must agree on acceptance for tool-like texts
        a = iolib.indep_opb(text, u)
        try:
            n, cons = iolib.opb_rows_read(py_lex(text, u))
            b = ("ok", n, [(list(c[:-2]), ">=" if c[-2] == ">=" else "=", c[-1]) for c in cons])
        except ValueError:
            b = ("bad",)
        if info.get("strict_text") and a[0] != b[0]:
            return {"regex_reader": a[0], "token_reader": b[0], "text": text[:300]}
        if a[0] == "ok" and b[0] == "ok" and (a[1], a[2]) != (b[1], b[2]):
            return {"regex_reader": str(a)[:300], "token_reader": str(b)[:300]}
        return None

    return Case("ropb", req("ropb", u, enc_str(text)), impl, oracle, cls=info.get("kind", ""), nontrivial=bool(text.strip()), info=info)


# ------------------------------------------------------------------ LaTeX
def latex_names(F):
    return ["{}".format(x) for x in F.all_variable_labels(default_label_format="x_{}")]


def latex_cls(F, names, info):
    if has_zero_coef(F):
        return "zerocoef"
    return ("opb" if is_opb(F) else "cnf") + ":" + info["src"] + (":rows=" + str(len(F)) if len(F) in (0, 1, 34, 35, 36, 70, 71) else "")


def build_wlatex(suite, info):
    F = make_formula(info)
    if F is None:
        return None
    R = reference(F, info)
    names = latex_names(R)
    agree = "1" if clean(names) else "-"
    state = {}
    if suite == "wlatex":
        r = req("wlatex", enc_any(R), enc_names(names))
        split, compact = -1, True

        def impl():
            text = F.to_latex()
            state["body"] = text
            return ok(agree + " " + fmt_text(text))
    elif suite == "wlatexbody":
        split, compact = int(info["split"]), bool(info["compact"])
        r = req("wlatexbody", enc_any(R), enc_names(names), split, compact)

        def impl():
            out = io.StringIO()
            _print_latex(F, out, split_every=split, compact=compact)
            state["body"] = out.getvalue()
            return ok(agree + " " + fmt_text(out.getvalue()))
    else:
        eh = bool(info.get("export_header", True))
        extra = info.get("extra", "")
        hdr = header_of(R)
        split, compact = 35, False
        r = req("wlatexdoc", enc_any(R), enc_names(names), enc_header(hdr), eh, enc_str(extra))
        kind = "constraints" if is_opb(F) else "clauses"
        intro = ("\\noindent\\textbf{{Pseudo-boolean formula with {} variables and and {} constraints:}}\n" if is_opb(F)
                 else "\\noindent\\textbf{{CNF with {} variables and and {} clauses:}}\n").format(R.number_of_variables(), len(R))

        def impl():
            if info.get("u"):
                path = tmpname(".tex")
                F.to_file(path, fileformat=info.get("fmt"), export_header=eh, extra_text=extra)
                text = read_raw(path)
            else:
                out = io.StringIO()
                F.to_file(out, fileformat="latex", export_header=eh, extra_text=extra)
                text = out.getvalue()
            try:
                state["body"] = iolib.latex_doc_body(text, intro)
            except ValueError:
                state["body"] = None
            state["doc"] = text
            return ok(agree + " " + fmt_text(text))

    def oracle():
        if "body" not in state:
            return {"writer_raised_on_a_legal_formula": True}
        if state["body"] is None:
            return {"document_skeleton": state["doc"][:300]}
        if changed_by_looking(F, R):
            return changed_by_looking(F, R)
        if not iolib.latex_names_ok(names):
            return None
        return iolib.latex_check_body(state["body"], F, names, split, compact and not is_opb(F))

    cls = latex_cls(F, names, info)
    if suite == "wlatexdoc" and "description" not in dict(header_of(R)):
        cls = "nodescription"        # stable label of finding D46-s6: the document writer needs header['description']
    return Case(suite, r, impl, oracle, cls=cls, nontrivial=len(F) > 0, info=info)


def simple_names(names):
    """names for which the literal table is injective and rows lex cleanly"""
    return (clean(names) and len(set(names)) == len(names)
            and all(not s.startswith("\\overline{") and "}" not in re.split(r"(?<=.)[_^]", s, maxsplit=1)[0] for s in names))


def build_rlatexrow(info):
    F = make_formula(info)
    if F is None:
        return None
    names = latex_names(F)
    if not simple_names(names):
        return None
    i = info["row"]
    text = F.to_latex() if info.get("compact", True) else None
    if text is None:
        out = io.StringIO()
        _print_latex(F, out, split_every=int(info.get("split", 35)), compact=False)
        text = out.getvalue()
    rows = [ln for ln in text.split("\n") if ln.startswith("&")]
    if i >= len(rows) or len(rows) != len(F):
        return None
    item = items_of(F)[i]
    r = req("rlatexrow", 1 if is_opb(F) else 0, enc_names(names), enc_str(rows[i]))

    def impl():
        if is_opb(F):
            return ok(fmt_pbc(item))
        return ok(" ".join(str(l) for l in item))
    return Case("rlatexrow", r, impl, None, cls=("opb" if is_opb(F) else "cnf") + ":" + info["src"], nontrivial=True, info=info)


def build_rlatexbody(info):
    F = make_formula(info)
    if F is None:
        return None
    names = latex_names(F)
    if not simple_names(names):
        return None
    form = info.get("form", "snippet")
    if form == "snippet":
        text = F.to_latex()
    elif form == "doc":
        out = io.StringIO()
        F.to_file(out, fileformat="latex", export_header=bool(info.get("export_header", True)), extra_text=info.get("extra", ""))
        doc = out.getvalue()
        intro = ("\\noindent\\textbf{{Pseudo-boolean formula with {} variables and and {} constraints:}}\n" if is_opb(F)
                 else "\\noindent\\textbf{{CNF with {} variables and and {} clauses:}}\n").format(F.number_of_variables(), len(F))
        try:
            text = iolib.latex_doc_body(doc, intro)
        except ValueError:
            return None
    else:
        out = io.StringIO()
        _print_latex(F, out, split_every=int(info.get("split", 35)), compact=bool(info.get("compact", False)))
        text = out.getvalue()
    r = req("rlatexbody", 1 if is_opb(F) else 0, enc_names(names), enc_str(text))
    items = items_of(F)

    def impl():
        if is_opb(F):
            return ok(fmt_pbcs(items))
        return ok(common.fmt_clauses(items))
    return Case("rlatexbody", r, impl, None, cls=("opb" if is_opb(F) else "cnf") + ":" + form + ":" + info["src"] +
                (":rows=" + str(len(F)) if len(F) in (0, 1, 34, 35, 36, 70, 71) else ""), nontrivial=len(F) > 0, info=info)


# ------------------------------------------------------------------ format selection
class Sink:
    """a file-like object with a chosen .name"""
    def __init__(self, name=None, has_name=True):
        self.buf = []
        if has_name:
            self.name = name

    def write(self, s):
        self.buf.append(s)


def sniff(text):
    if text.startswith("%"):
        return "latex"
    if text.startswith("* #variable="):
        return "opb"
    if text.startswith("p cnf") or text.startswith("c "):
        return "dimacs"
    return "?" + text[:20]


def fmt_exc(f):
    try:
        return "OK " + f()
    except Exception as e:
        return "ERR " + type(e).__name__


def build_guessfmt(info):
    kind, name, request = info["kind"], info.get("name", ""), info.get("request")

    def arg():
        if kind == 0:
            return name
        if kind == 1:
            return Sink(name)
        if kind == 2:
            return Sink(7)
        return None if info.get("none") else Sink(has_name=False)

    def written(F):
        a = arg()
        if kind == 0:
            # a str: the writers would open it; use a path inside the scratch directory with this base name
            base = os.path.basename(name)
            if not base or base != name or base in (".", ".."):
                return guess_and_pick(F)
            a = os.path.join(iolib.tmpdir(), base)
            F.to_file(a, fileformat=request)
            return sniff(read_raw(a))
        if a is None:
            return guess_and_pick(F)
        F.to_file(a, fileformat=request)
        return sniff("".join(a.buf))

    def guess_and_pick(F):
        g = guess_output_format(arg(), request)
        if is_opb(F):
            return "latex" if g == "latex" else "opb"
        return g

    def impl():
        F1 = CNF([[1, -2]])
        F2 = OPB()
        F2.add_constraint([(2, 1), (1, -2), ">=", 1])
        return " | ".join([fmt_exc(lambda: guess_output_format(arg(), request)), fmt_exc(lambda: written(F1)),
                           fmt_exc(lambda: written(F2))])

    def oracle():
        try:
            g = guess_output_format(arg(), request)
        except ValueError:
            return None if request not in (None, "latex", "dimacs", "opb") else {"ValueError_for_legal_request": request}
        except Exception as e:
            return {"format_selection_failed_with": type(e).__name__, "fileorname_kind": kind, "request": request}
        if request is not None:
            return None if g == request and request in ("latex", "dimacs", "opb") else {"request": request, "got": g}
        nm = name if kind in (0, 1) else ""
        base = nm.rsplit("/", 1)[-1]

        def has_ext(e):
            return base.endswith(e) and base[:-len(e)].strip(".") != ""
        want = "latex" if has_ext(".tex") else "opb" if has_ext(".opb") else "dimacs"
        return None if g == want else {"name": nm, "got": g, "extension_says": want}

    r = req("guessfmt", [kind] + (enc_str(name) if kind in (0, 1) else []), enc_opt(request, enc_str))
    cls = "fdname" if kind == 2 and request is None else ["path", "named", "fdname+request", "nameless"][kind]
    return Case("guessfmt", r, impl, oracle, cls=cls, nontrivial=True, info=info)


def build(suite, info):
    if suite == "wopb":
        return build_wopb(info)
    if suite == "ropb":
        return build_ropb(info)
    if suite in ("wlatex", "wlatexdoc", "wlatexbody"):
        return build_wlatex(suite, info)
    if suite == "rlatexrow":
        return build_rlatexrow(info)
    if suite == "rlatexbody":
        return build_rlatexbody(info)
    if suite == "guessfmt":
        return build_guessfmt(info)
    raise ValueError(suite)


# ------------------------------------------------------------------ generators
IN_OPS = [">=", "<=", "==", ">", "<"]


def rand_constraint(rng, n, zero_ok=False):
    w = rng.choice([0, 1, 2, 2, 3, 4, 6])
    if n == 0:
        w = 0
    terms = []
    for _ in range(w):
        c = rng.choice([1, 1, 1, 2, 3, 5, 10, 17, -1, -2, -4, 100])
        if zero_ok and rng.random() < .3:
            c = 0
        terms.append([c, rng.choice([1, -1]) * rng.randint(1, n)])
    return terms + [rng.choice(IN_OPS), rng.randint(-3, 8)]


def rand_opb_info(rng, m=None, zero_ok=False):
    n = rng.choice([0, 1, 2, 3, 5, 9, 10, 11, 30])
    m = rng.choice([0, 1, 2, 3, 5, 8]) if m is None else m
    cons = []
    for _ in range(m):
        if rng.random() < .2:
            cons.append(["clause", [rng.choice([1, -1]) * rng.randint(1, n) for _ in range(rng.randint(0, 3))] if n else []])
        else:
            cons.append(rand_constraint(rng, n, zero_ok))
    return dict(src="hand", cls="opb", n=n, constraints=cons)


def rand_cnf_info(rng, m=None):
    n = rng.choice([0, 1, 2, 3, 5, 9, 10, 11, 30])
    m = rng.choice([0, 1, 2, 3, 5, 8]) if m is None else m
    return dict(src="hand", cls="cnf", n=n, clauses=iolib.rand_clauses(rng, n, m))


HAND = [
    dict(cls="cnf", n=0, clauses=[]), dict(cls="cnf", n=0, clauses=[[]]), dict(cls="cnf", n=3, clauses=[]),
    dict(cls="cnf", n=4, clauses=[[-1, 2, -3], [-2, -4], [2, 3, -4]]), dict(cls="cnf", n=2, clauses=[[1, 1, -1], [], [2]]),
    dict(cls="cnf", n=12, clauses=[[10, -11, 12], [-10]]),
    dict(cls="opb", n=0, constraints=[]), dict(cls="opb", n=2, constraints=[[">=", 0]]), dict(cls="opb", n=0, constraints=[["==", 3], ["<", -2]]),
    dict(cls="opb", n=4, constraints=[[[1, 1], [1, 3], [1, -2], [1, 4], ">=", 3], [[1, 1], [1, 3], [1, -2], [1, 4], "==", 3],
                                      [[2, 3], [2, -1], [1, -2], ">=", 2]]),
    dict(cls="opb", n=3, constraints=[[[-2, 1], [3, -2], "<=", 1], [[5, 3], "==", 5], [[1, -3], [7, -1], ">", 0], ["clause", [1, -2]], ["clause", []]]),
    dict(cls="opb", n=3, constraints=[[[1, 1], [1, 1], [1, -1], "==", 1]]),
]
for _h in HAND:
    _h["src"] = "hand"

ZEROCOEF = [dict(src="hand", cls="opb", n=3, constraints=[[[0, 1], [2, -3], ">=", 1]]),
            dict(src="hand", cls="opb", n=2, constraints=[[[0, -2], "==", 0], [[1, 1], [0, 2], ">=", 1]])]

PAGE_SIZES = [0, 1, 34, 35, 36, 70, 71]


def mutate_opb_text(rng, text):
    lines = text.split("\n")
    kind = rng.choice(["n-1", "m+1", "m-1", "drop-line", "dup-line", "blank", "comment", "drop-tok", "x0", "no-rel", "none", "swap"])
    body = [i for i, l in enumerate(lines) if l and not l.startswith("*")]
    if kind in ("n-1", "m+1", "m-1") and lines and lines[0].startswith("* #variable="):
        t = lines[0].split(" ")
        try:
            if kind == "n-1":
                t[2] = str(int(t[2]) - 1)
            else:
                t[4] = str(int(t[4]) + (1 if kind == "m+1" else -1))
        except (ValueError, IndexError):
            pass
        lines[0] = " ".join(t)
    elif kind == "drop-line" and body:
        del lines[rng.choice(body)]
    elif kind == "dup-line" and body:
        i = rng.choice(body)
        lines.insert(i, lines[i])
    elif kind == "blank":
        lines.insert(rng.randint(0, len(lines)), "")
    elif kind == "comment":
        lines.insert(rng.randint(1, len(lines)), "* a comment >= 1")
    elif kind in ("drop-tok", "x0", "no-rel", "swap") and body:
        i = rng.choice(body)
        t = lines[i].split(" ")
        j = rng.randrange(len(t))
        if kind == "drop-tok":
            del t[j]
        elif kind == "x0":
            t[j] = "x0"
        elif kind == "no-rel":
            t = [x for x in t if x not in (">=", "=")]
        elif len(t) > 1:
            j = rng.randrange(len(t) - 1)
            t[j], t[j + 1] = t[j + 1], t[j]
        lines[i] = " ".join(t)
    return kind, "\n".join(lines)


def cases(ctx):
    tier, seed = ctx["tier"], ctx["seed"]
    rng = common.sub_rng(seed, "C12")
    odd = iolib.ODD_STRINGS
    infos = []
    # ---- corpus: known findings first
    infos.append(("wopb", dict(src="hand", cls="cnf", n=2, clauses=[[1, -2]], hdr=[["description", "graph name\n"]], export_header=True)))
    infos.append(("wopb", dict(src="hand", cls="opb", n=2, constraints=[[[2, 1], [1, -2], ">=", 2]], labels=["x\ny"], export_header=False, export_varnames=True)))
    for z in ZEROCOEF:
        infos.append(("wlatex", dict(z)))
        infos.append(("wlatexdoc", dict(z)))
        infos.append(("wopb", dict(z, export_header=False)))
    infos.append(("guessfmt", dict(kind=2, request=None)))
    # ---- the largest numbers CPython prints and reads back (4300 digits): boundary of `PrintableOpb` in Props/C12/Text.lean
    big = 10 ** 4300 - 1
    for u in (False, True):
        infos.append(("wopb", dict(src="hand", cls="opb", n=big, constraints=[[[big, 1], [-big, -big], ">=", -big], [[1, big], "==", big]],
                                   export_header=False, u=u)))
        infos.append(("wopb", dict(src="hand", cls="cnf", n=big, clauses=[[big, -1], [-big]], export_header=True, u=u)))
    # ---- hand-built
    for f in HAND:
        for eh, ev in ((False, False), (True, False), (True, True), (False, True)):
            for u in (False, True):
                info = dict(f, export_header=eh, export_varnames=ev, u=u)
                if not eh and not ev and not u:
                    info["via"] = "to_opb"
                infos.append(("wopb", info))
        infos.append(("wlatex", dict(f)))
        infos.append(("wlatexdoc", dict(f, export_header=True, extra="some text\n")))
        infos.append(("wlatexdoc", dict(f, export_header=False, u=True)))
        for split in (-1, 0, 1, 2, 3):
            for compact in (False, True):
                infos.append(("wlatexbody", dict(f, split=split, compact=compact)))
                infos.append(("rlatexbody", dict(f, form="body", split=split, compact=compact)))
        infos.append(("rlatexbody", dict(f, form="snippet")))
        infos.append(("rlatexbody", dict(f, form="doc", export_header=True, extra="some text\n")))
    # ---- names outside ASCII, written through a file name (seeded change C12-6)
    for u in (False, True):
        infos.append(("wlatexdoc", dict(src="hand", cls="cnf", n=3, clauses=[[1, -2], [3], [-1, -3]], labels=["α", "β_1", "é^2"],
                                        export_header=u, u=True, extra="§ ü\n" if u else "")))
        infos.append(("wlatexdoc", dict(src="hand", cls="opb", n=2, constraints=[[[2, 1], [1, -2], ">=", 2]], labels=["α", "λ_{1,2}"],
                                        export_header=u, u=True)))
    # ---- page sizes
    for m in PAGE_SIZES:
        infos.append(("wlatexdoc", dict(rand_cnf_info(rng, m), export_header=bool(m % 2))))
        infos.append(("wlatexdoc", dict(rand_opb_info(rng, m), export_header=bool(m % 2))))
        infos.append(("wlatex", dict(rand_cnf_info(rng, m))))
        infos.append(("wlatex", dict(rand_opb_info(rng, m))))
        for mk in (rand_cnf_info, rand_opb_info):
            infos.append(("rlatexbody", dict(mk(rng, m), form="doc", export_header=bool(m % 2))))
            infos.append(("rlatexbody", dict(mk(rng, m), form="snippet")))
            infos.append(("rlatexbody", dict(mk(rng, m), form="body", split=rng.choice([1, 2, 7, 34, 35, 36]), compact=bool(m % 2))))
    # ---- odd strings in headers / labels
    for i, s in enumerate(odd):
        base = dict(src="hand", cls="opb" if i % 2 else "cnf", n=3, labels=[s, odd[(i + 7) % len(odd)]],
                    hdr=[["description", s], [odd[(i + 3) % len(odd)], odd[(i + 5) % len(odd)]]])
        if i % 2:
            base["constraints"] = [[[2, 1], [1, -2], ">=", 2], [[1, 3], "==", 1]]
        else:
            base["clauses"] = [[1, -2], [3], [-1, -3]]
        infos.append(("wopb", dict(base, export_header=True, export_varnames=True, u=bool(i % 3 == 0))))
        infos.append(("wlatex", dict(base)))
        infos.append(("wlatexdoc", dict(base, export_header=True, extra=s)))
        if i % 2 == 0:
            infos.append(("wlatexdoc", dict(base, export_header=True, extra=s, u=True)))
            infos.append(("wlatexdoc", dict(base, export_header=False, u=True, fmt="latex")))
    for s in iolib.BREAK_STRINGS:
        infos.append(("wopb", dict(src="hand", cls="cnf", n=2, clauses=[[1], [-2]], hdr=[["description", s]], export_header=True, u=True)))
        infos.append(("wopb", dict(src="hand", cls="opb", n=2, constraints=[[[3, 1], "==", 3]], labels=[s], export_varnames=True, export_header=False)))
    # ---- real command lines
    nb = 10 if tier == "quick" else None
    for tool, argvs in (("cnfgen", iolib.CNF_ARGVS), ("pbgen", iolib.PB_ARGVS)):
        sel = argvs if nb is None else rng.sample(argvs, min(nb, len(argvs)))
        for argv in sel:
            base = dict(src="cli", tool=tool, argv=list(argv), seed=rng.randint(1, 10 ** 6))
            infos.append(("wopb", dict(base, export_header=True, export_varnames=True, u=rng.random() < .5)))
            infos.append(("wopb", dict(base, export_header=False, export_varnames=False)))
            infos.append(("wlatex", dict(base)))
            infos.append(("wlatexdoc", dict(base, export_header=rng.random() < .5, extra="\\noindent command line text\n")))
            for _ in range(3):
                infos.append(("rlatexrow", dict(base, row=rng.randint(0, 40), compact=rng.random() < .5)))
            infos.append(("rlatexbody", dict(base, form=rng.choice(["snippet", "doc", "body"]), split=rng.choice([-1, 3, 35]),
                                             compact=rng.random() < .5)))
    # ---- random
    reps = 120 if tier == "quick" else 6000
    for _ in range(reps):
        f = rand_opb_info(rng) if rng.random() < .55 else rand_cnf_info(rng)
        k = rng.randint(0, min(f["n"], 3))
        f["labels"] = rng.sample(["a", "b_1", "y^2", "z_{1,2}", "{w_{1}}^3", "e[1]_{1,3}", "_u", "^v", "q_", "t^a_b"], k)
        which = rng.random()
        if which < .35:
            infos.append(("wopb", dict(f, export_header=rng.random() < .5, export_varnames=rng.random() < .5, u=rng.random() < .5,
                                      fmt=rng.choice([None, "opb"]))))
        elif which < .55:
            infos.append(("wlatex", f))
        elif which < .7:
            infos.append(("wlatexdoc", dict(f, export_header=rng.random() < .5, u=rng.random() < .3, fmt=rng.choice([None, "latex"]))))
        elif which < .85:
            infos.append(("wlatexbody", dict(f, split=rng.choice([-1, 0, 1, 2, 3, 4, 5]), compact=rng.random() < .5)))
        else:
            m = len(f.get("constraints", f.get("clauses", [])))
            if m:
                infos.append(("rlatexrow", dict(f, row=rng.randrange(m), compact=rng.random() < .5, split=rng.choice([2, 3, 35]))))
            infos.append(("rlatexbody", dict(f, form=rng.choice(["snippet", "doc", "body", "body"]), split=rng.choice([-1, 0, 1, 2, 3, 5, 35]),
                                             compact=rng.random() < .5)))
    for _ in range(reps // 6):
        infos.append(("wlatex", rand_opb_info(rng, zero_ok=True)))
    # ---- OPB reader: tool outputs and their mutations
    for _ in range(reps * 2):
        f = rand_opb_info(rng) if rng.random() < .6 else rand_cnf_info(rng)
        F = make_formula(f)
        out = io.StringIO()
        F.to_file(out, fileformat="opb", export_header=rng.random() < .5, export_varnames=rng.random() < .3)
        text = out.getvalue()
        if rng.random() < .6:
            kind, text = mutate_opb_text(rng, text)
        else:
            kind = "tool-output"
        infos.append(("ropb", dict(text=[ord(c) for c in text], u=rng.random() < .3, kind=kind, strict_text=True)))
    for text, kind in [("", "empty"), ("* #variable= 0 #constraint= 0\n", "empty-formula"), ("* #variable= 1 #constraint= 1\n+1 x1 >= 1\n", "ok"),
                       ("* #variable= 1 #constraint= 1\n+1 x2 >= 1\n", "range"), ("* #variable= 1 #constraint= 2\n+1 x1 >= 1\n", "count"),
                       ("* #variable= 1 #constraint= 1\n\n+1 x1 >= 1\n", "blank"), ("* #variable= 1 #constraint= 1\n+1 x1 > 1\n", "rel"),
                       ("*  #variable= 1 #constraint= 0\n", "spacing"), ("* #variable= 1 #constraint= 1\n= 0\n", "empty-sum"),
                       ("* #variable= 2 #constraint= 1\n-3 ~x2 +0 x1 = -7\n", "signs")]:
        infos.append(("ropb", dict(text=[ord(c) for c in text], u=False, kind="corpus:" + kind, strict_text=kind not in ("spacing",))))
    # ---- format selection
    stems = ["", "a", "out", ".", "..", "a.b", "dir/a", "dir.tex/a", ".tex", "a.", "dir/.opb", "x.cnf", "<stdout>", "a b", "é"]
    exts = ["", ".tex", ".opb", ".cnf", ".TEX", ".tex.gz", ".opb.tex", ".tex.opb", "tex", ".", ".latex", ".dimacs"]
    requests = [None, None, "latex", "dimacs", "opb", "tex", "", "LaTeX", "cnf"]
    for stem in stems:
        for ext in exts:
            for kind in (0, 1):
                infos.append(("guessfmt", dict(kind=kind, name=stem + ext, request=rng.choice(requests))))
    for rq in requests:
        infos.append(("guessfmt", dict(kind=2, request=rq)))
        infos.append(("guessfmt", dict(kind=3, request=rq)))
        infos.append(("guessfmt", dict(kind=3, request=rq, none=True)))
        infos.append(("guessfmt", dict(kind=0, name="f.tex", request=rq)))
        infos.append(("guessfmt", dict(kind=0, name="f.opb", request=rq)))
    for suite, info in infos:
        c = build(suite, info)
        if c is not None:
            yield c


# ------------------------------------------------------------------ failing-input search
def search(ctx, case):
    rng = common.sub_rng(ctx["seed"], "C12", "search", case.req[:200])
    r = common.run_oracle(case)
    if r is not None:
        return {"suite": case.suite, "info": case.info, "failure": r}
    return search_global(ctx, rng)


def search_global(ctx, rng=None):
    rng = rng or common.sub_rng(ctx["seed"], "C12", "search-global")
    for _ in range(600):
        f = rand_opb_info(rng) if rng.random() < .5 else rand_cnf_info(rng)
        for suite, info in (("wopb", dict(f, export_header=rng.random() < .5, export_varnames=rng.random() < .5)),
                            ("wlatex", f), ("wlatexdoc", dict(f, export_header=False))):
            c = build(suite, info)
            common.run_impl(c)
            r = common.run_oracle(c)
            if r is not None:
                return {"suite": suite, "info": info, "failure": r}
    for m in (35, 36, 70, 71):
        for f in (rand_cnf_info(rng, m), rand_opb_info(rng, m)):
            c = build("wlatexdoc", dict(f, export_header=False))
            common.run_impl(c)
            r = common.run_oracle(c)
            if r is not None:
                return {"suite": "wlatexdoc", "info": c.info, "failure": r}
    return None
