"""C15 (topic: networkx-backed constructions) — grid, torus, complete N B, gnp, gnm.

Until now the model took the result of these constructions as an input.  They are now modelled
(lean/CnfgenModel/Graph/NxBuild.lean, Rand/NxDraws.lean): networkx.Graph as an insertion-ordered
adjacency structure, path/cycle/cartesian product/relabelling copy/complete multipartite, the draw
loops of gnp_random_graph / gnm_random_graph, and cnfgen's Graph.from_networkx as the exact sequence of
`add_edge` calls.

Correspondence.  The real functions run in this process:
  * `obtain_grid_or_torus`, `obtain_complete_simple`, `obtain_gnp`, `obtain_gnm` of graph_build.py (and, for
    argument vectors that cnfgen's guards refuse — a dimension 0, block size 0 — `Graph.from_networkx` of the
    networkx generator directly);
  * wrappers installed in the harness process record (a) the networkx object the generator returned: node
    order, `G.edges()`, every adjacency dict in dict order; (b) every `Graph.add_edge(u, v)` call cnfgen makes,
    in order, the refused one included; (c) every call networkx makes on `random._inst` (`random()`,
    `choice(seq)`), either passed through to Python's generator after `random.seed(rseed)` or answered by an
    injection policy (`low`, `high`, `sticky`, `uniform`: legal answers that reach the retry paths).
  The Lean driver gets the same arguments and the recorded draws; all three observations must coincide.
  Generic pieces get their own suites: `nx_from` (arbitrary time-ordered `add_edge` sequences on an integer
  networkx graph — repeated edges, both orientations, self-loops — through `Graph.from_networkx`), `nx_product`
  (`cartesian_product` of two such graphs), `nx_line` (`path_graph`, `cycle_graph`).

Oracle (no model): the named structure computed independently from coordinates (mixed radix, first dimension
least significant) / block numbers; vertex count = product / sum; edge count closed form; torus with all
dimensions >= 3 is 2k-regular; gnm has exactly m edges; gnp: N vertices, a simple graph, complete for p = 1, empty for
p = 0 (which pair is decided by which draw is a fact about networkx's algorithm: compared by the correspondence,
proved about the model, not demanded by the oracle); refusals only where documented or known (torus with a dimension 1).
"""
import itertools
import random as pyrandom          # the module-level generator belongs to the code under test
import shutil
import tempfile

import networkx
from networkx.utils.misc import create_py_random_state

from harness import common
from harness.common import Case, req, enc_list, enc_pairs

from cnfgen.graphs import Graph, readGraph
import cnfgen.clitools.graph_build as graph_build
import cnfgen.clitools.graph_args as graph_args
from harness.props import C15 as c15base

RULE = ("grid/torus: every dimension vector over {1..4} of length <= 3 (quick) / {1..5}, length <= 4 (thorough) + odd ones "
        "(0, repeated, six dimensions, one long dimension); complete: all (n, b) <= 5 x 5 + arbitrary block-size lists; "
        "gnp/gnm: n <= 9 x every m / p in {0, 1, -0.0, .5, .3, .9, 1e-9, tokens} x {seeded Python generator, injected legal "
        "draws low/high/sticky/uniform} + a few n up to 40; generic networkx pieces on random add_edge sequences; "
        "distinct = distinct request line; non-trivial = at least one edge call")
ASSUMPTIONS = [
    "networkx 3.6.1 as installed: its Graph is modelled as insertion-ordered adjacency (dict order), checked on every case "
    "by comparing node order, G.edges() and every adjacency row",
    "Python's generator is only assumed legal: random() = k/2^53 with k < 2^53, choice(seq) a member of seq",
]
TRUSTED_EXTRA = [
    "gnd: the iteration order of the Python set of edges inside networkx.random_regular_graph is not modelled; the "
    "order-free views of the resulting object (n, m, sorted rows, sorted edge set) are compared",
]
NOTES = ["networkx draws from random._inst (checked: create_py_random_state(None) is random._inst); the recorder sets "
         "instance attributes on it in this process only"]

UNIT = 1 << 53
MODES = ["seed", "low", "high", "sticky", "uniform"]


# ------------------------------------------------------------------ recorders
class InstRecorder:
    """records / injects the calls networkx makes on random._inst (random, choice)"""

    def __init__(self, mode, rseed):
        self.mode, self.rseed = mode, rseed
        self.draws = []
        self.units = []
        self.hr = common.sub_rng(rseed, "nxinject", mode)
        self.last = None
        self.ncalls = 0

    def __enter__(self):
        inst = pyrandom._inst
        self.inst = inst
        self.state = inst.getstate()
        self.saved = {k: inst.__dict__.get(k) for k in ("random", "choice", "shuffle")}
        o_random, o_choice, o_shuffle = inst.random, inst.choice, inst.shuffle
        if self.mode == "seed":
            inst.seed(self.rseed)

        def r():
            if self.mode == "seed":
                x = o_random()
            elif self.mode == "low":
                x = 0.0
            elif self.mode == "high":
                x = (UNIT - 1) / UNIT
            else:
                x = self.hr.choice([0.0, (UNIT - 1) / UNIT, self.hr.random(), self.hr.random(), 0.5, 0.25])
            num = int(x * UNIT)
            assert num / UNIT == x
            self.draws.append([0, num])
            self.units.append(x)
            return x

        def c(seq):
            if self.mode == "seed":
                x = o_choice(seq)
            else:
                n = len(seq)
                if n == 0:
                    raise IndexError("Cannot choose from an empty sequence")
                self.ncalls += 1
                if self.ncalls > 600:
                    i = self.hr.randrange(n)      # an adversary repeating itself for ever is a non-terminating run
                elif self.mode == "low":
                    i = 0 if self.ncalls % 7 else self.hr.randrange(n)
                elif self.mode == "high":
                    i = n - 1 if self.ncalls % 5 else self.hr.randrange(n)
                elif self.mode == "sticky":
                    if self.last is not None and self.last < n and self.hr.random() < 0.7:
                        i = self.last
                    else:
                        i = self.hr.randrange(n)
                    self.last = i
                else:
                    i = self.hr.randrange(n)
                x = seq[i]
            if list(seq) != list(range(len(seq))):
                self.draws.append([9, 0])         # a population the model does not know: the request will not parse
            else:
                self.draws.append([1, x])
            return x
        def sh(x):
            before = list(x)
            if self.mode == "seed":
                o_shuffle(x)
            else:
                self.ncalls += 1
                if self.ncalls > 60:
                    self.hr.shuffle(x)        # an adversary repeating itself for ever is a non-terminating run
                elif self.mode == "low":
                    pass                      # identity: range(n)*d pairs up (0,1),(2,3),… again and again
                elif self.mode == "high":
                    x.reverse()
                elif self.mode == "sticky":
                    x.sort()                  # equal stubs next to each other: loops, repeated pairs, restarts
                    if self.hr.random() < 0.3:
                        self.hr.shuffle(x)
                else:
                    self.hr.shuffle(x)
            self.draws.append([2] + enc_list(before) + enc_list(x))
        inst.random = r
        inst.choice = c
        inst.shuffle = sh
        return self

    def __exit__(self, *a):
        for k, v in self.saved.items():
            if v is None:
                self.inst.__dict__.pop(k, None)
            else:
                self.inst.__dict__[k] = v
        self.inst.setstate(self.state)
        return False

    def encoded(self):
        out = [len(self.draws)]
        for d in self.draws:
            out += d
        return out


class CallRecorder:
    """records Graph.add_edge calls (the refused one included) and the object returned by one networkx generator"""

    def __init__(self, genname=None):
        self.genname = genname
        self.calls = []
        self.nxobj = None

    def __enter__(self):
        self.orig = Graph.add_edge
        rec = self

        def add_edge(this, u, v):
            rec.calls.append((u, v))
            return rec.orig(this, u, v)
        Graph.add_edge = add_edge
        if self.genname:
            self.gen = getattr(networkx, self.genname)

            def wrapper(*a, **kw):
                G = rec.gen(*a, **kw)
                rec.nxobj = G
                return G
            setattr(networkx, self.genname, wrapper)
        return self

    def __exit__(self, *a):
        Graph.add_edge = self.orig
        if self.genname:
            setattr(networkx, self.genname, self.gen)
        return False


# ------------------------------------------------------------------ canonical forms (mirror of Driver/NxBuild.lean)
def fmt_pairs(ps):
    ps = list(ps)
    out = [str(len(ps))]
    for a, b in ps:
        out += [str(a), str(b)]
    return " ".join(out)


def fmt_row(l):
    return " ".join([str(len(l))] + [str(x) for x in l])


def fmt_nxg(G):
    """node order must be the sorted order (positions = ranks); edges view and adjacency rows in dict order"""
    nodes = list(G)
    try:
        srt = sorted(nodes)
    except TypeError:
        return "UNSORTABLE"
    if nodes != srt:
        return "UNSORTED " + repr(nodes[:6])
    pos = {v: i for i, v in enumerate(nodes)}
    edges = [(pos[u], pos[v]) for u, v in G.edges()]
    rows = [fmt_row([pos[x] for x in G.adj[w]]) for w in nodes]
    return "{} {} A {}".format(len(nodes), fmt_pairs(edges), " ; ".join(rows))


def fmt_simple(G):
    return "S {} {} {} {}".format(G.number_of_vertices(), G.number_of_edges(), fmt_pairs(G.edges()),
                                  fmt_pairs(sorted(G.edgeset)))


def fmt_from(calls, res):
    if isinstance(res, Exception):
        return "C {} ERR {}".format(fmt_pairs(calls), type(res).__name__)
    return "C {} {}".format(fmt_pairs(calls), fmt_simple(res))


# ------------------------------------------------------------------ references (oracle)
def coords(dims, r):
    out = []
    for d in dims:
        out.append(r % d)
        r //= d
    return out


def ref_grid_adjacent(dims, periodic, x, y):
    diff = [i for i in range(len(dims)) if x[i] != y[i]]
    if len(diff) != 1:
        return False
    i = diff[0]
    a, b, d = x[i], y[i], dims[i]
    if abs(a - b) == 1:
        return True
    return periodic and d >= 3 and {a, b} == {0, d - 1}


def check_simple_object(G):
    n = G.number_of_vertices()
    es = list(G.edges())
    if len(set(es)) != len(es) or any(not (1 <= u < v <= n) for u, v in es):
        return "edge view not a set of pairs u < v in range"
    if G.number_of_edges() != len(es):
        return "edge counter differs from the edge view"
    for v in range(1, n + 1):
        nb = list(G.neighbors(v))
        if nb != sorted(set(nb)) or any((min(v, w), max(v, w)) not in set(es) for w in nb):
            return "neighbour row inconsistent"
    if sum(G.degree(v) for v in range(1, n + 1)) != 2 * len(es):
        return "degrees do not sum to 2m"
    return None


def prod(l):
    out = 1
    for x in l:
        out *= x
    return out


# ------------------------------------------------------------------ suite nx_grid
def build_grid(info):
    dims, periodic = list(info["dims"]), bool(info["periodic"])
    state = {}
    via_cli = len(dims) > 0 and all(d >= 1 for d in dims)

    def impl():
        with CallRecorder("grid_graph") as rec:
            try:
                if via_cli:
                    G = graph_build.obtain_grid_or_torus({"args": [str(d) for d in dims]}, periodic)
                else:
                    N = networkx.grid_graph(dims, periodic=periodic)
                    G = Graph.from_networkx(N)
                res = G
            except ValueError as e:
                res = e
            if rec.nxobj is None:
                raise RuntimeError("networkx.grid_graph was not called")
        state["res"], state["calls"] = res, rec.calls
        return "OK {} | {}".format(fmt_nxg(rec.nxobj), fmt_from(rec.calls, res))

    def oracle():
        res = state.get("res")
        if res is None:
            return None
        if isinstance(res, Exception):
            if periodic and 1 in dims and 0 not in dims:
                return None                # known: networkx's 1-cycle is a self-loop, add_edge refuses it (clean)
            return {"defect": ("torus" if periodic else "grid") + ":refused-legal", "dims": dims}
        if periodic and 1 in dims and 0 not in dims:
            return {"defect": "torus:dimension-1-accepted", "dims": dims}
        n = prod(dims) if dims else 0
        if res.number_of_vertices() != n:
            return {"defect": "grid:vertex-count", "got": res.number_of_vertices(), "want": n}
        bad = check_simple_object(res)
        if bad:
            return {"defect": "grid:object", "what": bad}
        es = set(res.edges())
        cs = [coords(dims, r) for r in range(n)]
        for u in range(1, n + 1):
            for v in range(u + 1, n + 1):
                want = ref_grid_adjacent(dims, periodic, cs[u - 1], cs[v - 1])
                if want != ((u, v) in es):
                    return {"defect": "grid:adjacency", "u": u, "v": v, "coords": [cs[u - 1], cs[v - 1]], "want": want}
        per_dim = [(d if (periodic and d >= 3) else d - 1) for d in dims]
        m = sum(per_dim[i] * prod(dims[:i] + dims[i + 1:]) for i in range(len(dims))) if n else 0
        if res.number_of_edges() != m:
            return {"defect": "grid:edge-count", "got": res.number_of_edges(), "want": m}
        if periodic and dims and all(d >= 3 for d in dims):
            if any(res.degree(v) != 2 * len(dims) for v in range(1, n + 1)):
                return {"defect": "torus:not-2k-regular"}
        return None

    cls = "{}:{}{}".format("torus" if periodic else "grid", len(dims),
                           ":self-loop" if periodic and 1 in dims else (":two-cycle" if periodic and 2 in dims else ""))
    return Case("nx_grid", req("nx_grid", periodic, enc_list(dims)), impl, oracle, cls=cls,
                nontrivial=prod(dims) > 1 if dims else False, info=info)


# ------------------------------------------------------------------ suite nx_line
def build_line(info):
    d, periodic = info["d"], bool(info["periodic"])

    def impl():
        G = networkx.cycle_graph(d) if periodic else networkx.path_graph(d)
        return "OK " + fmt_nxg(G)
    return Case("nx_line", req("nx_line", periodic, d), impl, None, cls="cycle" if periodic else "path",
                nontrivial=d > 1, info=info)


# ------------------------------------------------------------------ suites nx_from, nx_product (generic networkx pieces)
def nx_from_time_edges(n, edges):
    G = networkx.Graph()
    G.add_nodes_from(range(n))
    for u, v in edges:
        G.add_edge(u, v)
    return G


def build_from(info):
    n, edges = info["n"], [tuple(e) for e in info["edges"]]
    state = {}

    def impl():
        N = nx_from_time_edges(n, edges)
        with CallRecorder() as rec:
            try:
                res = Graph.from_networkx(N)
            except ValueError as e:
                res = e
        state["res"] = res
        return "OK {} | {}".format(fmt_nxg(N), fmt_from(rec.calls, res))

    def oracle():
        res = state.get("res")
        loops = any(u == v for u, v in edges)
        if isinstance(res, Exception):
            return None if loops else {"defect": "from_networkx:refused-simple-graph"}
        if res is None:
            return None
        want = {(min(u, v) + 1, max(u, v) + 1) for u, v in edges}
        if loops or set(res.edges()) != want or res.number_of_vertices() != n or res.number_of_edges() != len(want):
            return {"defect": "from_networkx:edges"}
        return None
    return Case("nx_from", req("nx_from", n, enc_pairs(edges)), impl, oracle,
                cls="loops" if any(u == v for u, v in edges) else "simple", nontrivial=len(edges) > 0, info=info)


def build_product(info):
    na, ea, nb, eb = info["na"], [tuple(e) for e in info["ea"]], info["nb"], [tuple(e) for e in info["eb"]]

    def impl():
        A, B = nx_from_time_edges(na, ea), nx_from_time_edges(nb, eb)
        return "OK " + fmt_nxg(networkx.cartesian_product(A, B))
    return Case("nx_product", req("nx_product", na, enc_pairs(ea), nb, enc_pairs(eb)), impl, None, cls="product",
                nontrivial=bool(ea or eb), info=info)


# ------------------------------------------------------------------ suite nx_multi
def build_multi(info):
    sizes = list(info["sizes"])
    state = {}
    via_cli = info.get("cli", False) and len(sizes) >= 1 and len(set(sizes)) == 1 and sizes[0] >= 1

    def impl():
        with CallRecorder("complete_multipartite_graph") as rec:
            try:
                if via_cli:
                    res = graph_build.obtain_complete_simple({"args": [str(sizes[0]), str(len(sizes))]})
                else:
                    res = Graph.from_networkx(networkx.complete_multipartite_graph(*sizes))
            except ValueError as e:
                res = e
            if rec.nxobj is None:
                raise RuntimeError("networkx.complete_multipartite_graph was not called")
        state["res"] = res
        return "OK {} | {}".format(fmt_nxg(rec.nxobj), fmt_from(rec.calls, res))

    def oracle():
        res = state.get("res")
        if res is None:
            return None
        if isinstance(res, Exception):
            return {"defect": "complete:refused-legal", "sizes": sizes}
        n = sum(sizes)
        block = []
        for i, s in enumerate(sizes):
            block += [i] * s
        bad = check_simple_object(res)
        if bad:
            return {"defect": "complete:object", "what": bad}
        want = {(u, v) for u in range(1, n + 1) for v in range(u + 1, n + 1) if block[u - 1] != block[v - 1]}
        if res.number_of_vertices() != n or set(res.edges()) != want:
            return {"defect": "complete:multipartite-edges", "sizes": sizes}
        m = (n * n - sum(s * s for s in sizes)) // 2
        if res.number_of_edges() != m:
            return {"defect": "complete:edge-count", "got": res.number_of_edges(), "want": m}
        return None
    return Case("nx_multi", req("nx_multi", enc_list(sizes)), impl, oracle,
                cls="cli" if via_cli else "lib", nontrivial=len([s for s in sizes if s]) > 1, info=info)


# ------------------------------------------------------------------ suites nx_gnp, nx_gnm
def build_gnp(info):
    n, ptok = info["n"], info["p"]
    mode, rseed = info.get("mode", "seed"), info.get("rseed", 0)
    p = float(ptok)
    pn, pd = p.as_integer_ratio()
    state = {}
    case = Case("nx_gnp", "", None, None, cls="gnp", nontrivial=n > 1, info=info)

    def impl():
        if create_py_random_state(None) is not pyrandom._inst:
            raise RuntimeError("networkx does not draw from random._inst")
        with InstRecorder(mode, rseed) as rr, CallRecorder("gnp_random_graph") as rec:
            try:
                res = graph_build.obtain_gnp({"args": [str(n), ptok]})
            except ValueError as e:
                res = e
        case.req = req("nx_gnp", n, pn, pd, rr.encoded())
        case.cls = "gnp:{}:{}".format("complete" if p >= 1 else ("empty" if p <= 0 else "draws"),
                                      "seed" if mode == "seed" else "inj-" + mode)
        state["res"], state["units"] = res, rr.units
        if rec.nxobj is None:
            raise RuntimeError("networkx.gnp_random_graph was not called")
        return "OK {} | {} R 0".format(fmt_nxg(rec.nxobj), fmt_from(rec.calls, res))

    def oracle():
        res = state.get("res")
        if res is None:
            return None
        if isinstance(res, Exception):
            return {"defect": "gnp:refused-legal", "n": n, "p": ptok}
        bad = check_simple_object(res)
        if bad or res.number_of_vertices() != n:
            return {"defect": "gnp:object", "what": bad or "vertex count"}
        pairs = list(itertools.combinations(range(1, n + 1), 2))
        es = set(res.edges())
        # the promise of gnp that does not depend on HOW networkx samples: the extreme probabilities
        if p >= 1 and es != set(pairs):
            return {"defect": "gnp:p=1-not-complete", "n": n, "p": ptok}
        if p <= 0 and es:
            return {"defect": "gnp:p=0-not-empty", "n": n, "p": ptok}
        return None
    case.impl, case.oracle = impl, oracle
    case.req = req("nx_gnp", n, pn, pd, [0])
    return case


def build_gnm(info):
    n, m = info["n"], info["m"]
    mode, rseed = info.get("mode", "seed"), info.get("rseed", 0)
    state = {}
    case = Case("nx_gnm", "", None, None, cls="gnm", nontrivial=m > 0, info=info)

    def impl():
        if create_py_random_state(None) is not pyrandom._inst:
            raise RuntimeError("networkx does not draw from random._inst")
        with InstRecorder(mode, rseed) as rr, CallRecorder("gnm_random_graph") as rec:
            try:
                res = graph_build.obtain_gnm({"args": [str(n), str(m)]})
            except ValueError as e:
                res = e
        case.req = req("nx_gnm", n, m, rr.encoded())
        br = "empty1" if n == 1 else ("complete" if 2 * m >= n * (n - 1) else
                                      ("retry" if len(rr.draws) > 2 * m else "loop"))
        case.cls = "gnm:{}:{}".format(br, "seed" if mode == "seed" else "inj-" + mode)
        state["res"] = res
        if rec.nxobj is None:
            raise RuntimeError("networkx.gnm_random_graph was not called")
        return "OK {} | {} R 0".format(fmt_nxg(rec.nxobj), fmt_from(rec.calls, res))

    def oracle():
        res = state.get("res")
        if res is None:
            return None
        if isinstance(res, Exception):
            return {"defect": "gnm:refused-legal", "n": n, "m": m}
        bad = check_simple_object(res)
        if bad or res.number_of_vertices() != n:
            return {"defect": "gnm:object", "what": bad or "vertex count"}
        if res.number_of_edges() != m or len(list(res.edges())) != m:
            return {"defect": "gnm:edge-count", "got": res.number_of_edges(), "want": m}
        return None
    case.impl, case.oracle = impl, oracle
    case.req = req("nx_gnm", n, m, [0])
    return case




# ------------------------------------------------------------------ suite nx_gnd
def build_gnd(info):
    n, d = info["n"], info["d"]
    mode, rseed = info.get("mode", "seed"), info.get("rseed", 0)
    state = {}
    # the request models networkx + Graph.normalize; arguments that cnfgen's own guard refuses go to them directly
    lib = bool(info.get("lib")) or not (n > d > 0 and (n * d) % 2 == 0)
    case = Case("nx_gnd", "", None, None, cls="gnd", nontrivial=True, info=info)

    def impl():
        if create_py_random_state(None) is not pyrandom._inst:
            raise RuntimeError("networkx does not draw from random._inst")
        with InstRecorder(mode, rseed) as rr:
            try:
                if lib:
                    res = Graph.normalize(networkx.random_regular_graph(d, n))
                else:
                    res = graph_build.obtain_gnd({"args": [str(n), str(d)]})
                out = "OK {} R 0".format(fmt_simple(res))
            except Exception as e:
                res = e
                out = common.exc_name(e)
        case.req = req("nx_gnd", n, d, rr.encoded())
        rounds = len(rr.draws)
        restarts = sum(1 for dr in rr.draws if dr[0] == 2 and dr[1] == n * d) - 1
        case.cls = "gnd:{}:{}".format("refused" if isinstance(res, Exception) else
                                      ("restarted" if restarts > 0 else ("one-round" if rounds <= 1 else "several-rounds")),
                                      "seed" if mode == "seed" else "inj-" + mode)
        state["res"] = res
        return out

    def oracle():
        res = state.get("res")
        if res is None:
            return None
        legal = n > d > 0 and (n * d) % 2 == 0
        if isinstance(res, Exception):
            if lib:
                return None                 # networkx's own refusals (NetworkXError) are its documented behaviour
            if not isinstance(res, ValueError):
                return {"defect": "simple:gnd:exception", "exception": type(res).__name__, "n": n, "d": d}
            return {"defect": "simple:gnd:refused-legal", "n": n, "d": d} if legal else None
        if not legal and not lib:
            return {"defect": "simple:gnd:accepted-illegal", "n": n, "d": d}
        bad = check_simple_object(res)
        if bad or res.number_of_vertices() != n:
            return {"defect": "gnd:object", "what": bad or "vertex count"}
        if any(res.degree(v) != d for v in range(1, n + 1)) or 2 * res.number_of_edges() != n * d:
            return {"defect": "gnd:not-regular", "degrees": [res.degree(v) for v in range(1, n + 1)], "d": d}
        return None
    case.impl, case.oracle = impl, oracle
    case.req = req("nx_gnd", n, d, [0])
    return case

# ------------------------------------------------------------------ suite nx_cli (obtain_graph with the networkx part computed by the model)
def build_nxcli(info):
    spec = list(info["spec"])
    mode, rseed = info.get("mode", "seed"), info.get("rseed", 0)
    state = {}
    graph_args.parse_graph_argument("simple", list(spec))      # a spec the parser refuses is not a case of this suite
    case = Case("nx_cli", "", None, None, cls="nxcli:" + (spec[0] if spec else ""), nontrivial=True, info=info)

    def impl():
        tmp = tempfile.mkdtemp(prefix="c15nx-")
        try:
            toks = [t.replace("@TMP@", tmp) for t in spec]
            parsed = graph_args.parse_graph_argument("simple", toks)
            state["parsed"] = dict(parsed)
            with c15base.Recorder(mode, rseed) as rec, InstRecorder(mode, rseed) as rr:
                try:
                    G = graph_args.obtain_graph(parsed)
                    state["final"] = c15base.snapshot(G)
                    out = "OK " + c15base.fmt_graph(G)
                    if "save" in parsed:
                        fmt, fname = parsed["save"]
                        H = readGraph(fname, "simple", fmt)
                        state["saved"] = c15base.snapshot(H)
                        out += " SAVED " + c15base.fmt_saved(H, G)
                    else:
                        out += " NOSAVE"
                    out += " R 0"
                except Exception as e:
                    state["exc"] = e
                    out = common.exc_name(e)
            c = c15base.CONS[("simple", parsed["construction"])]
            case.req = req("nx_cli", 0, c, c15base.enc_args(parsed["args"]),
                           c15base.enc_opt(parsed, "plantclique"), c15base.enc_opt(parsed, "plantbiclique"),
                           c15base.enc_opt(parsed, "addedges"), c15base.enc_opt(parsed, "splitedges"),
                           c15base.save_code("simple", parsed), c15base.RESTART_BUDGET, rr.encoded(), [0], rec.encoded())
            mods = [o for o in ("plantclique", "addedges", "splitedges", "save") if o in parsed]
            case.cls = "nxcli:{}:{}{}".format(parsed["construction"], "+".join(mods) or "plain",
                                              ":refused" if "exc" in state else "")
            return out
        finally:
            shutil.rmtree(tmp, ignore_errors=True)

    def oracle():
        parsed = state.get("parsed")
        if parsed is None:
            return None
        cname, toks = parsed["construction"], parsed["args"]
        exc = state.get("exc")
        if exc is not None and not isinstance(exc, ValueError):
            return {"defect": "simple:{}:exception".format(cname), "exception": type(exc).__name__, "spec": spec}
        if any(o in parsed for o in ("plantclique", "addedges", "splitedges")):
            return None                     # the modifiers' promises are checked by the suite `cli` of C15.py
        legal = c15base.documented_construction("simple", cname, toks)
        if exc is not None:
            if "save" in parsed:
                return None
            return {"defect": "simple:{}:refused-legal".format(cname), "spec": spec} if legal else None
        if not legal:
            return {"defect": "simple:{}:accepted-illegal".format(cname), "spec": spec}
        r = c15base.check_construction("simple", cname, toks, state["final"])
        if r is not None:
            r["defect"] = "simple:{}:structure".format(cname)
            r["spec"] = spec
            return r
        if "saved" in state and state["saved"] != state["final"]:
            return {"defect": "save:differs", "spec": spec}
        return None
    case.impl, case.oracle = impl, oracle
    case.req = "nx_cli"
    return case

# ------------------------------------------------------------------ dispatch / generators
BUILDERS = {"nx_grid": build_grid, "nx_line": build_line, "nx_from": build_from, "nx_product": build_product,
            "nx_multi": build_multi, "nx_gnp": build_gnp, "nx_gnm": build_gnm, "nx_cli": build_nxcli, "nx_gnd": build_gnd}


def build(suite, info):
    if suite not in BUILDERS:
        raise ValueError("not a suite of C15_nx: " + str(suite))
    return BUILDERS[suite](info)


def random_time_edges(rng, n, k, loops):
    out = []
    for _ in range(k):
        u, v = rng.randrange(n), rng.randrange(n)
        if u == v and not loops:
            continue
        out.append((u, v))
        if out and rng.random() < 0.15:
            a, b = rng.choice(out)
            out.append((b, a) if rng.random() < 0.5 else (a, b))
    return out


def cases(ctx):
    quick = ctx["tier"] == "quick"
    seed = ctx["seed"]
    rng = common.sub_rng(seed, "C15_nx")
    infos = []

    # grid / torus: all small vectors
    top, maxlen = (4, 3) if quick else (5, 4)
    for k in range(0, maxlen + 1):
        for dims in itertools.product(range(1, top + 1), repeat=k):
            if k == maxlen and not quick and max(dims) == top and rng.random() < 0.5:
                continue
            for per in (False, True):
                infos.append(("nx_grid", dict(dims=list(dims), periodic=per)))
    odd = [[0], [0, 3], [3, 0], [2, 0, 2], [1, 1, 1, 1, 1, 1], [2, 2, 2, 2, 2, 2], [3, 3, 3, 3], [17], [33], [1, 9, 1],
           [2, 3, 2, 3, 2], [9, 2], [2, 9], [5, 5, 5], [7, 3, 4], [3, 1, 2, 1, 3], [6, 6]]
    if not quick:
        odd += [[64], [10, 10, 4], [3, 3, 3, 3, 3], [2] * 8, [1] * 9 + [4], [12, 11]]
    for _ in range(6 if quick else 30):
        odd.append([rng.choice([1, 2, 2, 3, 3, 4, 5, 6]) for _ in range(rng.randint(1, 5))])
    for dims in odd:
        if prod(dims) <= (400 if quick else 1200):
            for per in (False, True):
                infos.append(("nx_grid", dict(dims=dims, periodic=per)))

    for d in list(range(0, 9)) + [16, 31]:
        for per in (False, True):
            infos.append(("nx_line", dict(d=d, periodic=per)))

    # complete N B and general block sizes
    for n in range(1, 6):
        for b in range(1, 6):
            infos.append(("nx_multi", dict(sizes=[n] * b, cli=True)))
    infos.append(("nx_multi", dict(sizes=[7] * 6, cli=True)))
    infos.append(("nx_multi", dict(sizes=[1] * 17, cli=True)))
    infos.append(("nx_multi", dict(sizes=[20], cli=True)))
    for sizes in [[], [0], [0, 0], [3, 0, 2], [0, 4], [1, 2, 3], [3, 2, 1], [2, 2, 5, 1], [4, 1, 1, 1, 1], [1, 0, 1, 0, 1]]:
        infos.append(("nx_multi", dict(sizes=sizes, cli=False)))
    for _ in range(10 if quick else 60):
        infos.append(("nx_multi", dict(sizes=[rng.randint(0, 4) for _ in range(rng.randint(0, 6))], cli=False)))

    # generic pieces
    for _ in range(60 if quick else 400):
        n = rng.randint(1, 8)
        infos.append(("nx_from", dict(n=n, edges=random_time_edges(rng, n, rng.randint(0, 14), rng.random() < 0.2))))
    infos.append(("nx_from", dict(n=0, edges=[])))
    infos.append(("nx_from", dict(n=3, edges=[(2, 1), (1, 2), (0, 2), (2, 0), (1, 0)])))
    infos.append(("nx_from", dict(n=2, edges=[(1, 1)])))
    for _ in range(40 if quick else 250):
        na, nb = rng.randint(0, 5), rng.randint(0, 5)
        infos.append(("nx_product", dict(na=na, ea=random_time_edges(rng, na, rng.randint(0, 7), rng.random() < 0.3) if na else [],
                                         nb=nb, eb=random_time_edges(rng, nb, rng.randint(0, 7), rng.random() < 0.3) if nb else [])))

    # gnp / gnm
    rs = lambda: rng.randrange(1 << 30)
    ptoks = ["0", "1", "-0.0", "0.5", ".3", "0.9", "1e-9", "1.0", "0.999999999", "5e-1", "0.25", "0.0"]
    for n in range(1, 8 if quick else 10):
        for ptok in ptoks:
            modes = ["seed", rng.choice(MODES[1:])] if quick else MODES
            for mode in modes:
                infos.append(("nx_gnp", dict(n=n, p=ptok, mode=mode, rseed=rs())))
        for m in range(0, n * (n - 1) // 2 + 1):
            modes = ["seed", rng.choice(MODES[1:])] if quick else MODES
            for mode in modes:
                infos.append(("nx_gnm", dict(n=n, m=m, mode=mode, rseed=rs())))
    for n, ptok in [(25, "0.2"), (40, "0.05"), (13, "0.7")]:
        infos.append(("nx_gnp", dict(n=n, p=ptok, mode="seed", rseed=rs())))
    for n, m in [(25, 60), (40, 30), (12, 65), (12, 66), (30, 434), (9, 35)]:
        for mode in ("seed", "sticky"):
            infos.append(("nx_gnm", dict(n=n, m=m, mode=mode, rseed=rs())))


    # gnd
    for n in range(1, 9 if quick else 12):
        for d in range(0, n + 2):
            modes = ["seed", rng.choice(MODES[1:])] if quick else MODES
            for mode in modes:
                infos.append(("nx_gnd", dict(n=n, d=d, mode=mode, rseed=rs())))
            if d < n and (n * d) % 2 == 0:
                infos.append(("nx_gnd", dict(n=n, d=d, mode="seed", rseed=rs(), lib=True)))
    for n, d in [(20, 3), (16, 15), (30, 4), (12, 11), (13, 12), (9, 8), (10, 9)]:
        for mode in ("seed", "sticky", "uniform"):
            infos.append(("nx_gnd", dict(n=n, d=d, mode=mode, rseed=rs())))

    # the same constructions through parse_graph_argument + obtain_graph, with modifiers
    specs = []
    for dims in [["2"], ["3", "3"], ["2", "3", "2"], ["4", "1"], ["1"], ["0"], ["-2", "3"], [], ["2.5"], ["1e1"], ["3", "1e400"], ["nan"],
                 ["5"], ["3", "4"], ["2", "2", "2", "2"]]:
        for name in ("grid", "torus"):
            specs.append([name] + dims)
    for a in [["3"], ["3", "2"], ["2", "3"], ["1", "1"], ["4", "1"], ["0", "2"], ["2", "0"], ["2", "-1"], ["2", "2", "2"], ["2.0", "2"], []]:
        specs.append(["complete"] + a)
    for a in [["5", "0.5"], ["6", ".3"], ["4", "1"], ["4", "0"], ["4", "1.0"], ["3", "0.5", "1"], ["3", "0.5", "2"], ["0", "0.5"],
              ["4", "1.5"], ["4", "-0.1"], ["4", "nan"], ["4"], ["7", "0.9"], ["1", "0.5"], ["4", "inf", "1"], ["2", "1e-3"]]:
        specs.append(["gnp"] + a)
    for a in [["5", "4"], ["5", "10"], ["5", "11"], ["5", "0"], ["1", "0"], ["1", "1"], ["0", "0"], ["6", "7"], ["4", "6"], ["4", "-1"],
              ["4"], ["4", "2", "1"], ["3.0", "2"], ["7", "20"], ["2", "1"]]:
        specs.append(["gnm"] + a)
    for a in [["6", "3"], ["5", "2"], ["4", "3"], ["5", "3"], ["4", "4"], ["4", "0"], ["0", "0"], ["6", "-1"], ["6"], ["8", "3", "1"],
              ["7", "2"], ["6.0", "2"], ["2", "1"]]:
        specs.append(["gnd"] + a)
    options = [[], ["plantclique", "2"], ["addedges", "1"], ["splitedges", "1"], ["addedges", "2", "plantclique", "3"],
               ["save", "kthlist", "@TMP@/g.kthlist"], ["splitedges", "2", "addedges", "1", "save", "dimacs", "@TMP@/g"],
               ["plantclique", "9"], ["addedges", "50"], ["save", "@TMP@/g.nothing"]]
    for sp in specs:
        opts = [[]] + ([rng.choice(options[1:])] if quick else options[1:])
        for o in opts:
            modes = ["seed", rng.choice(MODES[1:])] if (sp[0] in ("gnp", "gnm", "gnd") or o) else ["seed"]
            for mode in modes:
                infos.append(("nx_cli", dict(spec=sp + o, mode=mode, rseed=rs())))

    for suite, info in infos:
        yield build(suite, info)


def search(ctx, case):
    """correspondence broke: evaluate the property oracle on the disagreeing input and on neighbouring ones"""
    info = dict(case.info or {})
    tries = [info]
    if case.suite in ("nx_gnp", "nx_gnm"):
        for mode in MODES:
            for s in range(4):
                i2 = dict(info)
                i2["mode"], i2["rseed"] = mode, s
                tries.append(i2)
    if case.suite == "nx_grid":
        for per in (False, True):
            for dims in ([2], [3], [2, 2], [2, 3], [3, 3], [3, 4], [2, 2, 2], [3, 3, 3], [4, 3, 5]):
                tries.append(dict(dims=dims, periodic=per))
    if case.suite == "nx_multi":
        for sizes in ([1, 1], [2, 2], [2, 2, 2], [3, 3], [1, 2, 3]):
            tries.append(dict(sizes=sizes, cli=len(set(sizes)) == 1))
    for i2 in tries:
        try:
            c = build(case.suite, i2)
        except Exception:
            continue
        common.run_impl(c)
        r = common.run_oracle(c)
        if r is not None:
            return {"suite": case.suite, "info": i2, "failure": r}
    return None
