"""C03 (share: Ramsey number, van der Waerden, Pythagorean triples, CPLS, Pitfall).

Correspondence: the formula built by the real generator — number of variables and the
clause / constraint list, in order, for the CNF and for the OPB class — equals the Lean
model's rendering, exactly.  Pitfall's random regular graph is drawn by the real
`networkx.random_regular_graph` with a harness-chosen seed and handed to the model.

Oracle (independent of the model): the documented satisfiability, evaluated on what the
real generator returned.  Contradictions (CPLS, Pitfall with ny >= 2) must be UNSAT —
truth table up to 20 variables, above that a small DPLL with a node budget (skipped,
never alarmed, when the budget is exceeded).  Ramsey / vdW / PTN: the set of satisfying
assignments equals the set of colourings (decoded through the variable *labels*) that
avoid the forbidden structures, the latter computed by brute force.  Plus: documented
number of variables, literals within range, illegal parameters raise ValueError.
"""
import itertools
import math
import re

import networkx

from harness import common
from harness.common import Case, req, enc_list, enc_pairs, ok, fmt_formula

from cnfgen.formula.cnf import CNF
from cnfgen.formula.opb import OPB
from cnfgen.formula.baseopb import BaseOPB
from cnfgen.graphs import Graph
from cnfgen.families.ramsey import PythagoreanTriples, RamseyNumber, VanDerWaerden, _vdw_ap_generator
from cnfgen.families.cpls import CPLSFormula
from cnfgen.families.tseitin import TseitinFormula
import cnfgen.families.pitfall as pitfall_mod
from cnfgen.families.pitfall import PitfallFormula

SUITES = ("r_ptn", "r_ram", "r_vdw", "r_apgen", "r_cpls", "r_pitfall", "r_pitfall_args", "r_pftemplate")

RULE = ("Ramsey share of C03: ptn N=0..60 (thorough ..400), ramsey s,k=0..5 x N=0..9, vdw N=0..9 with 2-4 colours and "
        "progression lengths 1..4 (0 and negatives as illegal), the progression generator itself, CPLS a=1..3, b,c in {1,2,4} "
        "(+ non powers of two / non-positive as illegal), Pitfall small (v,d,ny,nz,k) on graphs drawn by networkx with "
        "several seeds, each family for the CNF and the OPB class; distinct = distinct request line; "
        "non-trivial = the formula has at least one constraint or the parameters are rejected")
ASSUMPTIONS = [
    "Pitfall: the graph handed to the model is the one networkx.random_regular_graph returns in the harness process "
    "(the generator is third-party; only its output is observed)",
    "ptn: int(sqrt(x*x+y*y)) (float) is compared with the exact integer square root for x<y<=N, N up to 60 (quick) / "
    "400 (thorough) through the formula, and directly for all x<y<=3000 in the thorough tier",
]
TRUSTED_EXTRA = ["networkx.random_regular_graph (third-party generator; its result is an input of the Pitfall model)"]
NOTES = []

TT_MAX = 20            # truth table up to this many variables
DPLL_BUDGET = 30000    # decisions+propagation rounds
# effort limits of the brute-force specifications (replay uses the generous defaults; `cases` lowers
# them in the quick tier)
LIMITS = {"ram_vars": 15, "colourings": 70000}


def CLS(opb):
    return OPB if opb else CNF


# ----------------------------------------------------------------- evaluation helpers
def split_constraints(F):
    """(clauses, others): clauses as literal lists; `others` are genuine PB constraints"""
    if isinstance(F, BaseOPB):
        cls, others = [], []
        for c in F:
            c = list(c)
            terms, op, rhs = c[:-2], c[-2], c[-1]
            if op == ">=" and rhs == 1 and all(co == 1 for co, _ in terms):
                cls.append([l for _, l in terms])
            else:
                others.append(c)
        return cls, others
    return [list(c) for c in F.clauses()], []


def masks(clauses):
    out = []
    for c in clauses:
        p = n = 0
        for l in c:
            if l > 0:
                p |= 1 << (l - 1)
            else:
                n |= 1 << (-l - 1)
        out.append((p, n))
    return out


def sat_set(F):
    """set of satisfying assignments (bit i-1 = variable i); None if too large"""
    n = F.number_of_variables()
    if n > TT_MAX:
        return None
    clauses, others = split_constraints(F)
    ms = masks(clauses)
    full = (1 << n) - 1
    res = set()
    for a in range(1 << n):
        na = ~a & full
        good = True
        for p, q in ms:
            if not (a & p or na & q):
                good = False
                break
        if good and others:
            alpha = [False] + [bool((a >> i) & 1) for i in range(n)]
            good = common.opb_holds(others, alpha)
        if good:
            res.add(a)
    return res


def range_check(F):
    n = F.number_of_variables()
    clauses, others = split_constraints(F)
    for c in clauses:
        for l in c:
            if l == 0 or abs(l) > n:
                return {"literal_out_of_range": l, "nvars": n}
    for c in others:
        for _, l in c[:-2]:
            if l == 0 or abs(l) > n:
                return {"literal_out_of_range": l, "nvars": n}
    return None


def dpll_unsat(clauses, budget=DPLL_BUDGET):
    """True = UNSAT, False = SAT (returns a model in .model), None = budget exceeded"""
    state = {"budget": budget, "model": None}

    def simplify(cls, lit):
        out = []
        for c in cls:
            if lit in c:
                continue
            if -lit in c:
                c2 = [l for l in c if l != -lit]
                if not c2:
                    return None
                out.append(c2)
            else:
                out.append(c)
        return out

    def rec(cls, assign):
        while True:
            state["budget"] -= 1
            if state["budget"] < 0:
                raise TimeoutError
            unit = None
            for c in cls:
                if len(c) == 1:
                    unit = c[0]
                    break
            if unit is None:
                break
            assign = assign + [unit]
            cls = simplify(cls, unit)
            if cls is None:
                return False
        if not cls:
            state["model"] = assign
            return True
        # branch on a literal of a shortest clause
        best = min(cls, key=len)
        lit = best[0]
        for l in (lit, -lit):
            nxt = simplify(cls, l)
            if nxt is not None and rec(nxt, assign + [l]):
                return True
        return False

    if any(len(c) == 0 for c in clauses):
        return True
    try:
        sat = rec([list(dict.fromkeys(c)) for c in clauses], [])
    except (TimeoutError, RecursionError):
        return None
    dpll_unsat.model = state["model"]
    return not sat


def unsat_oracle(F, what):
    """the documented contradiction must be unsatisfiable"""
    r = range_check(F)
    if r:
        return r
    n = F.number_of_variables()
    clauses, others = split_constraints(F)
    if n <= 16:
        s = sat_set(F)
        if s:
            a = min(s)
            return {"documented_contradiction_is_satisfiable": what,
                    "assignment_true_vars": [i + 1 for i in range(n) if (a >> i) & 1]}
        return None
    if others:
        return None
    res = dpll_unsat(clauses)
    if res is None:
        NOTES.append("DPLL budget exceeded (skipped): " + what)
        return None
    if res is False:
        return {"documented_contradiction_is_satisfiable": what,
                "assignment_true_literals": sorted(l for l in (dpll_unsat.model or []) if l > 0)}
    return None


def labels_of(F):
    return list(F.all_variable_labels())


# ----------------------------------------------------------------- specifications (brute force)
def aps(N, k):
    """k-term arithmetic progressions inside 1..N, straight from the definition"""
    out = set()
    if k == 1:
        return {(i,) for i in range(1, N + 1)}
    for i in range(1, N + 1):
        for d in range(1, N + 1):
            if i + (k - 1) * d <= N:
                out.add(tuple(i + t * d for t in range(k)))
    return out


def triples(N):
    out = []
    for x in range(1, N + 1):
        for y in range(x + 1, N + 1):
            z = math.isqrt(x * x + y * y)
            if z * z == x * x + y * y and z <= N:
                out.append((x, y, z))
    return out


def compare_sets(got, want, n, extra=None):
    if got == want:
        return None
    bad = min(got ^ want)
    d = {"assignment_true_vars": [i + 1 for i in range(n) if (bad >> i) & 1],
         "formula_accepts": bad in got, "specification_accepts": bad in want,
         "models_of_formula": len(got), "colourings_of_specification": len(want)}
    if extra:
        d.update(extra)
    return d


# ----------------------------------------------------------------- per-family oracles
def oracle_ptn(F, N):
    r = range_check(F)
    if r:
        return r
    if F.number_of_variables() != N:
        return {"documented_variables": N, "got": F.number_of_variables()}
    labs = labels_of(F)
    if labs != ["v({})".format(i) for i in range(1, N + 1)]:
        return {"labels": labs[:10]}
    tr = triples(N)
    clauses, others = split_constraints(F)
    want = []
    for (x, y, z) in tr:
        want.append((x, y, z))
        want.append((-x, -y, -z))
    if others or sorted(tuple(c) for c in clauses) != sorted(want):
        return {"clauses_are_not_the_triples": True, "N": N, "triples": tr[:20], "clauses": clauses[:20]}
    if N <= 14:
        got = sat_set(F)
        spec = set()
        for a in range(1 << N):
            col = lambda i: (a >> (i - 1)) & 1
            if all(not (col(x) == col(y) == col(z)) for x, y, z in tr):
                spec.add(a)
        return compare_sets(got, spec, N)
    return None


def oracle_ram(F, s, k, N):
    r = range_check(F)
    if r:
        return r
    pairs = list(itertools.combinations(range(1, N + 1), 2))
    n = F.number_of_variables()
    if n != len(pairs):
        return {"documented_variables": len(pairs), "got": n}
    labs = labels_of(F)
    dec = []
    for lab in labs:
        m = re.fullmatch(r"e_\{(\d+),(\d+)\}", lab)
        if not m:
            return {"unexpected_label": lab}
        dec.append((int(m.group(1)), int(m.group(2))))
    if sorted(dec) != pairs:
        return {"labels_are_not_the_pairs": labs[:10]}
    if n > LIMITS["ram_vars"] and not (n == 15 and (s, k) in ((3, 3), (3, 4), (2, 5))):
        return None
    var = {p: i for i, p in enumerate(dec)}
    got = sat_set(F)
    ssets = [[var[p] for p in itertools.combinations(S, 2)] for S in itertools.combinations(range(1, N + 1), s)]
    ksets = [[var[p] for p in itertools.combinations(S, 2)] for S in itertools.combinations(range(1, N + 1), k)]
    spec = set()
    for a in range(1 << n):
        good = True
        for S in ssets:      # independent set: no edge present
            if not any((a >> i) & 1 for i in S):
                good = False
                break
        if good:
            for S in ksets:  # clique: all edges present
                if all((a >> i) & 1 for i in S):
                    good = False
                    break
        if good:
            spec.add(a)
    return compare_sets(got, spec, n)


def oracle_vdw(F, N, K):
    r = range_check(F)
    if r:
        return r
    C = len(K)
    n = F.number_of_variables()
    labs = labels_of(F)
    progs = [aps(N, k) for k in K]
    if C == 2:
        if n != N:
            return {"documented_variables": N, "got": n}
        if labs != ["x_{{{}}}".format(i) for i in range(1, N + 1)]:
            return {"labels": labs[:10]}
        got = sat_set(F) if N <= 17 else None
        if got is None:
            return None
        spec = set()
        for a in range(1 << N):
            # colour 1 = variable false, colour 2 = variable true
            if any(all(not (a >> (i - 1)) & 1 for i in ap) for ap in progs[0]):
                continue
            if any(all((a >> (i - 1)) & 1 for i in ap) for ap in progs[1]):
                continue
            spec.add(a)
        return compare_sets(got, spec, N)
    if n != N * C:
        return {"documented_variables": N * C, "got": n}
    want_labs = ["x_{{{},{}}}".format(i, c) for i in range(1, N + 1) for c in range(1, C + 1)]
    if labs != want_labs:
        return {"labels": labs[:10]}
    var = {(i, c): (i - 1) * C + (c - 1) for i in range(1, N + 1) for c in range(1, C + 1)}

    def good(chi):
        for c in range(1, C + 1):
            for ap in progs[c - 1]:
                if all(chi[i] == c for i in ap):
                    return False
        return True

    def enc(chi):
        a = 0
        for i in range(1, N + 1):
            a |= 1 << var[(i, chi[i])]
        return a

    if C ** N > LIMITS["colourings"]:
        return None
    spec = set()
    allcol = set()
    for tup in itertools.product(range(1, C + 1), repeat=N):
        chi = (None,) + tup
        a = enc(chi)
        allcol.add(a)
        if good(chi):
            spec.add(a)
    if n <= 16:
        got = sat_set(F)
        return compare_sets(got, spec, n)
    # larger: every colouring's assignment is accepted iff the colouring is good
    clauses, others = split_constraints(F)
    ms = masks(clauses)
    full = (1 << n) - 1
    for a in allcol:
        alpha = None
        h = all((a & p) or (~a & full & q) for p, q in ms)
        if h and others:
            alpha = [False] + [bool((a >> i) & 1) for i in range(n)]
            h = common.opb_holds(others, alpha)
        if h != (a in spec):
            return {"assignment_true_vars": [i + 1 for i in range(n) if (a >> i) & 1],
                    "formula_accepts": h, "specification_accepts": a in spec}
    # assignments that are not colourings (a number with no colour / two colours) are rejected
    if N >= 1:
        for a in list(allcol)[:50]:
            for flip in (0, n - 1):
                b = a ^ (1 << flip)
                h = all((b & p) or (~b & full & q) for p, q in ms)
                if h and others:
                    h = common.opb_holds(others, [False] + [bool((b >> i) & 1) for i in range(n)])
                if h:
                    return {"assignment_true_vars": [i + 1 for i in range(n) if (b >> i) & 1],
                            "formula_accepts": True, "specification_accepts": False,
                            "why": "not exactly one colour per number"}
    return None


def oracle_apgen(N, k):
    got = [tuple(ap) for ap in _vdw_ap_generator(N, k)]
    want = aps(N, k)
    if len(set(got)) != len(got):
        return {"progression_listed_twice": True, "N": N, "k": k}
    if set(got) != want:
        return {"N": N, "k": k, "missing": sorted(want - set(got))[:5], "extra": sorted(set(got) - want)[:5]}
    return None


def intlog2(x):
    return (x - 1).bit_length()


def oracle_cpls(F, a, b, c):
    n = F.number_of_variables()
    doc = a * b * c + a * b * intlog2(b) + b * intlog2(c)
    if n != doc:
        return {"documented_variables": doc, "got": n}
    doccl = c + (a - 1) * b * b * c + b * c
    if len(F) != doccl:
        return {"documented_clauses": doccl, "got": len(F)}
    return unsat_oracle(F, "cpls {} {} {}".format(a, b, c))


def oracle_pitfall(F, m, ny, nz, k):
    n = F.number_of_variables()
    doc = k * m + k * ny + k * nz + k * (m + nz) + 3 * k
    if n != doc:
        return {"documented_variables": doc, "got": n}
    if ny < 2:
        return range_check(F)
    return unsat_oracle(F, "pitfall m={} ny={} nz={} k={}".format(m, ny, nz, k))


# ----------------------------------------------------------------- illegal parameters
def expect_value_error(call):
    def oracle():
        try:
            call()
        except ValueError:
            return None
        except Exception as e:  # noqa: the kind is the observation
            return {"illegal_parameters_raised": type(e).__name__, "expected": "ValueError"}
        return {"illegal_parameters_accepted": True}
    return oracle


# ----------------------------------------------------------------- graphs for Pitfall
def draw_graph(v, d, gseed):
    g = networkx.random_regular_graph(d, v, seed=gseed)
    return Graph.normalize(g)


class patched_generator:
    """inside the block `networkx.random_regular_graph(d, n)` is the real function called with a fixed seed"""

    def __init__(self, gseed):
        self.gseed = gseed

    def __enter__(self):
        self.real = networkx.random_regular_graph
        real, gseed = self.real, self.gseed

        def wrapper(d, n, seed=None, **kw):
            return real(d, n, seed=gseed)
        networkx.random_regular_graph = wrapper
        pitfall_mod.networkx.random_regular_graph = wrapper
        return self

    def __exit__(self, *a):
        networkx.random_regular_graph = self.real
        pitfall_mod.networkx.random_regular_graph = self.real
        return False


# ----------------------------------------------------------------- build
def build(suite, info):
    if suite not in SUITES:
        raise ValueError("not a suite of C03_ramsey: " + suite)
    opb = bool(info.get("opb", False))
    cl = 1 if opb else 0
    tag = "opb" if opb else "cnf"
    state = {}

    if suite == "r_ptn":
        N = info["N"]

        def impl():
            F = PythagoreanTriples(N, formula_class=CLS(opb))
            state["F"] = F
            return ok(fmt_formula(F))
        if N < 0:
            orc = expect_value_error(lambda: PythagoreanTriples(N, formula_class=CLS(opb)))
            return Case(suite, req("c03b_ptn", cl, N), impl, orc, cls=tag + ":illegal", nontrivial=True, info=info)

        def oracle():
            F = state.get("F")
            if F is None:
                return {"generator_raised_on_legal_parameters": True}
            return oracle_ptn(F, N)
        return Case(suite, req("c03b_ptn", cl, N), impl, oracle,
                    cls=tag + (":triples" if N >= 5 else ":empty"), nontrivial=N >= 5, info=info)

    if suite == "r_ram":
        s, k, N = info["s"], info["k"], info["N"]

        def impl():
            F = RamseyNumber(s, k, N, formula_class=CLS(opb))
            state["F"] = F
            return ok(fmt_formula(F))
        if s < 1 or k < 1 or N < 0:
            orc = expect_value_error(lambda: RamseyNumber(s, k, N, formula_class=CLS(opb)))
            return Case(suite, req("c03b_ram", cl, s, k, N), impl, orc, cls=tag + ":illegal", info=info)

        def oracle():
            F = state.get("F")
            if F is None:
                return {"generator_raised_on_legal_parameters": True}
            return oracle_ram(F, s, k, N)
        return Case(suite, req("c03b_ram", cl, s, k, N), impl, oracle, cls=tag,
                    nontrivial=N >= min(s, k), info=info)

    if suite == "r_vdw":
        N, K = info["N"], list(info["K"])

        def call():
            return VanDerWaerden(N, K[0], K[1], *K[2:], formula_class=CLS(opb))

        def impl():
            F = call()
            state["F"] = F
            return ok(fmt_formula(F))
        r = req("c03b_vdw", cl, N, K[0], K[1], enc_list(K[2:]))
        if N < 0 or any(x < 1 for x in K):
            return Case(suite, r, impl, expect_value_error(call), cls=tag + ":illegal", info=info)

        def oracle():
            F = state.get("F")
            if F is None:
                return {"generator_raised_on_legal_parameters": True}
            return oracle_vdw(F, N, K)
        return Case(suite, r, impl, oracle, cls="{}:{}col{}".format(tag, len(K), ":len1" if 1 in K else ""),
                    nontrivial=N >= 1, info=info)

    if suite == "r_apgen":
        N, k = info["N"], info["k"]

        def impl():
            aps_ = [list(ap) for ap in _vdw_ap_generator(N, k)]
            return ok(common.fmt_clauses(aps_))
        return Case(suite, req("c03b_apgen", N, k), impl, lambda: oracle_apgen(N, k),
                    cls="k=1" if k == 1 else "k>=2", nontrivial=N >= k, info=info)

    if suite == "r_cpls":
        a, b, c = info["a"], info["b"], info["c"]

        def call():
            return CPLSFormula(a, b, c, formula_class=CLS(opb))

        def impl():
            F = call()
            state["F"] = F
            return ok(fmt_formula(F))
        r = req("c03b_cpls", cl, a, b, c)
        legal = a >= 1 and b >= 1 and c >= 1 and (b & (b - 1)) == 0 and (c & (c - 1)) == 0
        if not legal:
            return Case(suite, r, impl, expect_value_error(call), cls=tag + ":illegal", info=info)

        def oracle():
            F = state.get("F")
            if F is None:
                return {"generator_raised_on_legal_parameters": True}
            return oracle_cpls(F, a, b, c)
        return Case(suite, r, impl, oracle, cls=tag, nontrivial=True, info=info)

    if suite == "r_pitfall":
        v, d, ny, nz, k, gseed = info["v"], info["d"], info["ny"], info["nz"], info["k"], info["gseed"]
        G = draw_graph(v, d, gseed)

        def impl():
            with patched_generator(gseed):
                F = PitfallFormula(v, d, ny, nz, k, formula_class=CLS(opb))
            state["F"] = F
            return ok(fmt_formula(F))

        def oracle():
            F = state.get("F")
            if F is None:
                return {"generator_raised_on_legal_parameters": True}
            return oracle_pitfall(F, G.number_of_edges(), ny, nz, k)
        r = req("c03b_pitfall", cl, v, d, ny, nz, k, common.enc_graph(G))
        return Case(suite, r, impl, oracle, cls=tag + (":ny>=2" if ny >= 2 else ":ny=1"), nontrivial=True, info=info)

    if suite == "r_pitfall_args":
        v, d, ny, nz, k = info["v"], info["d"], info["ny"], info["nz"], info["k"]

        def call():
            return PitfallFormula(v, d, ny, nz, k)

        def impl():
            call()
            return ok("drawable")
        r = req("c03b_pitfall_args", v, d, ny, nz, k)
        exists = min(v, d, ny, k) >= 1 and nz >= 2 and k % 2 == 0 and d < v and (v * d) % 2 == 0
        if exists:
            return Case(suite, r, impl, None, cls="legal", nontrivial=True, info=info)
        # d == v (no d-regular graph on v vertices): ValueError like every other illegal choice (D41, fixed)
        cls = "illegal:d>=v" if (min(v, d, ny, k) >= 1 and nz >= 2 and k % 2 == 0 and d >= v) else "illegal"
        return Case(suite, r, impl, expect_value_error(call), cls=cls, nontrivial=True, info=info)

    if suite == "r_pftemplate":
        v, d, gseed = info["v"], info["d"], info["gseed"]
        G = draw_graph(v, d, gseed)

        def impl():
            return ok(common.fmt_cnf(TseitinFormula(G, [True])))

        def oracle():
            T = TseitinFormula(G, [True])
            return unsat_oracle(T, "Tseitin template, odd total charge, v={} d={}".format(v, d))
        return Case(suite, req("c03b_pftemplate", common.enc_graph(G)), impl, oracle, cls="template", info=info)
    raise ValueError(suite)


# ----------------------------------------------------------------- generators
def cases(ctx):
    tier, seed = ctx["tier"], ctx["seed"]
    thorough = tier == "thorough"
    rng = common.sub_rng(seed, "C03_ramsey")
    LIMITS["ram_vars"] = 15 if thorough else 10
    LIMITS["colourings"] = 20000 if thorough else 7000
    infos = []
    both = (False, True)

    # ---- corpus: replays of the repaired defects D6 / D7 / D29 and boundary inputs, always first
    infos.append(("r_vdw", dict(N=5, K=[1, 3])))                       # D6: progression length 1
    infos.append(("r_vdw", dict(N=4, K=[2, 1, 3])))
    infos.append(("r_pitfall_args", dict(v=4, d=3, ny=2, nz=1, k=2)))  # D7: nz = 1
    infos.append(("r_pitfall", dict(v=4, d=3, ny=2, nz=2, k=2, gseed=1)))   # D29
    infos.append(("r_pitfall", dict(v=4, d=2, ny=2, nz=2, k=2, gseed=1)))
    infos.append(("r_pitfall_args", dict(v=2, d=2, ny=2, nz=2, k=2)))  # D41 (fixed): d == v is refused with ValueError

    # ---- Pythagorean triples
    # sizes where an index/bound computation matters: hypotenuses of the near-isosceles triples (x, x+1, z)
    # (29, 169, 985: x/z is closest to 1/sqrt 2 there) and their neighbours, plus random larger N
    big = [29, 30, 41, 60, 168, 169, 170, 338, 339] + [rng.randint(61, 700) for _ in range(3)]
    for N in list(range(-1, 27)) + (big if not thorough else list(range(27, 80)) + big + [100, 150, 250, 400, 985, 986]):
        for opb in both:
            if opb and N > 30:
                continue
            infos.append(("r_ptn", dict(N=N, opb=opb)))

    # ---- Ramsey number
    for N in range(0, 10):
        for s in range(0, 6):
            for k in range(0, 6):
                for opb in both:
                    if opb and not thorough and (N + s + k) % 3 != seed % 3:
                        continue
                    infos.append(("r_ram", dict(s=s, k=k, N=N, opb=opb)))
    infos.append(("r_ram", dict(s=2, k=2, N=-1)))
    if thorough:
        for (s, k, N) in [(3, 3, 11), (4, 3, 10), (2, 7, 10), (6, 6, 10), (3, 4, 12)]:
            infos.append(("r_ram", dict(s=s, k=k, N=N)))

    # ---- the progression generator, van der Waerden
    for N in range(0, 14 if not thorough else 30):
        for k in range(1, 7):
            infos.append(("r_apgen", dict(N=N, k=k)))
    for N in range(0, 10):
        for k1 in range(1, 5):
            for k2 in range(1, 5):
                for opb in both:
                    infos.append(("r_vdw", dict(N=N, K=[k1, k2], opb=opb)))
    n_multi = 260 if not thorough else 1500
    for _ in range(n_multi):
        C = rng.choice([3, 3, 4])
        K = [rng.randint(1, 4) for _ in range(C)]
        N = rng.choice([0, 1, 2, 3, 4, 5, 5, 6, 6, 7, 8, 9])
        infos.append(("r_vdw", dict(N=N, K=K, opb=rng.random() < .4)))
    for K in ([0, 2], [2, 0], [2, 2, 0], [-1, 2], [3, 3, 3, -2]):
        infos.append(("r_vdw", dict(N=4, K=K)))
    infos.append(("r_vdw", dict(N=-1, K=[2, 2])))
    infos.append(("r_vdw", dict(N=-1, K=[2, 2, 2])))
    if thorough:
        for (N, K) in [(20, [3, 3]), (35, [4, 4]), (27, [3, 3, 3]), (15, [2, 3, 4, 5]), (12, [1, 1, 1, 1, 1])]:
            infos.append(("r_vdw", dict(N=N, K=K)))

    # ---- CPLS
    for a in range(0, 4):
        for b in (0, 1, 2, 3, 4, 6):
            for c in (0, 1, 2, 3, 4, 5):
                for opb in both:
                    if opb and (b, c) in ((4, 4),) and a == 3 and not thorough:
                        continue
                    infos.append(("r_cpls", dict(a=a, b=b, c=c, opb=opb)))
    infos.append(("r_cpls", dict(a=-1, b=2, c=2)))
    infos.append(("r_cpls", dict(a=2, b=-2, c=2)))
    infos.append(("r_cpls", dict(a=2, b=2, c=-4)))
    if thorough:
        for (a, b, c) in [(4, 4, 2), (2, 8, 2), (2, 2, 8), (5, 2, 4), (1, 8, 8), (1, 16, 1)]:
            infos.append(("r_cpls", dict(a=a, b=b, c=c)))

    # ---- Pitfall
    shapes = [(2, 1), (3, 2), (4, 1), (4, 2), (4, 3), (5, 2), (5, 4), (6, 3)]
    if thorough:
        shapes += [(6, 1), (6, 2), (6, 4), (6, 5), (7, 2), (7, 4), (8, 3)]
    reps = 28 if not thorough else 170
    for i in range(reps):
        v, d = shapes[i % len(shapes)] if i < 2 * len(shapes) else rng.choice(shapes)
        ny = rng.choice([1, 2, 2, 3, 4]) if i >= 4 else [2, 2, 3, 1][i]
        nz = rng.choice([2, 2, 3])
        k = rng.choice([2, 2, 4]) if (thorough or v * d <= 10) else 2
        infos.append(("r_pitfall", dict(v=v, d=d, ny=ny, nz=nz, k=k, gseed=rng.randrange(10 ** 6),
                                        opb=(i % 3 == 2))))
    for (v, d) in shapes:
        infos.append(("r_pftemplate", dict(v=v, d=d, gseed=rng.randrange(10 ** 6))))
    for info in [dict(v=4, d=3, ny=2, nz=2, k=3), dict(v=4, d=3, ny=2, nz=2, k=1), dict(v=4, d=3, ny=2, nz=0, k=2),
                 dict(v=3, d=4, ny=2, nz=2, k=2), dict(v=3, d=3, ny=2, nz=2, k=2), dict(v=5, d=3, ny=2, nz=2, k=2),
                 dict(v=0, d=1, ny=2, nz=2, k=2), dict(v=4, d=0, ny=2, nz=2, k=2), dict(v=4, d=2, ny=0, nz=2, k=2),
                 dict(v=4, d=2, ny=2, nz=2, k=0), dict(v=4, d=2, ny=2, nz=2, k=-2), dict(v=4, d=4, ny=2, nz=2, k=2),
                 dict(v=6, d=6, ny=1, nz=2, k=2), dict(v=4, d=2, ny=2, nz=2, k=2), dict(v=4, d=2, ny=1, nz=5, k=6),
                 dict(v=1, d=1, ny=1, nz=2, k=2), dict(v=-4, d=2, ny=2, nz=2, k=2), dict(v=4, d=2, ny=2, nz=-1, k=2)]:
        infos.append(("r_pitfall_args", info))
    for _ in range(40 if not thorough else 400):
        infos.append(("r_pitfall_args", dict(v=rng.randint(-1, 7), d=rng.randint(-1, 7), ny=rng.randint(0, 3),
                                             nz=rng.randint(0, 3), k=rng.randint(-1, 5))))

    for suite, info in infos:
        yield build(suite, info)

    if thorough:
        # float sqrt against the exact integer square root, directly (assumption of the ptn model)
        bad = None
        for x in range(1, 3001):
            xx = x * x
            for y in range(x + 1, 3001):
                if int(math.sqrt(xx + y * y)) != math.isqrt(xx + y * y):
                    bad = (x, y)
                    break
            if bad:
                break
        NOTES.append("float sqrt == isqrt for all x<y<=3000: {}".format("yes" if bad is None else "NO at {}".format(bad)))


# ----------------------------------------------------------------- failing-input search
def search(ctx, case):
    """the correspondence broke on `case`: evaluate the property itself (oracle) on the case and on its
    neighbourhood (each integer parameter moved by -1/+1/+2), return the first input on which it fails"""
    info = dict(case.info or {})
    cands = [info]
    for key, val in info.items():
        if isinstance(val, bool) or key in ("gseed",):
            continue
        if isinstance(val, int):
            for dlt in (1, -1, 2):
                c2 = dict(info)
                c2[key] = val + dlt
                cands.append(c2)
        elif isinstance(val, list):
            for i in range(len(val)):
                for dlt in (1, -1):
                    c2 = dict(info)
                    c2[key] = list(val)
                    c2[key][i] += dlt
                    cands.append(c2)
    if case.suite == "r_pitfall":
        for gs in range(5):
            c2 = dict(info)
            c2["gseed"] = gs
            cands.append(c2)
    for c2 in cands:
        try:
            c = build(case.suite, c2)
        except Exception:
            continue
        common.run_impl(c)
        r = common.run_oracle(c)
        if r is not None and "oracle_exception" not in r:
            return {"suite": case.suite, "info": c2, "failure": r}
    return None
