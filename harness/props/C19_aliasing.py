"""C19 (aliasing) — the result of a transformation and its input are two objects that share NOTHING mutable:
for every transformation, every parameter combination (the no-op ones above all) and several kinds of input.

C19.py applies each transformation of the command-line table once per random formula.  Here the catalogue is the
product of every parameter the library accepts:
  * Shuffle: polarity_flips x variables_permutation x clauses_permutation, each one of 'fixed', 'shuffle', the
    explicit identity, an explicit non-trivial list  (4^3 = 64 combinations; 'fixed','fixed','fixed' and the all-identity
    one change nothing at all);
  * every substitution with its smallest parameter (xor 1, or 1, maj 1, eq 1, one 1, lift 1, exact 1 1, atleast 1 1,
    atmost 1 1, anybut 1 0 — formulas that have as many variables as the input) and with an ordinary one;
  * FlipPolarity, IfThenElse, VariableCompression (xor / maj, a shifting graph and a perfect matching: each new variable
    stands for exactly one old one);
  * two-step chains of the above.
Inputs: named blocks + header entries, a formula without variables, one with an empty clause, one with unused variables
and no header besides the default, one read from the catalogue of families (php).

Oracle, for each (transformation, input) — nothing is compared with a model here:
  1. the call leaves the input as it was (snapshot: variable count, clauses, labels, header, DIMACS text with names);
     the result is another object (documented exception: `none`);
  2. FORWARD: each mutation of the RESULT through its public interface — add_clause with an old and with a new variable,
     add_clauses_from, new_variable, new_block, update_variable_number, header entry added / overwritten / deleted,
     description extended — and through the clause lists it hands out, one at a time on a fresh result: the input keeps
     its snapshot;
  3. BACKWARD: the same mutations applied to the INPUT after the call: the result keeps its snapshot;
  4. chains: mutate the last result, the intermediate one and the input keep theirs.
"""
import random

from harness import common
from harness.common import Case, req, enc_list, ok, fmt_clauses

import cnfgen
from cnfgen.formula.linear import CNFLinear
from cnfgen import graphs as G

RULE = ("Shuffle 4^3 parameter combinations, every substitution at its smallest and at an ordinary parameter, flip, ite, "
        "compression on a shift graph and on a perfect matching, 2-step chains x 5 kinds of input x 12 mutations of the result "
        "(input must not move) and of the input (result must not move); distinct = distinct (transformation, input, seed)")
ASSUMPTIONS = ["aliasing is observed through the public interface and the clause lists an object hands out; not proven"]


# ------------------------------------------------------------------ snapshots and mutations
def snap(F):
    try:
        text = F.to_dimacs(export_header=True, export_varnames=True)
    except TypeError:
        text = F.to_dimacs()
    return (F.number_of_variables(), [list(c) for c in F], list(F.all_variable_labels()), list(F.header.items()), text)


def _m_add_old(F):
    F.add_clause([1, -1] if F.number_of_variables() else [])


def _m_add_new(F):
    n = F.number_of_variables()
    F.add_clause([n + 1, -(n + 2)])


def _m_add_many(F):
    F.add_clauses_from([[], [F.number_of_variables() + 1]])


def _m_new_variable(F):
    F.new_variable(label="fresh")


def _m_new_block(F):
    F.new_block(2, 2, label="w_{{{},{}}}")


def _m_raise_count(F):
    F.update_variable_number(F.number_of_variables() + 3)


def _m_header_add(F):
    F.header["zzz added later"] = "1"


def _m_header_overwrite(F):
    for k in list(F.header):
        F.header[k] = "overwritten"


def _m_header_delete(F):
    for k in list(F.header):
        del F.header[k]


def _m_description(F):
    F.header["description"] = F.header.get("description", "") + " and more"


def _m_clause_lists(F):
    # whatever lists the object hands out or keeps: editing them must stay a private matter
    for view in (list(F), list(F.clauses()), getattr(F, "_clauses", [])):
        for c in view:
            if isinstance(c, list):
                c.append(1)
                if c:
                    c[0] = -c[0] if c[0] else 1


def _m_clause_store(F):
    st = getattr(F, "_clauses", None)
    if isinstance(st, list):
        st.append([1])
        st.reverse()


MUTATIONS = [("add_clause(old vars)", _m_add_old), ("add_clause(new vars)", _m_add_new), ("add_clauses_from", _m_add_many),
             ("new_variable", _m_new_variable), ("new_block", _m_new_block), ("update_variable_number", _m_raise_count),
             ("header add", _m_header_add), ("header overwrite", _m_header_overwrite), ("header delete", _m_header_delete),
             ("description", _m_description), ("edit clause lists", _m_clause_lists), ("edit clause store", _m_clause_store)]


# ------------------------------------------------------------------ inputs
def in_blocks(r):
    F = cnfgen.CNF(description="base formula")
    F.new_block(r.randint(1, 2), 2, label="x_{{{},{}}}")
    F.new_variable(label="lonely")
    n = F.number_of_variables()
    for _ in range(r.randint(2, 4)):
        F.add_clause([r.choice([1, -1]) * v for v in r.sample(range(1, n + 1), r.randint(1, min(3, n)))])
    F.header["note"] = "kept"
    if r.random() < .5:
        F.header["transformation 1"] = "an earlier step"
    return F


def in_novars(r):
    F = cnfgen.CNF(description="no variables")
    if r.random() < .5:
        F.add_clause([])
    return F


def in_emptyclause(r):
    F = cnfgen.CNF([[1, -2], [], [2, 3]])
    F.header["x"] = "y"
    return F


def in_unused(r):
    F = cnfgen.CNF([[1, -2], [-1, 2]])
    F.update_variable_number(5)
    return F


def in_family(r):
    return cnfgen.PigeonholePrinciple(3, 2) if r.random() < .5 else cnfgen.OrderingPrinciple(3)


INPUTS = [("blocks", in_blocks), ("novars", in_novars), ("emptyclause", in_emptyclause), ("unused", in_unused), ("family", in_family)]


# ------------------------------------------------------------------ transformations
def _perm_arg(kind, n, zero_based, r):
    """'fixed' | 'shuffle' | explicit identity | explicit non-trivial permutation of n things"""
    base = list(range(0, n)) if zero_based else list(range(1, n + 1))
    if kind in ("fixed", "shuffle"):
        return kind
    if kind == "identity":
        return base
    p = list(base)
    r.shuffle(p)
    if p == base and n > 1:
        p = p[1:] + p[:1]
    return p


def _flip_arg(kind, n, r):
    if kind in ("fixed", "shuffle"):
        return kind
    if kind == "identity":
        return [1] * n
    return [r.choice((1, -1)) for _ in range(n - 1)] + [-1] if n else []


KINDS = ("fixed", "shuffle", "identity", "explicit")


def shuffle_with(p, v, c):
    def f(F, r):
        n, m = F.number_of_variables(), F.number_of_clauses()
        return cnfgen.Shuffle(F, polarity_flips=_flip_arg(p, n, r), variables_permutation=_perm_arg(v, n, False, r),
                              clauses_permutation=_perm_arg(c, m, True, r))
    return f


def compression(fn, matching):
    def f(F, r):
        n = max(F.number_of_variables(), 1)
        if matching:
            B = G.BipartiteGraph(F.number_of_variables(), F.number_of_variables())
            for i in range(1, F.number_of_variables() + 1):
                B.add_edge(i, i)
            if fn == "maj":
                return cnfgen.VariableCompression(F, B, "maj")
            return cnfgen.VariableCompression(F, B, "xor")
        B = G.bipartite_shift(F.number_of_variables(), max(3, n), [0, 1, 2]) if F.number_of_variables() else G.BipartiteGraph(0, 3)
        return cnfgen.VariableCompression(F, B, fn)
    return f


def catalogue():
    cat = []
    for p in KINDS:
        for v in KINDS:
            for c in KINDS:
                cat.append(("shuffle({},{},{})".format(p, v, c), shuffle_with(p, v, c)))
    cat.append(("shuffle(defaults)", lambda F, r: cnfgen.Shuffle(F)))
    one = [("xor", cnfgen.XorSubstitution), ("or", cnfgen.OrSubstitution), ("maj", cnfgen.MajoritySubstitution),
           ("eq", cnfgen.AllEqualSubstitution), ("neq", cnfgen.NotAllEqualSubstitution), ("one", cnfgen.ExactlyOneSubstitution),
           ("lift", cnfgen.FormulaLifting)]
    for name, fn in one:
        for k in (1, 2, 3):
            cat.append(("{}({})".format(name, k), lambda F, r, fn=fn, k=k: fn(F, k)))
    two = [("exact", cnfgen.ExactlyKSubstitution), ("atleast", cnfgen.AtLeastKSubstitution), ("atmost", cnfgen.AtMostKSubstitution),
           ("anybut", cnfgen.AnythingButKSubstitution)]
    for name, fn in two:
        for N, k in ((1, 0), (1, 1), (2, 1), (3, 2), (2, 0), (2, 2)):
            cat.append(("{}({},{})".format(name, N, k), lambda F, r, fn=fn, N=N, k=k: fn(F, N, k)))
    cat.append(("flip", lambda F, r: cnfgen.FlipPolarity(F)))
    cat.append(("ite", lambda F, r: cnfgen.IfThenElseSubstitution(F)))
    for fn in ("xor", "maj"):
        cat.append(("compression({},shift)".format(fn), compression(fn, False)))
        cat.append(("compression({},matching)".format(fn), compression(fn, True)))
    return cat


CATALOGUE = catalogue()
INDEX = {name: f for name, f in CATALOGUE}


def describe(step, stage, mut, extra):
    d = {"transformation": step, "stage": stage}
    if mut:
        d["mutation"] = mut
    d.update(extra)
    return d


def changed(a, b):
    return [n for n, x, y in zip(("variables", "clauses", "labels", "header", "dimacs"), a, b) if x != y]


def alias_case(tnames, iname, seed):
    """tnames: one transformation, or two applied in a row"""
    label = " ; ".join(tnames)

    def run():
        r = random.Random(seed)
        F = dict(INPUTS)[iname](r)
        before = snap(F)
        random.seed(seed)
        objs = [F]
        for t in tnames:
            objs.append(INDEX[t](objs[-1], r))
        return F, before, objs

    def oracle():
        try:
            F, before, objs = run()
        except ValueError:
            return None             # a refusal (e.g. majority over one variable it does not accept): nothing to alias
        except Exception as e:  # noqa
            return describe(label, "call", None, {"input": iname, "raised": type(e).__name__, "msg": str(e)[:120]})
        if snap(F) != before:
            return describe(label, "call", None, {"input": iname, "input_changed_by_the_call": changed(before, snap(F))})
        R = objs[-1]
        if any(a is b for i, a in enumerate(objs) for b in objs[i + 1:]):
            return describe(label, "call", None, {"input": iname, "returned_an_object_it_was_given": True})
        for mname, mut in MUTATIONS:
            # forward: a fresh result is mutated, everything upstream must keep its snapshot
            F, before, objs = run()
            ups = [snap(o) for o in objs[:-1]]
            try:
                mut(objs[-1])
            except Exception:  # noqa  (a mutation the object refuses is no mutation)
                pass
            for j, (o, s0) in enumerate(zip(objs[:-1], ups)):
                if snap(o) != s0:
                    return describe(label, "forward", mname, {"input": iname, "what_moved": "the input" if j == 0 else "the intermediate formula",
                                                               "changed": changed(s0, snap(o)), "seed": seed})
            # backward: the input (and the intermediate) mutated after the call, the result must keep its snapshot
            for j in range(len(tnames)):
                F, before, objs = run()
                down = [snap(o) for o in objs[j + 1:]]
                try:
                    mut(objs[j])
                except Exception:  # noqa
                    pass
                for o, s0 in zip(objs[j + 1:], down):
                    if snap(o) != s0:
                        return describe(label, "backward", mname, {"input": iname, "mutated": "the input" if j == 0 else "the intermediate formula",
                                                                    "result_changed": changed(s0, snap(o)), "seed": seed})
        return None
    lits = [1, -2, 3]
    return Case("alias", req("lin", 1, 1, enc_list(lits)),
                lambda: ok(fmt_clauses((lambda A: (A.add_linear(list(lits), ">=", 1), A)[1])(CNFLinear()))),
                oracle, cls=tnames[0].split("(")[0] + ("+chain" if len(tnames) > 1 else ""),
                info={"t": list(tnames), "input": iname, "seed": seed})


def build(suite, info):
    if suite != "alias":
        raise ValueError("unknown suite " + suite)
    return alias_case(info["t"], info["input"], info["seed"])


def cases(ctx):
    tier, seed = ctx["tier"], ctx["seed"]
    rng = common.sub_rng(seed, "C19", "alias")
    out = []
    names = [n for n, _ in CATALOGUE]
    inames = [n for n, _ in INPUTS]
    for t in names:
        # every transformation and parameter combination on the structured input, and on one other kind (all kinds: thorough)
        kinds = inames if tier == "thorough" else ["blocks", rng.choice(inames[1:])]
        for i in kinds:
            out.append(alias_case([t], i, rng.randint(0, 10 ** 6)))
    # chains: at least one of the two steps keeps the size of the formula (a substitution of a substitution of wide
    # clauses is exponentially large), the other one is anything
    light = [n for n in names if n.startswith(("shuffle", "flip")) or n.endswith(("(1)", "(1,0)", "(1,1)"))]
    for _ in range(150 if tier == "thorough" else 25):
        pair = [rng.choice(names), rng.choice(light)]
        if rng.random() < .5:
            pair.reverse()
        out.append(alias_case(pair, rng.choice(inames), rng.randint(0, 10 ** 6)))
    return out
