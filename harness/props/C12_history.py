"""C12 / C11 / C06 (histories with observations interleaved) — a rendering or a name list always denotes the formula
as it is NOW: rendering, then changing the formula, then rendering again must give what a formula built by the same
operations WITHOUT the first rendering gives.  (Catches memoised texts / name lists that are not invalidated.)

Correspondence: the builder request of the last cardinality constraint of the history (`lin`); the point of the
module is the oracle, which is independent of the model.
"""
import random

from harness import common, histlib
from harness.common import Case, req, enc_list, ok, OPCODE, fmt_clauses

from cnfgen.formula.cnf import CNF
from cnfgen.formula.opb import OPB
from cnfgen.formula.linear import CNFLinear

RULE = "random histories (clauses, constraints, new variables / blocks, variable-count raises) with renderings interleaved"
OBS = ["to_dimacs", "to_opb", "to_latex", "labels", "nvars", "len", "str"]


def observe(F, what):
    if what == "labels":
        return list(F.all_variable_labels())
    if what == "nvars":
        return F.number_of_variables()
    if what == "len":
        return len(F)
    if what == "str":
        return str(F)
    if what == "to_dimacs" and not hasattr(F, "to_dimacs"):
        what = "to_opb"
    return getattr(F, what)()


def gen_history(rng, opb):
    ops = []
    for _ in range(rng.randint(2, 9)):
        r = rng.random()
        if r < .35:
            ops.append(("clause", [rng.choice([1, -1]) * rng.randint(1, 6) for _ in range(rng.randint(0, 3))]))
        elif r < .5:
            ops.append(("var", rng.choice([None, "y", "z_{1}"])))
        elif r < .62:
            ops.append(("block", rng.randint(0, 3)))
        elif r < .8:
            ops.append(("raise", rng.randint(0, 9)))
        elif r < .9 or not opb:
            lits = [rng.choice([1, -1]) * v for v in rng.sample(range(1, 7), rng.randint(1, 3))]
            ops.append(("card", lits, rng.choice(["<=", ">=", "=="]), rng.randint(0, 3)))
        else:
            n = rng.randint(0, 3)
            ops.append(("pb", [(rng.randint(1, 4), rng.choice([1, -1]) * v) for v in rng.sample(range(1, 7), n)],
                        rng.choice([">=", "==", "<=", "<", ">"]), rng.randint(-2, 6)))
    return ops


def apply(F, op):
    k = op[0]
    if k == "clause":
        F.add_clause(list(op[1]))
    elif k == "var":
        F.new_variable(op[1])
    elif k == "block":
        F.new_block(op[1], 2, label="b_{{{},{}}}")
    elif k == "raise":
        F.update_variable_number(op[1])
    elif k == "card":
        F.add_linear(list(op[1]), op[2], op[3]) if not isinstance(F, OPB) else \
            getattr(F, {"<=": "cardinality_leq", ">=": "cardinality_geq", "==": "cardinality_eq"}[op[2]])(list(op[1]), op[3])
    elif k == "pb":
        F.add_constraint(list(op[1]) + [op[2], op[3]])


def build(suite, info):
    if suite != "observe_history":
        raise ValueError("unknown suite " + suite)
    opb, ops, watch = info["opb"], [tuple(o) for o in info["ops"]], info["watch"]
    lits, o, k = info["last"]

    def impl():
        A = CNFLinear()
        A.add_linear(list(lits), o, k)
        return ok(fmt_clauses(A))

    def oracle():
        cls = OPB if opb else CNF
        A, B = cls(), cls()
        for i, op in enumerate(ops):
            for w in watch.get(str(i), []):
                observe(A, w)            # observation in the middle of the history (must not change anything)
            apply(A, op)
            apply(B, op)
        for w in OBS:
            a, b = observe(A, w), observe(B, w)
            if a != b:
                return {"class": cls.__name__, "history": [list(map(str, o)) for o in ops], "observed_early": watch,
                        "view": w, "after_early_observation": str(a)[:300], "fresh": str(b)[:300]}
        # and the rendering states the true counts
        txt = A.to_opb().split("\n")[0].split()
        if int(txt[2]) != A.number_of_variables() or int(txt[4]) != len(A):
            return {"class": cls.__name__, "opb_declares": txt, "in_memory": [A.number_of_variables(), len(A)]}
        return None
    return Case(suite, req("lin", OPCODE[o], k, enc_list(lits)), impl, oracle, cls="opb" if opb else "cnf", info=info)


def cases(ctx):
    tier, seed = ctx["tier"], ctx["seed"]
    rng = common.sub_rng(seed, "C12h")
    out = []
    # the minimal shapes first: observe, raise the variable count only, observe again
    for opb in (False, True):
        for early in OBS[:4]:
            for op in (("raise", 5), ("var", None), ("block", 2), ("clause", [7, -8])):
                out.append(build("observe_history", dict(opb=opb, ops=[("clause", [1, -2]), op], watch={"1": [early]},
                                                          last=[[1, 2], ">=", 1])))
    for _ in range(120 if tier == "quick" else 2500):
        opb = rng.random() < .5
        ops = gen_history(rng, opb)
        watch = {}
        for i in range(len(ops)):
            if rng.random() < .5:
                watch[str(i)] = [rng.choice(OBS) for _ in range(rng.randint(1, 2))]
        lits = [rng.choice([1, -1]) * v for v in rng.sample(range(1, 6), rng.randint(1, 3))]
        out.append(build("observe_history", dict(opb=opb, ops=ops, watch=watch,
                                                  last=[lits, rng.choice(["<=", ">=", "=="]), rng.randint(0, 2)])))
    return out + rendered_histories(rng, tier)


# ---- the writer suites of C12 (request = the Lean model's text of the CURRENT content, oracle = the independent readers)
#      on ONE formula object rendered after every step of its growth (harness/histlib.py; built by C12.build: src = "hist")
JUDGED = [("wopb", dict(export_header=False, export_varnames=False, via="to_opb"), {"obs": "to_opb"}),
          ("wopb", dict(export_header=True, export_varnames=False), {"obs": "to_file", "fmt": "opb", "header": True, "names": False}),
          ("wopb", dict(export_header=True, export_varnames=True), {"obs": "to_file", "fmt": "opb", "header": True, "names": True}),
          ("wopb", dict(export_header=False, export_varnames=True), {"obs": "to_file", "fmt": "opb", "header": False, "names": True}),
          ("wlatex", dict(), {"obs": "to_latex"}),
          ("wlatexdoc", dict(export_header=True), {"obs": "to_file", "fmt": "latex", "header": True}),
          ("wlatexdoc", dict(export_header=False), {"obs": "to_file", "fmt": "latex", "header": False})]


def rendered_histories(rng, tier):
    from harness.props import C12
    quick = tier == "quick"
    infos = []
    # corpus: finding D46-s6 (a header without 'description': the LaTeX document writer raises KeyError)
    for first in ([{"op": "clause", "lits": [1, -2], "check": True}], [{"op": "init", "clauses": [[1, -2]], "kind": "list", "description": "d"}]):
        infos.append(("wlatexdoc", dict(export_header=True, src="hist", steps=first + [{"op": "header", "key": "description", "value": None}])))
    for suite, fields, ob in JUDGED:
        hs = histlib.minimal_histories([ob])
        for h in (hs if not quick or suite != "wlatexdoc" else rng.sample(hs, 6)):
            infos.append((suite, dict(fields, src="hist", steps=h)))
    for _ in range(25 if quick else 1000):
        suite, fields, ob = rng.choice(JUDGED)
        steps, cuts = histlib.gen_history(rng, rng.randint(2, 7), rng.choice([8, 20, 40]), favourite=ob, become=.08)
        for cut in cuts:
            s2, f2, _ = (suite, fields, ob) if rng.random() < .7 else rng.choice(JUDGED)
            infos.append((s2, dict(f2, src="hist", steps=steps[:cut], u=rng.random() < .15)))
    out = []
    for suite, info in infos:
        c = C12.build(suite, info)
        if c is not None:
            out.append(c)
    return out
