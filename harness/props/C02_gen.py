"""C02 — differential test of the TRANSLATED family generators of this property (GraphColoringFormula, TseitinFormula,
EvenColoringFormula).  See harness/genfuncs.py (what is tested and why) and notes/translator.md."""
from harness import genfuncs

PROP = "C02"
RULE = genfuncs.RULE
TRUSTED_EXTRA = genfuncs.TRUSTED_EXTRA
NOTES = []


def cases(ctx):
    return genfuncs.cases(PROP, ctx)


def build(suite, info):
    return genfuncs.build(PROP, suite, info)


def search_global(ctx):
    return genfuncs.search_global(PROP, ctx)
